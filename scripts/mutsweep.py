#!/usr/bin/env python3
"""Development aid (not a registered check): mutation sweep of one source file against one property's check.

  scripts/mutsweep.py C13 cirq-core/cirq/qis/clifford_tableau.py [--funcs a,b] [--max 200] [--jobs 12] [--tier quick] [--tests]

Every mutant is a one-node textual edit of the file (comparison / arithmetic / boolean operator, small constant, negated test,
dropped statement, swapped call arguments) applied to a scratch copy of the five packages under /tmp/mutslots/<k>; the check runs
with VERIF_REPO pointing at the copy and VERIF_OUT at a scratch directory, so /repo and /verif/evidence are never touched.
Survivors (exit 0) are listed; with --tests the module's own upstream tests are run on each survivor to tell "behaviour changed but
the check is blind" from "probably equivalent".  Results: /tmp/mutsweep/<prop>__<file>.jsonl
"""
import argparse
import ast
import concurrent.futures as cf
import json
import os
import random
import shutil
import subprocess
import sys

VERIF = os.path.dirname(os.path.dirname(os.path.abspath(__file__)))
PKGS = ["cirq-core", "cirq-google", "cirq-ionq", "cirq-aqt", "cirq-pasqal"]
SKIP_FUNCS = {"__repr__", "__str__", "_repr_pretty_", "_circuit_diagram_info_", "_repr_", "__init_subclass__", "_value_equality_values_"}

CMP = {ast.Lt: "<=", ast.LtE: "<", ast.Gt: ">=", ast.GtE: ">", ast.Eq: "!=", ast.NotEq: "==", ast.Is: "is not", ast.IsNot: "is", ast.In: "not in", ast.NotIn: "in"}
CMP_TXT = {ast.Lt: "<", ast.LtE: "<=", ast.Gt: ">", ast.GtE: ">=", ast.Eq: "==", ast.NotEq: "!=", ast.Is: "is", ast.IsNot: "is not", ast.In: "in", ast.NotIn: "not in"}
BIN = {ast.Add: ("+", "-"), ast.Sub: ("-", "+"), ast.LShift: ("<<", ">>"), ast.RShift: (">>", "<<"), ast.BitAnd: ("&", "|"), ast.BitOr: ("|", "&"),
       ast.BitXor: ("^", "|"), ast.Mult: ("*", "+"), ast.FloorDiv: ("//", "%"), ast.Mod: ("%", "//")}


def seg(src_lines, node):
    if node.lineno != node.end_lineno:
        return None
    return src_lines[node.lineno - 1][node.col_offset:node.end_col_offset]


def replace(src_lines, node, text):
    out = list(src_lines)
    if node.lineno == node.end_lineno:
        l = out[node.lineno - 1]
        out[node.lineno - 1] = l[:node.col_offset] + text + l[node.end_col_offset:]
    else:
        first = out[node.lineno - 1][:node.col_offset] + text
        last = out[node.end_lineno - 1][node.end_col_offset:]
        out[node.lineno - 1:node.end_lineno] = [first + last]
    return out


def mutants(src, funcs):
    lines = src.split("\n")
    tree = ast.parse(src)
    res = []

    def visit(node, fn):
        if isinstance(node, (ast.FunctionDef, ast.AsyncFunctionDef)):
            fn = node.name if fn is None or True else fn
            if node.name in SKIP_FUNCS:
                return
            body = node.body
            # skip docstring
            for ch in body:
                if isinstance(ch, ast.Expr) and isinstance(ch.value, ast.Constant) and isinstance(ch.value.value, str):
                    continue
                visit(ch, node.name)
            return
        if isinstance(node, ast.ClassDef):
            for ch in node.body:
                visit(ch, fn)
            return
        if fn is None:
            for ch in ast.iter_child_nodes(node):
                visit(ch, fn)
            return
        if funcs and fn not in funcs:
            return
        if isinstance(node, (ast.Raise, ast.Assert, ast.Import, ast.ImportFrom)):
            return
        if isinstance(node, ast.If) and isinstance(node.test, ast.Name) and node.test.id == "TYPE_CHECKING":
            return

        def add(n, text, kind):
            res.append(dict(line=n.lineno, func=fn, kind=kind, old=seg(lines, n) or "<multiline>", new=text, lines=replace(lines, n, text)))

        if isinstance(node, ast.Compare) and len(node.ops) == 1 and node.lineno == node.end_lineno:
            op = node.ops[0]
            l, r = seg(lines, node.left), seg(lines, node.comparators[0])
            if l is not None and r is not None and type(op) in CMP:
                add(node, f"{l} {CMP[type(op)]} {r}", "cmp")
        if isinstance(node, ast.BinOp) and type(node.op) in BIN and node.lineno == node.end_lineno:
            l, r = seg(lines, node.left), seg(lines, node.right)
            if l is not None and r is not None and not isinstance(node.left, ast.Constant) or (isinstance(node.left, ast.Constant) and not isinstance(node.left.value, str)):
                if l is not None and r is not None:
                    add(node, f"{l} {BIN[type(node.op)][1]} {r}", "binop")
        if isinstance(node, ast.BoolOp) and node.lineno == node.end_lineno and len(node.values) == 2:
            l, r = seg(lines, node.values[0]), seg(lines, node.values[1])
            if l is not None and r is not None:
                add(node, f"{l} {'or' if isinstance(node.op, ast.And) else 'and'} {r}", "boolop")
        if isinstance(node, ast.UnaryOp) and isinstance(node.op, (ast.Not, ast.USub, ast.Invert)) and node.lineno == node.end_lineno:
            o = seg(lines, node.operand)
            if o is not None and not (isinstance(node.op, ast.USub) and isinstance(node.operand, ast.Constant)):
                add(node, f"({o})", "unary")
        if isinstance(node, ast.Constant) and node.lineno == node.end_lineno:
            v = node.value
            if v is True or v is False:
                add(node, str(not v), "const")
            elif isinstance(v, int) and not isinstance(v, bool) and 0 <= v <= 8:
                add(node, str(v + 1 if v != 1 else 0), "const")
            elif isinstance(v, float) and v != 0:
                add(node, repr(-v), "const")
        if isinstance(node, (ast.If, ast.While)) and node.test.lineno == node.test.end_lineno and not isinstance(node.test, ast.Compare):
            t = seg(lines, node.test)
            if t is not None:
                add(node.test, f"not ({t})", "negate")
        if isinstance(node, ast.IfExp) and node.test.lineno == node.test.end_lineno:
            t = seg(lines, node.test)
            if t is not None:
                add(node.test, f"not ({t})", "negate")
        if isinstance(node, (ast.AugAssign,)) or (isinstance(node, ast.Expr) and isinstance(node.value, ast.Call)) or \
                (isinstance(node, ast.Assign) and isinstance(node.targets[0], (ast.Subscript, ast.Attribute))):
            add(node, "pass", "drop")
        if isinstance(node, ast.Call) and len(node.args) == 2 and not node.keywords and node.lineno == node.end_lineno \
                and not any(isinstance(a, ast.Starred) for a in node.args):
            f, a, b = seg(lines, node.func), seg(lines, node.args[0]), seg(lines, node.args[1])
            if f and a and b and a != b and f not in ("isinstance", "getattr", "hasattr", "cast", "range", "TypeVar"):
                add(node, f"{f}({b}, {a})", "swapargs")
        if isinstance(node, ast.Continue):
            add(node, "break", "flow")
        if isinstance(node, ast.Break):
            add(node, "continue", "flow")
        for ch in ast.iter_child_nodes(node):
            if isinstance(node, (ast.FunctionDef,)):
                continue
            # do not descend into annotations
            if isinstance(node, ast.AnnAssign) and ch is node.annotation:
                continue
            if isinstance(node, ast.arg):
                continue
            visit(ch, fn)

    visit(tree, None)
    good = []
    for m in res:
        text = "\n".join(m.pop("lines"))
        if text == src:
            continue
        try:
            compile(text, "<mutant>", "exec")
        except SyntaxError:
            continue
        m["text"] = text
        good.append(m)
    return good


def setup_slot(k, repo):
    slot = f"/tmp/mutslots/{k}"
    if os.path.isdir(slot):
        shutil.rmtree(slot)
    os.makedirs(slot)
    for p in PKGS:
        subprocess.run(["cp", "-r", os.path.join(repo, p), slot], check=True)
    return slot


def run_one(args):
    k, prop, file, m, tier, tests, timeout = args
    slot = f"/tmp/mutslots/{k}"
    path = os.path.join(slot, file)
    orig = open(path).read()
    out = dict(line=m["line"], func=m["func"], kind=m["kind"], old=m["old"], new=m["new"])
    try:
        open(path, "w").write(m["text"])
        env = dict(os.environ, VERIF_REPO=slot, VERIF_OUT=os.path.join(slot, "out"))
        try:
            r = subprocess.run([os.path.join(VERIF, "check"), prop, "--tier", tier], env=env, capture_output=True, text=True, timeout=timeout)
            out["exit"] = r.returncode
            vio = [l.split("obligation=")[-1][:160] for l in r.stdout.splitlines() if l.startswith("VIOLATION")]
            out["violations"] = vio[:3]
            if r.returncode not in (0, 1):
                out["tail"] = (r.stdout + r.stderr)[-600:]
        except subprocess.TimeoutExpired:
            out["exit"] = "timeout"
        if tests and out["exit"] == 0:
            tf = file[:-3] + "_test.py"
            if os.path.exists(os.path.join(slot, tf)):
                pp = ":".join(os.path.join(slot, p) for p in PKGS)
                try:
                    t = subprocess.run(["/venv/bin/python", "-m", "pytest", "-q", "-x", "-p", "no:cacheprovider", tf], cwd=slot, env=dict(os.environ, PYTHONPATH=pp),
                                       capture_output=True, text=True, timeout=900)
                    out["upstream_tests"] = "pass" if t.returncode == 0 else "fail"
                except subprocess.TimeoutExpired:
                    out["upstream_tests"] = "timeout"
    finally:
        open(path, "w").write(orig)
    return out


def main():
    ap = argparse.ArgumentParser()
    ap.add_argument("prop")
    ap.add_argument("file")
    ap.add_argument("--funcs", default="")
    ap.add_argument("--max", type=int, default=150)
    ap.add_argument("--jobs", type=int, default=10)
    ap.add_argument("--tier", default="quick")
    ap.add_argument("--tests", action="store_true")
    ap.add_argument("--seed", type=int, default=0)
    ap.add_argument("--timeout", type=int, default=900)
    ap.add_argument("--slot-base", type=int, default=0)
    a = ap.parse_args()
    repo = os.environ.get("VERIF_REPO", "/repo")
    src = open(os.path.join(repo, a.file)).read()
    ms = mutants(src, set(f for f in a.funcs.split(",") if f))
    random.Random(a.seed).shuffle(ms)
    ms = ms[:a.max]
    print(f"{len(ms)} mutants of {a.file}", flush=True)
    for k in range(a.jobs):
        setup_slot(a.slot_base + k, repo)
    os.makedirs("/tmp/mutsweep", exist_ok=True)
    outp = f"/tmp/mutsweep/{a.prop}__{a.file.replace('/', '_')}.jsonl"
    results = []
    # each worker owns one slot: partition round-robin
    def worker(k):
        res = []
        for i in range(k, len(ms), a.jobs):
            res.append(run_one((a.slot_base + k, a.prop, a.file, ms[i], a.tier, a.tests, a.timeout)))
        return res
    with cf.ThreadPoolExecutor(a.jobs) as ex:
        for res in ex.map(worker, range(a.jobs)):
            results.extend(res)
    with open(outp, "w") as f:
        for r in results:
            f.write(json.dumps(r) + "\n")
    killed = [r for r in results if r["exit"] == 1]
    surv = [r for r in results if r["exit"] == 0]
    other = [r for r in results if r["exit"] not in (0, 1)]
    print(f"killed {len(killed)}  survived {len(surv)}  other {len(other)}  -> {outp}")
    for r in sorted(surv, key=lambda r: r["line"]):
        print(f"  SURVIVED{'[' + r['upstream_tests'] + ']' if 'upstream_tests' in r else ''} L{r['line']} {r['func']} {r['kind']}: {r['old']!r} -> {r['new']!r}")
    for r in sorted(other, key=lambda r: r["line"]):
        print(f"  EXIT {r['exit']} L{r['line']} {r['func']} {r['kind']}: {r['old']!r} -> {r['new']!r}  {(r.get('tail') or '')[-200:]!r}")
    for k in range(a.jobs):
        shutil.rmtree(f"/tmp/mutslots/{a.slot_base + k}", ignore_errors=True)


if __name__ == "__main__":
    main()
