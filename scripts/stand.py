"""Developer helper: run STANDINS of a contracts module and print failures."""
import sys, importlib, time, json
sys.path.insert(0, '/verif')
import os
_R = os.environ.get('VERIF_REPO', '/repo')
sys.path[:0] = [f'{_R}/{p}' for p in ('cirq-core', 'cirq-google', 'cirq-ionq', 'cirq-aqt', 'cirq-pasqal')]  # the working tree, not the installed release
mod = importlib.import_module('contracts.' + sys.argv[1])
tier = sys.argv[2] if len(sys.argv) > 2 else 'quick'
only = sys.argv[3:] 
for f in mod.STANDINS:
    if only and f.__name__ not in only: continue
    t = time.time()
    r = f(tier, 12345)
    print(f.__name__, 'cases', r['cases'], 'failures', r['failures'], round(time.time() - t, 1))
    for x in r.get('_fails', []):
        print('   ', x['failed'], '|', x['clause'][:300])
        print('      ', json.dumps(x['args'], default=str)[:1500])
