import warnings; warnings.simplefilter('ignore')
import cirq, numpy as np
from contracts import qasm_reader as qr
q=cirq.LineQubit(0)
ops=[cirq.circuits.qasm_output.QasmUGate(theta=1, phi=0.3, lmda=1.6).on(q), cirq.PhasedXPowGate(phase_exponent=-0.10000000000000009, exponent=0.37).on(q), cirq.Ry(rads=0.5).on(q),(cirq.Y**1e-07).on(q),cirq.Rx(rads=0.777).on(q),cirq.global_phase_operation(1j)]
for prec in (10,4):
  for op in ops:
    c=cirq.Circuit(op)
    t=c.to_qasm(qubit_order=[q],precision=prec)
    U=qr.unitary(qr.parse(t))
    print(prec, str(op)[:30], qr.proportional(U,c.unitary(qubit_order=[q]),atol=1e-3), t.strip().split('\n')[-1])
  c=cirq.Circuit(ops); U=qr.unitary(qr.parse(c.to_qasm(qubit_order=[q],precision=prec))); W=c.unitary(qubit_order=[q])
  print(prec, qr.proportional(U,W,atol=1e-3), np.round(U,4).tolist(), np.round(W,4).tolist())
