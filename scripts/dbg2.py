import sys, traceback
sys.path.insert(0,'/verif')
import contracts.C04_protocols as m
try:
    r=m.standin_protocols('quick',0); print({k:v for k,v in r.items() if k!='_fails'}); print(r['_fails'][:2])
except Exception:
    tb=traceback.format_exc().splitlines()
    print('\n'.join([l for l in tb if 'C04_protocols' in l or 'Error' in l][:10]))
