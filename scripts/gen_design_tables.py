#!/usr/bin/env python3
"""Rewrites the generated tables of DESIGN.md (between <!-- X-BEGIN --> / <!-- X-END --> markers) from known_findings.json and seeded/*/meta.json."""
import glob, json, os, re
HERE = os.path.dirname(os.path.dirname(os.path.abspath(__file__)))
d = json.load(open(os.path.join(HERE, "known_findings.json")))["findings"]
esc = lambda s: str(s).replace("\n", " ").replace("|", "/")
fixed = ["| prop | commit | function | what failed | how it was found |", "|---|---|---|---|---|"]
for f in d:
    if f["status"] == "fixed":
        desc = re.sub(r"^fixed: property=\S+ \S+ ", "", f["description"])
        fixed.append(f"| {f['property']} | `{f['commit']}` | `{esc(f['function'].split('/')[-1][:70])}` | {esc(desc[:240])} | {esc(f.get('detected_by', '')[:120])} |")
known = ["| prop | where | what fails | why not repaired |", "|---|---|---|---|"]
for f in d:
    if f["status"] == "known":
        known.append(f"| {f['property']} | `{esc(f['function'].split('/')[-1][:60])}` | {esc(f['description'][:280])} | {esc(f.get('why_not_fixed', '')[:220])} |")
seeded = ["| id | files | what it breaks | caught by |", "|---|---|---|---|"]
for m in sorted(glob.glob(os.path.join(HERE, "seeded", "*", "meta.json"))):
    x = json.load(open(m))
    sid = os.path.basename(os.path.dirname(m))
    seeded.append(f"| {sid} | {esc(', '.join(os.path.basename(p) for p in (x.get('files_changed') or []))[:60])} | {esc((x.get('breaks') or '')[:200])} | {esc((x.get('check_result') or '')[:330])} |")
p = os.path.join(HERE, "DESIGN.md")
s = open(p).read()
for name, rows in (("FIXED", fixed), ("KNOWN", known), ("SEEDED", seeded)):
    b, e = f"<!-- {name}-BEGIN -->", f"<!-- {name}-END -->"
    i, j = s.index(b) + len(b), s.index(e)
    s = s[:i] + "\n" + "\n".join(rows) + "\n" + s[j:]
nf, nk = sum(1 for f in d if f["status"] == "fixed"), sum(1 for f in d if f["status"] == "known")
s = re.sub(r"<!-- COUNTS -->.*?<!-- /COUNTS -->", f"<!-- COUNTS -->{nf + nk} genuine defects were found on the unchanged tree this way or while writing the contracts ({nf} repaired by `fix:` commits, {nk} recorded as known findings, §A.5)<!-- /COUNTS -->", s, flags=re.S)
open(p, "w").write(s)
print("tables:", len(fixed) - 2, "fixed,", len(known) - 2, "known,", len(seeded) - 2, "seeded")
