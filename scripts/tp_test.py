import sys; sys.path.insert(0,'/verif')
import numpy as np, cirq
from pyvc.trigpoly import Angle, TrigPoly, numeric, matrix_equal
e,s=Angle.sym('e'),Angle.sym('s')
ok=True
for G in (cirq.XPowGate,cirq.YPowGate,cirq.ZPowGate,cirq.HPowGate,cirq.CZPowGate,cirq.CXPowGate,cirq.SwapPowGate,cirq.ISwapPowGate,cirq.XXPowGate,cirq.YYPowGate,cirq.ZZPowGate,cirq.CCZPowGate,cirq.CCXPowGate):
    try:
        g=G(exponent=e,global_shift=s)
        U=cirq.unitary(g)
        vals={'e':0.37,'s':0.2}
        num=numeric(U,vals)
        ref=cirq.unitary(G(exponent=0.37,global_shift=0.2))
        print(G.__name__, np.allclose(num,ref,atol=1e-9))
    except Exception as ex:
        import traceback; print(G.__name__,'ERR',repr(ex)[:200])
