"""Developer helper: verify the given contract keys and print non-proved obligations."""
import sys
sys.path.insert(0, '/verif')
import os
_R = os.environ.get('VERIF_REPO', '/repo')
sys.path[:0] = [f'{_R}/{p}' for p in ('cirq-core', 'cirq-google', 'cirq-ionq', 'cirq-aqt', 'cirq-pasqal')]  # the working tree, not the installed release
from pyvc import api, runner
runner.load_modules()
for k in sys.argv[1:]:
    rep = runner._verify_key(k)
    j = rep.to_json(); j.pop('source_sha256', None); j.pop('dropped_by_extraction', None)
    print(j)
    for o in rep.obligations:
        if o.status != "proved":
            print("   ", o.status, o.backend, round(o.ms, 1), o.name, o.detail[:300].replace("\n", " "))
