import sys, json, glob
sys.path.insert(0,'/verif')
import cirq, sympy, numpy as np
import cirq_google as cg
from contracts import C16_roundtrips as m
d=json.load(open(glob.glob('/verif/replays/C16_*')[0]))
c=eval(d['concrete_call']['args']['circuit'], {'cirq':cirq,'sympy':sympy,'np':np})
back=cg.CIRCUIT_SERIALIZER.deserialize(cg.CIRCUIT_SERIALIZER.serialize(c))
def walk(a,b,path=''):
    for i,(ma,mb) in enumerate(zip(a,b)):
        oa,ob=sorted(ma.operations,key=lambda o:repr(o.qubits)),sorted(mb.operations,key=lambda o:repr(o.qubits))
        for x,y in zip(oa,ob):
            if isinstance(x.untagged,cirq.CircuitOperation):
                walk(x.untagged.circuit.unfreeze(), y.untagged.circuit.unfreeze(), path+f'/{i}')
            elif not m._equal_circuits(cirq.Circuit(x), cirq.Circuit(y)):
                print(path,i,'X',repr(x)[:200]); print('      Y',repr(y)[:200])
print(len(c),len(back)); walk(c,back)
