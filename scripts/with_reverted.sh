#!/bin/bash
# usage: scripts/with_reverted.sh <fix commit> <property> [tier] — runs the check on a scratch copy of /repo with that fix commit reverted
# (the defect is back): expects a VIOLATION.  /repo itself is not touched.
C="$1"; P="$2"; T="${3:-quick}"
S=$(mktemp -d /tmp/reverted.XXXXXX); trap 'rm -rf "$S"' EXIT
for p in cirq-core cirq-google cirq-ionq cirq-aqt cirq-pasqal; do cp -r /repo/$p "$S/"; done
git -C /repo show "$C" | (cd "$S" && patch -p1 -R -s --no-backup-if-mismatch) || { echo "cannot revert $C"; exit 9; }
(cd /verif && VERIF_REPO="$S" VERIF_OUT="$S/out" ./check "$P" --tier "$T" 2>&1 | grep -E "VIOLATION|CHECKER|^\[" | cut -c1-300; echo "   check exit=${PIPESTATUS[0]}")
