#!/bin/bash
# Build /verif/.venv offline: python 3.12 venv with z3-solver/cvc5/deal/icontract/crosshair/jsonschema
# from the offline wheelhouse, plus a .pth that exposes /venv's site-packages (numpy, sympy, ...).
set -e
cd "$(dirname "$0")/.."
if [ -x .venv/bin/python ] && .venv/bin/python -c "import z3, jsonschema, numpy" 2>/dev/null; then
  echo "setup: .venv already usable"; exit 0
fi
rm -rf .venv
/venv/bin/python -m venv .venv
PIP_NO_INDEX=1 .venv/bin/python -m pip install -q --no-index --find-links /opt/veriftools/wheels \
   z3-solver cvc5 deal icontract crosshair-tool jsonschema hypothesis 2>&1 | tail -2
SP=$(.venv/bin/python -c "import sysconfig;print(sysconfig.get_paths()['purelib'])")
echo "import site; site.addsitedir('/venv/lib/python3.12/site-packages')" > "$SP/zz_venv_overlay.pth"
.venv/bin/python -c "import z3, cvc5, jsonschema, numpy, sympy; print('setup ok: z3', z3.get_version_string())"
