#!/bin/bash
# usage: scripts/retest_seeded.sh [tier] [jobs]  — every kept seeded change on its own scratch copy of /repo's packages; expects exit 1
T="${1:-quick}"; J="${2:-6}"
one() {
  d="$1"; T="$2"; id=$(basename "$d"); prop=${id%%_*}
  S=$(mktemp -d /tmp/retest.XXXXXX)
  for p in cirq-core cirq-google cirq-ionq cirq-aqt cirq-pasqal; do cp -r /repo/$p "$S/"; done
  if ! (cd "$S" && patch -p1 -s --no-backup-if-mismatch < "$d/patch.diff" >/dev/null 2>&1); then echo "$id: patch no longer applies"; rm -rf "$S"; return; fi
  (cd /verif && VERIF_REPO="$S" VERIF_OUT="$S/out" ./check "$prop" --tier "$T" > "$S/log" 2>&1); rc=$?
  echo "$id: check exit=$rc $(grep -c VIOLATION "$S/log") violation line(s)"
  rm -rf "$S"
}
export -f one
ls -d /verif/seeded/*/ | xargs -P "$J" -I{} bash -c 'one {} '"$T" | sort
