#!/bin/bash
# usage: scripts/retest_seeded.sh [tier]   — applies every kept seeded change in turn, runs its property's quick check, expects exit 1
T="${1:-quick}"
cd /repo || exit 9
if [ -n "$(git status --porcelain)" ]; then echo "repo dirty, abort"; exit 9; fi
for d in /verif/seeded/*/; do
  id=$(basename "$d"); prop=${id%%_*}
  if ! git apply --check "$d/patch.diff" 2>/dev/null; then echo "$id: patch no longer applies"; continue; fi
  git apply "$d/patch.diff"
  (cd /verif && ./check "$prop" --tier "$T" > /tmp/retest_$id.log 2>&1); rc=$?
  git checkout -- . ; git clean -fdq cirq-core cirq-google cirq-ionq cirq-aqt cirq-pasqal 2>/dev/null
  echo "$id: check exit=$rc $(grep -c VIOLATION /tmp/retest_$id.log) violation line(s)"
done
git status --porcelain | head -3
