#!/bin/bash
# usage: scripts/try_seeded.sh <dir with patch.diff demo.py> <property> [tier]
# Applies a seeded change to a SCRATCH COPY of /repo's packages (never to /repo itself: sub-agents may be reading it), runs the
# demonstration and the property's check against the copy (VERIF_REPO / VERIF_OUT), and removes the copy.
D="$(cd "$1" && pwd)"; P="$2"; T="${3:-quick}"
S=$(mktemp -d /tmp/try_seeded.XXXXXX)
trap 'rm -rf "$S"' EXIT
for p in cirq-core cirq-google cirq-ionq cirq-aqt cirq-pasqal; do cp -r /repo/$p "$S/"; done
echo "== demo on original:"; TREE=/repo /venv/bin/python "$D/demo.py" >/dev/null 2>&1; echo "   exit=$?"
(cd "$S" && patch -p1 -s --no-backup-if-mismatch < "$D/patch.diff") || { echo "patch does not apply"; exit 9; }
echo "== demo on change:";  TREE="$S" /venv/bin/python "$D/demo.py" >/dev/null 2>&1; echo "   exit=$?"
echo "== check $P ($T) on change:"
(cd /verif && VERIF_REPO="$S" VERIF_OUT="$S/out" ./check "$P" --tier "$T" 2>&1 | grep -E "VIOLATION|KNOWN|UNDECIDED|CHECKER|^\[" | cut -c1-400; echo "   check exit=${PIPESTATUS[0]}")
