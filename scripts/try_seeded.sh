#!/bin/bash
# usage: scripts/try_seeded.sh <dir with patch.diff demo.py> <property> [tier]
# Applies a seeded change to /repo, runs the demonstration and the property's check, and always restores /repo.
D="$1"; P="$2"; T="${3:-quick}"
cd /repo || exit 9
if [ -n "$(git status --porcelain)" ]; then echo "repo dirty, abort"; exit 9; fi
echo "== demo on original:"; TREE=/repo /venv/bin/python "$D/demo.py" >/dev/null 2>&1; echo "   exit=$?"
git apply "$D/patch.diff" || { echo "patch does not apply"; exit 9; }
echo "== demo on change:";  TREE=/repo /venv/bin/python "$D/demo.py" >/dev/null 2>&1; echo "   exit=$?"
echo "== check $P ($T) on change:"
(cd /verif && ./check "$P" --tier "$T" 2>&1 | grep -E "VIOLATION|KNOWN|UNDECIDED|CHECKER|^\[" | cut -c1-400; echo "   check exit=${PIPESTATUS[0]}")
git checkout -- . ; git status --porcelain | head -3
