import sys
sys.path.insert(0,'/verif')
import numpy as np, cirq
from contracts.C04_protocols import gate_library
for gate in gate_library():
    n=cirq.num_qubits(gate)
    if not cirq.has_unitary(gate) or n>3 or any(d!=2 for d in cirq.qid_shape(gate)): continue
    qs=cirq.LineQubit.range(n)
    psi=np.zeros(2**n,complex); psi[0]=1
    dm=cirq.DensityMatrixSimulationState(qubits=qs, initial_state=np.outer(psi,psi.conj()), dtype=np.complex128)
    try: cirq.act_on(gate.on(*qs), dm)
    except Exception as ex: print('FAIL', repr(gate)[:100], repr(ex)[:120])
print(cirq.__file__)
