"""Developer helper: run ENGINE_CHECKS of a contracts module (optionally one index) and print non-proved obligations."""
import sys, importlib, time
sys.path.insert(0, '/verif')
import os
_R = os.environ.get('VERIF_REPO', '/repo')
sys.path[:0] = [f'{_R}/{p}' for p in ('cirq-core', 'cirq-google', 'cirq-ionq', 'cirq-aqt', 'cirq-pasqal')]  # the working tree, not the installed release
mod = importlib.import_module('contracts.' + sys.argv[1])
idx = [int(x) for x in sys.argv[2:]] or range(len(mod.ENGINE_CHECKS))
for i in idx:
    t = time.time()
    for rep in mod.ENGINE_CHECKS[i]():
        print(i, rep.key, rep.status, len(rep.obligations), round(time.time() - t, 1), (rep.out_of_reach or rep.error or '')[:300])
        for o in rep.obligations:
            if o.status != 'proved': print('    ', o.status, o.name[-150:], '|', o.detail[:300])
