import json,sys
props={json.loads(l)['id']:json.loads(l) for l in open('/verif/properties.jsonl')}
pid,tag=sys.argv[1],sys.argv[2]
hint=sys.argv[3] if len(sys.argv)>3 else ""
p=props[pid]
print(f"""You are helping test a verification effort on the open-source quantum framework quantumlib/Cirq (Python). The repository is at /repo (git, pinned commit). DO NOT edit anything in /repo itself and do not read or write anything under /verif. There is no network.

Your task: produce ONE realistic code change (a plausible bug a maintainer could introduce by accident in a refactor/optimisation) to Cirq that BREAKS the following semantic property while the package still imports/compiles and the existing tests still pass.

PROPERTY {pid}: {p['title']}
{p['statement']}

Work in your own scratch git worktree: run `git -C /repo worktree add --detach /tmp/wt_{pid}_{tag} HEAD` and make your change only there. To run code against your worktree use:
  PYTHONPATH=/tmp/wt_{pid}_{tag}/cirq-core:/tmp/wt_{pid}_{tag}/cirq-google:/tmp/wt_{pid}_{tag}/cirq-ionq:/tmp/wt_{pid}_{tag}/cirq-aqt:/tmp/wt_{pid}_{tag}/cirq-pasqal /venv/bin/python ...
(/venv has an older installed cirq 1.7.0; the PYTHONPATH makes the worktree's 1.8.0.dev0 sources win. Verify with `import cirq; print(cirq.__file__)`.) To compare with the unmodified code, run the same command with /repo in place of your worktree path.

Requirements for the change:
1. It must need something SPECIFIC to manifest: an unusual input (e.g. non-adjacent / permuted qubits, qudits, >64-bit values, repeated keys, lengths not a multiple of 8, a particular exponent), a multi-step sequence of operations, a particular interleaving/fault, or two cooperating sites that each look fine alone. NOT something that ordinary use or the first obvious unit test exposes at once. Keep it small (a few lines), in non-test source files only.
2. Existing tests must still pass. At minimum run, with the PYTHONPATH above and cwd = your worktree, the upstream unit tests of every module you touched and of its closest users (e.g. `/venv/bin/python -m pytest -q -p no:cacheprovider -x cirq-core/cirq/<pkg>/<module>_test.py ...`), plus the vendor-package tests if you touched a vendor package. If a test fails, pick a subtler change. Report exactly which test commands you ran and their pass counts.
3. Write a demonstration script demo.py (plain Python, exit code 1 / assertion failure when the property is broken, exit 0 otherwise; it should take the tree root from the environment variable TREE, default /repo, and insert TREE/cirq-core etc. at the front of sys.path itself) that FAILS on your worktree and PASSES on /repo. Run it both ways and confirm.
{hint}
Deliverables, written to /tmp/seeded_out/{pid}_{tag}/ (create it): patch.diff (output of `git -C /tmp/wt_{pid}_{tag} diff`), demo.py, and meta.json with keys: property, files_changed, summary (what the change does), needs_to_manifest (what specific condition exposes it), tests_run (commands + results), demo_result_on_change, demo_result_on_original.
When done, remove your worktree: `git -C /repo worktree remove --force /tmp/wt_{pid}_{tag}`. Final answer: a short summary of the change and where the deliverables are.""")
