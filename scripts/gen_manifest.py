#!/usr/bin/env python3
"""Regenerates MANIFEST.json and levels.json from scripts/claims.json (single source of truth)."""
import json, os
HERE = os.path.dirname(os.path.dirname(os.path.abspath(__file__)))
claims = json.load(open(os.path.join(HERE, "scripts", "claims.json")))
checks, levels, na = [], {}, []
for pid, c in sorted(claims["claimed"].items()):
    levels[pid] = c["category"]
    checks.append(dict(
        property_id=pid,
        quick_cmd=f"./check {pid} --tier quick",
        thorough_cmd=f"./check {pid} --tier thorough",
        evidence_file=f"evidence/{pid}.json",
        replay_cmd_template=f"./check {pid} --replay {{path}}",
        engine="pyvc",
        level_claimed=dict(category=c["category"], text=c["text"], design_ref=c.get("design_ref", "DESIGN.md §2 " + pid)),
        level_note=c["note"],
        technique=c["technique"],
    ))
for pid, reason in sorted(claims["not_applicable"].items()):
    na.append(dict(property_id=pid, reason=reason))
m = dict(
    version=1,
    setup_cmd="./scripts/setup.sh",
    hooks=dict(guard="CIRQ_VERIF", enable="no hooks are compiled in: checks read /repo's working tree directly (sidecar contracts); CIRQ_VERIF=1 is exported by ./check but nothing in /repo reads it",
               baseline_off_cmd="cd /repo && /venv/bin/python -m pytest -ra -q -p no:cacheprovider --timeout=900 --continue-on-collection-errors",
               source_commits=claims.get("hook_commits", []), add_only=True),
    engines=[dict(name="pyvc", path="pyvc/", serves_properties=sorted(claims["claimed"]),
                  kind_free_text="self-generated verification conditions from the AST of the real functions (re-read from /repo on every run), sidecar contracts, discharged by z3 (cvc5 fallback); symbolic engines linrow/trigpoly/boolcol for tensor kernels, closed-form matrices and tableau rows; bounded native stand-ins labelled as such")],
    checks=checks,
    notes=claims.get("notes", ""),
    not_applicable=na,
)
json.dump(m, open(os.path.join(HERE, "MANIFEST.json"), "w"), indent=1)
json.dump(levels, open(os.path.join(HERE, "levels.json"), "w"), indent=1)
print("MANIFEST.json:", len(checks), "checks,", len(na), "not_applicable")
