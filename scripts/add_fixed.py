#!/usr/bin/env python3
"""developer helper: scripts/add_fixed.py <prop> <commit> <function> <what failed> <failing input> <detected by>  — appends a "fixed" record to known_findings.json"""
import json, sys
prop, commit, fn, what, inp, det = sys.argv[1:7]
p = "/verif/known_findings.json"
d = json.load(open(p))
d["findings"].append(dict(status="fixed", property=prop, commit=commit, function=fn, description=f"fixed: property={prop} {commit} {what}", failing_input=inp, detected_by=det))
json.dump(d, open(p, "w"), indent=1)
print(len([e for e in d["findings"] if e["status"] == "fixed"]), "fixed entries")
