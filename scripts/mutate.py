"""Engine self-test: apply textual mutants in memory and report which obligations fail."""
import sys, json
sys.path.insert(0, '/verif')
from pyvc import api, runner, native
runner.load_modules()
def run(file, find, repl, key):
    src = open('/repo/'+file).read()
    assert src.count(find) == 1, (find, src.count(find))
    api.SOURCE_OVERRIDES[file] = src.replace(find, repl)
    try:
        rep = api.verify(api.REGISTRY[key])
        res = runner.Result(api.REGISTRY[key].prop, 'quick', 0)
        runner.triage(res, rep)
        failed = [o.name.split('#')[1] for o in rep.obligations if o.status != 'proved']
        print(f"{find!r} -> {repl!r}: status={rep.status} failed={failed[:4]} oor={rep.out_of_reach} err={rep.error}")
        for v in res.violations: print('    VIOLATION', v['obligation'].split('#')[1], 'reproduced' if v['reproduced'] else 'NO-INPUT', (v['info'] or {}).get('args'), (v['info'] or {}).get('clause'))
        for u in res.undecided: print('    UNDECIDED', u['obligation'].split('#')[1])
    finally:
        del api.SOURCE_OVERRIDES[file]
if __name__ == '__main__':
    which = sys.argv[1] if len(sys.argv) > 1 else 'C18'
    if which == 'C18':
        F="cirq-core/cirq/value/digits.py"
        run(F, 'result <<= 1', 'result <<= 2', F+':big_endian_bits_to_int')
        run(F, 'result |= 1', 'result |= 0', F+':big_endian_bits_to_int')
        run(F, 'range(bit_count)[::-1]', 'range(bit_count)', F+':big_endian_int_to_bits')
        run(F, '(val >> i) & 1', '(val >> i) & 3', F+':big_endian_int_to_bits')
        run(F, 'result *= b\n', 'result += b\n', F+':big_endian_digits_to_int')
        run(F, 'if not (0 <= d < b):', 'if not (0 <= d <= b):', F+':big_endian_digits_to_int')
        run(F, "if len(digits) != len(base):", "if len(digits) > len(base):", F+':big_endian_digits_to_int')
    if which == 'C05':
        F='cirq-core/cirq/circuits/circuit.py'; K=F+':get_earliest_accommodating_moment_index'
        run(F, "last_conflict = max(last_conflict, *[ckey_indices.get(key, -1) for key in mop_mkeys])", "pass", K)
        run(F, "last_conflict = max(last_conflict, *[mkey_indices.get(key, -1) for key in mop_ckeys])", "last_conflict = max(last_conflict, *[ckey_indices.get(key, -1) for key in mop_ckeys])", K)
        run(F, "ckey_indices[key] = max(mop_index, ckey_indices.get(key, -1))", "ckey_indices[key] = mop_index", K)
        run(F, "    mop_index = last_conflict + 1", "    mop_index = last_conflict + 1 if mop_qubits else last_conflict", K)
