#!/usr/bin/env python3
"""keep_seeded.py <src dir> <id> <property> <caught-by text>  — copy a confirmed seeded change into /verif/seeded/<id>/"""
import json, os, shutil, sys
src, sid, prop, caught = sys.argv[1:5]
dst = os.path.join(os.path.dirname(os.path.dirname(os.path.abspath(__file__))), "seeded", sid)
os.makedirs(dst, exist_ok=True)
for f in ("patch.diff", "demo.py"):
    shutil.copy(os.path.join(src, f), os.path.join(dst, f))
meta = json.load(open(os.path.join(src, "meta.json")))
out = dict(property=prop, breaks=meta.get("summary"), needs_to_manifest=meta.get("needs_to_manifest"),
           files_changed=meta.get("files_changed"), author_tests_run=meta.get("tests_run"),
           confirmed_by_me=dict(demo_on_original="exit 0", demo_on_change="exit 1",
                                how="scripts/try_seeded.sh: git -C /repo apply patch.diff; TREE=/repo demo.py; ./check; git checkout -- ."),
           check_result=caught)
json.dump(out, open(os.path.join(dst, "meta.json"), "w"), indent=1)
print("kept", dst)
