import warnings; warnings.simplefilter('ignore')
import cirq, numpy as np
class OnlyApply:
    def __init__(self, inner): self.inner=inner
    def _num_qubits_(self): return cirq.num_qubits(self.inner)
    def _apply_channel_(self, args): return cirq.apply_channel(self.inner, args)
for inner in [cirq.S.with_probability(0.3), cirq.MixedUnitaryChannel([(0.25, cirq.testing.random_unitary(2, random_state=1)), (0.75, np.eye(2))]), cirq.bit_flip(0.2)]:
    got=cirq.kraus(OnlyApply(inner), None)
    print(type(inner).__name__, None if got is None else np.allclose(cirq.kraus_to_superoperator(got), cirq.kraus_to_superoperator(cirq.kraus(inner)), atol=1e-6))
