import cirq, tunits
from cirq_google.api import v2
s=cirq.Linspace('t', 1*tunits.ns, 10*tunits.us, 4)
vals=[list(r.param_dict.values())[0] for r in s]
print(vals, [v[tunits.ns] for v in vals])
b=v2.sweep_from_proto(v2.sweep_to_proto(s)); print(b, [list(r.param_dict.values())[0] for r in b])
v=vals[1]; print([m for m in dir(v) if not m.startswith('_')][:40])
