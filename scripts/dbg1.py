import warnings; warnings.simplefilter('ignore')
import cirq, numpy as np
q=cirq.LineQubit.range(3)
c=cirq.Circuit([
 cirq.Moment(cirq.CNOT(q[0],q[2]), cirq.Z(q[1])),
 cirq.Moment(cirq.rx(0.3).on(q[0]), cirq.T(q[2])),
 cirq.Moment((cirq.Y**0.37).on(q[0]), cirq.measure(q[2], key='a')),
 cirq.Moment(cirq.measure(q[0], key='a')),
 cirq.Moment(cirq.PhasedXPowGate(phase_exponent=-0.5, exponent=0.5).on(q[1]).with_classical_controls('a'), cirq.FSimGate(np.pi/2,0.3).on(q[2],q[0]).with_classical_controls('a')),
])
out=cirq.merge_operations_to_circuit_op(c, lambda *_: True)
print(out)
for m in out:
    for op in m:
        if isinstance(op.untagged, cirq.CircuitOperation): print(op.untagged.circuit); print('---')
print(len(out), [ [ (type(op.untagged).__name__, op.qubits) for op in m] for m in out])
c2=cirq.Circuit(c[0:1], c[2:])  # fewer moments
from cirq.transformers import transformer_primitives as tp
orig=tp._MergedCircuit.get_cirq_circuit
def spy(self,cset,tag):
    for i,d in enumerate(self.components_by_index):
        print('moment',i,[(sorted(map(str,c.qubits)), sorted(map(str,c.mkeys)), sorted(map(str,c.ckeys)), c.moment_id, len(getattr(cset.find(c),'ops',[])) ) for c in d])
    return orig(self,cset,tag)
tp._MergedCircuit.get_cirq_circuit=spy
out=cirq.merge_operations_to_circuit_op(c, lambda *_: True)
