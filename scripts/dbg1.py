import warnings; warnings.simplefilter('ignore')
import cirq, sympy
from contracts import C19_circuits as cc
q,r=cirq.LineQubit.range(2)
for v in ('2.0','3.0'):
  for sub in [cirq.X(r), (cirq.H**0.5)(r), (cirq.ISWAP**0.5)(q,r), [cirq.X(r), cirq.Z(q)]]:
    try:
        c=cirq.Circuit(cirq.H(q), cirq.measure(q,key='a'), cirq.If('a', sub))
        print(v, str(sub)[:30], cc.compare_measured(c,[q,r],v))
    except Exception as e: print(v, 'EXC', repr(e)[:200])
