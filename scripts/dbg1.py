import warnings; warnings.simplefilter('ignore')
import cirq, numpy as np
from contracts.C11_roundtrips import _eq
for st in ([1,1,2j,1],[1,2,3,4],[0.6,0.8],[1,1],[1,1j,1]):
    try:
        g=cirq.StatePreparationChannel(np.array(st,dtype=complex))
    except Exception as e:
        print(st,'ctor',e); continue
    b=cirq.read_json(json_text=cirq.to_json(g)); print(st, g==b, np.max(np.abs(g._state-b._state)))
vals=[np.array([[1, 2], [3, 4]]), cirq.MatrixGate(np.array([[0, 1j], [-1j, 0]])), cirq.KrausChannel([np.eye(2) * np.sqrt(0.5), np.array([[0, 1], [1, 0]]) * np.sqrt(0.5)], key="k"),
 cirq.ResultDict(params=cirq.ParamResolver({"a": 0.5}), measurements={"m": np.array([[0, 1], [1, 1]], dtype=np.uint8)}),
 cirq.ResultDict(params=cirq.ParamResolver({}), records={"m": np.array([[[0], [1]], [[1], [1]]], dtype=np.uint8)})]
for v in vals:
    b=cirq.read_json(json_text=cirq.to_json(v)); print(type(v).__name__, _eq(b,v), type(b).__name__)
