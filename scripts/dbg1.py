import warnings; warnings.simplefilter('ignore')
import cirq, numpy as np
q=cirq.LineQubit.range(3)
c=cirq.Circuit(cirq.H(q[0]), cirq.Z(q[0]), cirq.measure_single_paulistring(cirq.X(q[0]), key='m'))
out=cirq.drop_diagonal_before_measurement(c)
print(out)
print(cirq.Simulator(seed=1).run(c,repetitions=5).histogram(key='m'), cirq.Simulator(seed=1).run(out,repetitions=5).histogram(key='m'))
# factor_density_matrix
from cirq.linalg import transformations as tr
rho=np.zeros((8,8),dtype=complex); 
a=cirq.testing.random_density_matrix(4, random_state=1); b=cirq.testing.random_density_matrix(2, random_state=2)
rho=np.kron(a,b).reshape((2,)*6)
try:
    e,r=tr.factor_density_matrix(rho,[2],validate=True); print('ok', np.allclose(e.reshape(2,2),b))
except Exception as ex: print('ERR',ex)
rho2=np.kron(b,a).reshape((2,)*6)
try:
    e,r=tr.factor_density_matrix(rho2,[0],validate=True); print('ok', np.allclose(e.reshape(2,2),b))
except Exception as ex: print('ERR',ex)
