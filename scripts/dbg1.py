import warnings; warnings.simplefilter('ignore')
import sys; sys.path.insert(0,'/verif')
from contracts import C06_transformers as M
for sd in range(0,8):
    r=M.standin_subcircuit_handling('thorough',sd)
    print(sd, r['cases'], r['failures'], [(f['failed'], f['args']['transformer'], f['args']['deep']) for f in r['_fails']])
