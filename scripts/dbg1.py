import warnings; warnings.simplefilter('ignore')
import cirq, networkx as nx, traceback, itertools
g=nx.Graph([(cirq.NamedQubit("hub"), cirq.NamedQubit(f"s{i}")) for i in range(4)])
L=[cirq.NamedQubit(f"L{k}") for k in range(5)]
c=cirq.Circuit(cirq.H(L[2]), cirq.X(L[3])**0.3, cirq.T(L[2]), cirq.ISWAP(L[3],L[2]), (cirq.CZ**0.5)(L[1],L[3]))
for la,tag in itertools.product((1,3,8),(False,True)):
  for mapper in (None, cirq.LineInitialMapper(g)):
    try:
        r=cirq.RouteCQC(g).route_circuit(c, lookahead_radius=la, tag_inserted_swaps=tag, initial_mapper=mapper); 
    except Exception as e:
        print(la,tag,mapper); traceback.print_exc(limit=-4); break
