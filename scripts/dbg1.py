import warnings; warnings.simplefilter('ignore')
import cirq, numpy as np, traceback, random
q=cirq.LineQubit.range(3)
from contracts import C15_numeric as N
rng=random.Random(13+4)
# regenerate exactly as the stand-in does is complex; instead scan many random u for the two orders
bad=0
for seed in range(400):
    u=cirq.testing.random_unitary(2, random_state=seed)
    for nm,U in (('u x SWAP', np.kron(u, cirq.unitary(cirq.SWAP))), ('u4 x I', np.kron(cirq.testing.random_unitary(4, random_state=seed), np.eye(2))), ('I x u4', np.kron(np.eye(2), cirq.testing.random_unitary(4, random_state=seed)))):
        for order in (q, [q[2],q[0],q[1]]):
            try:
                ops=list(cirq.quantum_shannon_decomposition(order, U))
            except Exception as e:
                bad+=1
                if bad<=2:
                    print(nm, seed, order, repr(e)); traceback.print_exc(limit=-4)
print('bad',bad)
