import warnings; warnings.simplefilter('ignore')
import sys, collections; sys.path.insert(0,'/verif')
from contracts import C04_protocols as M
import contracts.C04_protocols as mod
# collect all fails (not unique)
src=open('/verif/contracts/C04_protocols.py').read()
fails=[]
orig=mod.standin_predicates_vs_values
import types
r=orig('quick',0)
