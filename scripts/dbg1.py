import warnings; warnings.simplefilter('ignore')
import cirq
q=cirq.LineQubit.range(2)
c=cirq.Circuit(cirq.Moment(cirq.X(q[0])), cirq.Moment(cirq.measure(q[0],key='a')), cirq.Moment(cirq.measure(q[1],key='a')), cirq.Moment(cirq.X(q[1])))
out=cirq.synchronize_terminal_measurements(c)
print(c); print(out)
print(cirq.Simulator().run(c).records, cirq.Simulator().run(out).records)
