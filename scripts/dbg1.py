import warnings; warnings.simplefilter('ignore')
import cirq, numpy as np
q=cirq.LineQubit.range(3)
nm=cirq.NoiseModel.from_noise_model_like(cirq.phase_damp(0.2))
c=cirq.Circuit(cirq.X(q[1])**0.5, cirq.X(q[2])**0.5, cirq.measure(q[0],q[2],key='k'))
d=cirq.dephase_measurements(c)
print(d); print(cirq.Circuit(nm.noisy_moments(d, sorted(d.all_qubits()))))
print(cirq.DensityMatrixSimulator(noise=nm)._can_be_in_run_prefix(d[1].operations[0]), [type(o.gate).__name__ for o in d.all_operations()])
