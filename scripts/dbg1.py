import sys, time, faulthandler
sys.path.insert(0,'/verif')
faulthandler.dump_traceback_later(150, exit=True)
from pyvc import api, runner
runner.load_modules()
c=api.REGISTRY['cirq-core/cirq/sim/classical_simulator.py:ClassicalBasisSimState._act_on_fallback_']
c.cases=[cs for cs in c.cases if cs.name==sys.argv[1]]
t=time.time()
rep=api.verify(c)
print(rep.status, rep.out_of_reach, rep.error, len(rep.obligations), rep.paths, round(time.time()-t,1))
for o in rep.obligations:
    if o.status!='proved': print(o.status,o.name,o.detail[:300])
