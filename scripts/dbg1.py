import warnings; warnings.simplefilter('ignore')
import sys, json, glob; sys.path.insert(0,'/verif')
import cirq, numpy as np
f=glob.glob('/verif/replays/C06_*.json')[0]
c=json.load(open(f))['concrete_call']
circ=eval(c['args']['circuit'])
print(circ)
out=cirq.merge_k_qubit_unitaries(circ, k=2, context=cirq.TransformerContext(tags_to_ignore=('ignore',), deep=False))
print(out)
