import warnings; warnings.simplefilter('ignore')
import sys; sys.path.insert(0,'/verif')
from contracts import C12_subcircuits as M
r=M.standin_subcircuits('thorough',0)
for f in r['_fails']:
    if f['failed']=='simulate-raised':
        print(f['clause'][:200]); print(f['args']['circuit'][:2500])
