"""C11 — bounded stand-ins (NOT counted as proved): JSON corpus, round trips of stored and generated values, value laws.

standin_corpus: every stored .json / .json_inward document of the five packages reads to the value its .repr / .repr_inward
file evaluates to.
standin_roundtrip: every corpus value and every GENERATED value (stored documents with numeric/boolean leaves perturbed to
non-default values, read back into objects; plus hand-made families that exercise shared sub-circuits with colliding hashes,
negative coordinates, numpy/pandas payloads) survives to_json -> read_json: equal value, equal hash, stable text; its repr
evaluates to an equal value; copy, deepcopy and pickle give equal values with equal hashes.
standin_orderings: qubit orderings over mixed families (named, grid, line, qid variants): total, transitive, consistent with ==."""
import copy
import glob
import itertools
import json
import os
import pickle
import random
import warnings

import numpy as np

REPO = os.environ.get("VERIF_REPO", "/repo")
DIRS = [("cirq", "cirq-core/cirq/protocols/json_test_data"), ("cirq_google", "cirq-google/cirq_google/json_test_data"), ("cirq_ionq", "cirq-ionq/cirq_ionq/json_test_data"),
        ("cirq_aqt", "cirq-aqt/cirq_aqt/json_test_data"), ("cirq_pasqal", "cirq-pasqal/cirq_pasqal/json_test_data")]


def _imports():
    import datetime
    import importlib

    import networkx as nx
    import pandas as pd
    import sympy

    import cirq

    imp = {"cirq": cirq, "pd": pd, "sympy": sympy, "np": np, "datetime": datetime, "nx": nx}
    for m in ("cirq_google", "cirq_ionq", "cirq_aqt", "cirq_pasqal"):
        try:
            imp[m] = importlib.import_module(m)
        except Exception:
            pass
    return imp


def _eq(a, b):
    """equality as the upstream JSON tests define it (numpy/pandas aware)"""
    import pandas as pd

    if isinstance(a, (list, tuple)) and isinstance(b, (list, tuple)) and type(a) is type(b):
        return len(a) == len(b) and all(_eq(x, y) for x, y in zip(a, b))
    if isinstance(a, dict) and isinstance(b, dict):
        return a.keys() == b.keys() and all(_eq(a[k], b[k]) for k in a)
    if isinstance(a, np.ndarray) or isinstance(b, np.ndarray):
        return isinstance(a, np.ndarray) and isinstance(b, np.ndarray) and a.shape == b.shape and bool(np.array_equal(a, b))
    if isinstance(a, (pd.DataFrame, pd.Index)) or isinstance(b, (pd.DataFrame, pd.Index)):
        return type(a) is type(b) and bool(a.equals(b))
    try:
        r = a == b
        if isinstance(r, np.ndarray):
            return bool(r.all())
        return bool(r)
    except Exception:
        return False


def _corpus():
    """[(package, name, kind, json_path, repr_path)]"""
    out = []
    for pkg, rel in DIRS:
        d = os.path.join(REPO, rel)
        for jp in sorted(glob.glob(os.path.join(d, "*.json")) + glob.glob(os.path.join(d, "*.json_inward"))):
            rp = jp[: -len(".json")] + ".repr" if jp.endswith(".json") else jp[: -len(".json_inward")] + ".repr_inward"
            if os.path.exists(rp):
                out.append((pkg, os.path.basename(jp), jp, rp))
    return out


def _uniq(fails, k=4):
    seen, out = set(), []
    for f in fails:
        key = (f["failed"], f["args"].get("document", f["args"].get("family", "")))
        if key not in seen:
            seen.add(key)
            out.append(f)
    return out[:k]


def standin_corpus(tier, seed):
    import cirq

    warnings.simplefilter("ignore")
    imp = _imports()
    cases, fails = 0, []
    for pkg, name, jp, rp in _corpus():
        cases += 1
        try:
            want = eval(open(rp).read(), dict(imp), {})
        except Exception as ex:
            fails.append(dict(args=dict(document=name, package=pkg), failed="repr-file-does-not-evaluate", clause=f"{os.path.basename(rp)} raised {ex!r}"))
            continue
        try:
            got = cirq.read_json(jp)
        except Exception as ex:
            fails.append(dict(args=dict(document=name, package=pkg), failed="stored-document-does-not-read", clause=f"read_json raised {ex!r}"))
            continue
        if not _eq(got, want):
            fails.append(dict(args=dict(document=name, package=pkg), failed="stored-document-reads-to-a-different-value", clause=f"read_json({name}) != eval({os.path.basename(rp)})"))
    return dict(function="cirq-core/cirq/protocols/json_serialization.py:read_json[corpus]", case="corpus", bound="every stored .json/.json_inward with a .repr/.repr_inward in the five packages",
                cases=cases, distinct=cases, failures=len(fails), exhaustive=True, _fails=_uniq(fails, 6))
standin_corpus.prop = "C11"


def _norm_print(text):
    """a printed value with the list / tuple distinction of its containers erased (JSON has only lists; [0, 1] and (0, 1) hold the same data)"""
    return text.replace("[", "(").replace("]", ")").replace(",)", ")").replace(", )", ")")


def _laws(obj, label, fails, args, imp, check_repr=True):
    """round trip, text stability, hash, repr, copy, pickle for one value (or list of values)"""
    import cirq

    def bad(what, clause):
        fails.append(dict(args=dict(args), failed=what, clause=clause))

    try:
        text = cirq.to_json(obj)
    except Exception as ex:
        if args.get("origin") == "stored document with perturbed leaves":
            return  # the perturbed document denotes a value outside the serializable ones (e.g. a sympy constant)
        return bad("to_json-raised", f"to_json raised {ex!r}")
    try:
        back = cirq.read_json(json_text=text)
    except Exception as ex:
        return bad("written-document-does-not-read", f"read_json(to_json(v)) raised {ex!r}")
    if not _eq(back, obj):
        return bad("roundtrip-value-differs", "read_json(to_json(v)) != v")
    try:
        if cirq.to_json(back) != text:
            bad("roundtrip-text-differs", "to_json(read_json(to_json(v))) differs from to_json(v)")
    except Exception as ex:
        bad("to_json-raised", f"to_json of the value read back raised {ex!r}")
    items = obj if isinstance(obj, list) else [obj]
    backs = back if isinstance(obj, list) else [back]
    for v, w in zip(items, backs):
        try:
            hv = hash(v)
        except TypeError:
            hv = None
        if hv is not None:
            try:
                if hash(w) != hv:
                    bad("roundtrip-hash-differs", f"hash(read_json(to_json(v))) != hash(v) for {type(v).__name__}")
            except TypeError:
                bad("roundtrip-hash-differs", f"value read back is unhashable for {type(v).__name__}")
        for how, f in (("copy.copy", copy.copy), ("copy.deepcopy", copy.deepcopy), ("pickle", lambda x: pickle.loads(pickle.dumps(x)))):
            try:
                c = f(v)
            except Exception:
                continue  # not every value is copyable/picklable (locks, generators); equality is what is promised when it is
            if not _eq(c, v):
                bad("copy-differs", f"{how}(v) != v for {type(v).__name__}")
            elif hv is not None:
                try:
                    if hash(c) != hv:
                        bad("copy-hash-differs", f"hash({how}(v)) != hash(v) for {type(v).__name__}")
                except TypeError:
                    pass
        if check_repr and type(v).__repr__ is not object.__repr__ and type(v).__module__.split(".")[0].startswith("cirq"):
            try:
                r = repr(v)
                e = eval(r, dict(imp), {})
            except SyntaxError:
                if r.startswith("cirq") and r.endswith(")") and "<" not in r and "\n" not in r:
                    bad("repr-differs", f"repr(v) of {type(v).__name__} is written as a constructor call but is not valid Python: {r[:160]}")
                continue
            except Exception:
                continue  # classes without an evaluable repr are listed by upstream's spec files; not part of this clause
            if not _eq(e, v):
                bad("repr-differs", f"eval(repr(v)) != v for {type(v).__name__}")
            # "equal behaviour": fields that == does not look at (e.g. the metadata of a sweep) are visible in the printed representation;
            # the value read back prints like the original whenever the original's own print evaluates back to something printing the same
            elif repr(e) == r and _norm_print(repr(w)) != _norm_print(r):
                bad("roundtrip-repr-differs", f"the value read back prints differently: {repr(w)[:200]} vs {r[:200]}")


def _perturb(doc, rng):
    """change numeric / boolean leaves of a parsed JSON document to other plausible values"""
    changed = [0]

    def walk(x, key=None):
        if isinstance(x, dict):
            return {k: (v if k in ("cirq_type", "key") else walk(v, k)) for k, v in x.items()}
        if isinstance(x, list):
            return [walk(v, key) for v in x]
        if isinstance(x, bool):
            if rng.random() < 0.3:
                changed[0] += 1
                return not x
            return x
        if isinstance(x, float) and rng.random() < 0.5:
            changed[0] += 1
            if 0 < x < 1:
                return round(min(0.95, x * 0.5 + 0.11), 6)
            return rng.choice([0.25, -0.5, 0.37, 1.5, 2.0, -1.0, 0.0, 1.0]) if abs(x) <= 4 else x * 0.75
        if isinstance(x, int) and rng.random() < 0.35:
            changed[0] += 1
            if x >= 1:
                return x + rng.choice([1, 2])
            return x - rng.choice([1, 2]) if x < 0 else rng.choice([0, 1, -1, -2])
        return x

    out = walk(doc)
    return out, changed[0]


def _families(rng):
    """hand-made values that stored examples do not contain"""
    import pandas as pd
    import sympy

    import cirq

    out = []
    # values that carry a HISTORY: equal to a freshly built value, but their private workspace / caches have been used
    def _used_tableaux():
        ts = []
        t = cirq.CliffordTableau(2)
        t._measure(0, np.random.RandomState(0))                      # deterministic outcome: the scratch row has been written
        ts.append(t)
        t2 = cirq.CliffordTableau(2)
        t2.apply_h(0); t2.apply_cx(0, 1)
        t2._measure(0, np.random.RandomState(1)); t2._measure(1, np.random.RandomState(1))   # random, then deterministic
        ts.append(t2)
        st = cirq.CliffordTableauSimulationState(cirq.CliffordTableau(3), qubits=cirq.LineQubit.range(3), prng=np.random.RandomState(2))
        for op in [cirq.X(cirq.LineQubit(1)), cirq.H(cirq.LineQubit(0)), cirq.measure(cirq.LineQubit(1), key="a"), cirq.CNOT(cirq.LineQubit(1), cirq.LineQubit(2)), cirq.measure(cirq.LineQubit(2), key="b")]:
            cirq.act_on(op, st)
        ts.append(st.tableau)
        hash(ts[0])  # and one whose hash has been computed before it is written
        return ts
    out.append(("Clifford tableaux after measurements (used workspace)", _used_tableaux()))
    try:
        import cirq_ionq
        out.append(("vendor gates with every field non-default", [cirq_ionq.MSGate(phi0=0.1, phi1=0.2, theta=0.1), cirq_ionq.MSGate(phi0=0.1, phi1=0.2, theta=0.25), cirq_ionq.GPIGate(phi=0.3),
                                                                   cirq_ionq.GPI2Gate(phi=-0.2), cirq_ionq.ZZGate(theta=0.15)]))
    except ImportError:
        pass
    out.append(("noise models with every option non-default", [cirq.ConstantQubitNoiseModel(cirq.depolarize(0.1), prepend=True), cirq.ConstantQubitNoiseModel(cirq.X, prepend=True),
                                                               cirq.ConstantQubitNoiseModel(cirq.bit_flip(0.2))]))
    ch = cirq.StabilizerStateChForm(num_qubits=2)
    ch.apply_h(0); ch.apply_cx(0, 1); ch.measure([0], seed=1)
    out.append(("CH form after a measurement", ch))
    c_used = cirq.Circuit(cirq.H(cirq.LineQubit(0)), cirq.measure(cirq.LineQubit(0), key="m"))
    c_used.all_qubits(); c_used.all_measurement_key_objs(); cirq.is_parameterized(c_used); c_used.freeze()
    out.append(("a circuit whose cached queries have been evaluated", c_used))
    fz_used = cirq.FrozenCircuit(cirq.X(cirq.LineQubit(0)) ** sympy.Symbol("a"))
    hash(fz_used); fz_used.all_qubits(); cirq.parameter_names(fz_used)
    out.append(("a frozen circuit whose hash and queries have been evaluated", fz_used))
    for qa, qb in ((cirq.LineQubit(-1), cirq.LineQubit(-2)), (cirq.GridQubit(-1, 0), cirq.GridQubit(-2, 0)), (cirq.GridQubit(0, -1), cirq.GridQubit(0, -2)),
                   (cirq.LineQid(-1, dimension=3), cirq.LineQid(-2, dimension=3)), (cirq.NamedQubit("a"), cirq.NamedQubit("b"))):
        g = cirq.X if qa.dimension == 2 else cirq.XPowGate(dimension=3)
        fa, fb = cirq.FrozenCircuit(g(qa)), cirq.FrozenCircuit(g(qb))
        out.append(("two sub-circuits on qubits whose coordinates are -1 and -2 (equal hashes)", cirq.Circuit(cirq.CircuitOperation(fa), cirq.CircuitOperation(fb))))
        out.append(("list of frozen circuits with colliding hashes", [fa, fb, fa]))
        out.append(("nested shared sub-circuits", cirq.Circuit(cirq.CircuitOperation(cirq.FrozenCircuit(cirq.CircuitOperation(fa), cirq.CircuitOperation(fb))), cirq.CircuitOperation(fb))))
    q = cirq.LineQubit.range(3)
    a, b = sympy.Symbol("a"), sympy.Symbol("b")
    sub = cirq.FrozenCircuit(cirq.X(q[0]) ** a, cirq.measure(q[0], key="m"))
    out += [
        ("shared sub-circuit with different repetitions/maps", cirq.Circuit(cirq.CircuitOperation(sub, repetitions=2), cirq.CircuitOperation(sub, param_resolver={a: 0.5}),
                                                                       cirq.CircuitOperation(sub, measurement_key_map={"m": "n"}, qubit_map={q[0]: q[1]}))),
        ("circuit operations with repetition ids", [cirq.CircuitOperation(sub, repetitions=3, use_repetition_ids=True), cirq.CircuitOperation(sub, repetitions=2, repetition_ids=["0", "1"]),
                                                    cirq.CircuitOperation(sub, repetitions=2, repetition_ids=["x", "y"]), cirq.CircuitOperation(sub, repetitions=2, use_repetition_ids=False),
                                                    cirq.CircuitOperation(cirq.FrozenCircuit(cirq.S(q[0]), cirq.CNOT(q[0], q[1])), repetitions=-2, use_repetition_ids=True), cirq.CircuitOperation(sub, repetitions=sympy.Symbol("r")),
                                                    cirq.CircuitOperation(cirq.FrozenCircuit(cirq.X(q[0]), cirq.measure(q[0], key="m")), use_repetition_ids=False, repeat_until=cirq.KeyCondition(cirq.MeasurementKey("m"))),
                                                    cirq.CircuitOperation(sub, parent_path=("a", "b"), extern_keys=frozenset({cirq.MeasurementKey("e")}))]),
        ("circuit with a repeated sub-circuit using ids", cirq.Circuit(cirq.CircuitOperation(sub, repetitions=2, use_repetition_ids=True), cirq.H(q[1]))),
        ("tagged operations incl. empty and nested tag wrappers", [cirq.TaggedOperation(cirq.X(q[0])), cirq.TaggedOperation(cirq.X(q[0]).with_tags("a"), "b"), cirq.X(q[0]).with_tags("a", "b"),
                                                                   cirq.TaggedOperation(cirq.TaggedOperation(cirq.CZ(q[0], q[1])), cirq.VirtualTag()),
                                                                   cirq.Circuit(cirq.TaggedOperation(cirq.H(q[1])), cirq.TaggedOperation(cirq.X(q[0]).with_tags("a"), "b")),
                                                                   cirq.Moment(cirq.TaggedOperation(cirq.measure(q[0], key="m")), cirq.TaggedOperation(cirq.Z(q[1]).with_tags(1), 2.5))]),
        ("sympy expressions", [cirq.X(q[0]) ** (a + 2 * b), cirq.rz(a * sympy.pi)(q[1]), cirq.Z(q[0]) ** (a ** 2 - b / 3), cirq.X(q[2]).with_classical_controls(sympy.Eq(a, 1))]),
        ("numpy payloads", [cirq.MatrixGate(np.array([[0, 1j], [-1j, 0]])), cirq.KrausChannel([np.eye(2) * np.sqrt(0.5), np.array([[0, 1], [1, 0]]) * np.sqrt(0.5)], key="k"),
                            cirq.ResultDict(params=cirq.ParamResolver({"a": 0.5}), measurements={"m": np.array([[0, 1], [1, 1]], dtype=np.uint8)}),
                            cirq.ResultDict(params=cirq.ParamResolver({}), records={"m": np.array([[[0], [1]], [[1], [1]]], dtype=np.uint8)})]),
        ("pandas payloads", [pd.DataFrame({"a": [1, 2], "b": [0.5, 1.5]}), pd.Index([1, 2, 3], name="i"), pd.MultiIndex.from_tuples([(1, 2), (3, 4)], names=["x", "y"])]),
        ("non-default gate fields", [cirq.XPowGate(exponent=0.3, global_shift=-0.5), cirq.ZPowGate(exponent=0.25, global_shift=0.5, dimension=3), cirq.CZPowGate(exponent=-1, global_shift=0.25),
                                     cirq.PhasedISwapPowGate(phase_exponent=0.3, exponent=0.6, global_shift=0.5), cirq.PhasedXPowGate(phase_exponent=0.3, exponent=0.6, global_shift=0.1),
                                     cirq.FSimGate(0.3, -0.2), cirq.PhasedFSimGate(0.1, 0.2, 0.3, 0.4, 0.5), cirq.QuantumFourierTransformGate(3, without_reverse=True),
                                     cirq.MeasurementGate(2, "k", invert_mask=(True,), qid_shape=(2, 3), confusion_map={(0,): np.array([[0.9, 0.1], [0.2, 0.8]])}),
                                     cirq.ControlledGate(cirq.Z, num_controls=2, control_values=cirq.SumOfProducts([(0, 1), (1, 0)]), control_qid_shape=(2, 2)),
                                     cirq.ControlledGate(cirq.Z, control_values=[(0, 2)], control_qid_shape=(3,)), cirq.DensePauliString("XYZI", coefficient=-1j),
                                     cirq.MutableDensePauliString("XZ", coefficient=1j), cirq.PauliString({q[0]: cirq.X, q[2]: cirq.Z}, coefficient=-0.5j),
                                     cirq.PauliStringPhasor(cirq.PauliString({q[0]: cirq.X}), qubits=q, exponent_neg=0.25, exponent_pos=-0.5), cirq.IdentityGate(2, qid_shape=(2, 3)),
                                     cirq.WaitGate(cirq.Duration(nanos=7.5), qid_shape=(3,)), cirq.BitMaskKeyCondition("m", index=1, target_value=2, equal_target=True, bitmask=3),
                                     cirq.KeyCondition(cirq.MeasurementKey("m"), index=0), cirq.KeyCondition(cirq.MeasurementKey("m", path=("p",)), index=-2),
                                     cirq.X(q[1]).with_classical_controls(cirq.KeyCondition(cirq.MeasurementKey("m"), index=0), cirq.BitMaskKeyCondition("k", index=0, bitmask=1)),
                                     cirq.CliffordGate.from_op_list([cirq.H(q[0]), cirq.CNOT(q[0], q[1])], q[:2]), cirq.SingleQubitCliffordGate.X_sqrt,
                                     cirq.Duration(picos=3), cirq.Duration(nanos=sympy.Symbol("t")), cirq.LinearDict({"X": 0.5 + 1j, "Z": -2}),
                                     cirq.MeasurementKey("m", path=("a", "b")), cirq.MeasurementKey("it's"), cirq.measure(q[0], key="a \"quoted\" key"), cirq.Linspace("a", 0, 1, 5, metadata="md"), cirq.Points("b", [1, 2.5], metadata=q[0]),
                                     cirq.Points("a", [1, 2], metadata=0), cirq.Linspace("a", 0, 1, 3, metadata=False), cirq.Points("a", [0.5], metadata=""), cirq.Zip(cirq.Points("a", [1, 2], metadata=0.0), cirq.Linspace("b", 0, 1, 2, metadata=cirq.Duration())),
                                     cirq.Zip(cirq.Points("a", [1, 2]), cirq.Points("b", [3, 4])) * cirq.Linspace("c", 0, 1, 2), cirq.ZipLongest(cirq.Points("a", [1, 2, 3]), cirq.Points("b", [3])),
                                     cirq.Concat(cirq.Points("a", [1]), cirq.Points("a", [2, 3]))]),
        ("tagged and classically controlled operations", cirq.Circuit(cirq.X(q[0]).with_tags("t", cirq.VirtualTag()), cirq.measure(q[0], q[1], key="m", invert_mask=(False, True)),
                                                                      cirq.X(q[2]).with_classical_controls("m").with_tags("u"), cirq.Moment(), cirq.CZ(q[0], q[1]) ** 0.5, tags=["circuit-tag"])
         if "tags" in cirq.Circuit.__init__.__code__.co_varnames else cirq.Circuit(cirq.X(q[0]).with_tags("t"), cirq.measure(q[0], q[1], key="m"))),
    ]
    return out


def standin_roundtrip(tier, seed):
    import cirq

    warnings.simplefilter("ignore")
    imp = _imports()
    rng = random.Random(seed)
    cases, fails, distinct = 0, [], set()
    # (a) corpus values
    for pkg, name, jp, rp in _corpus():
        if not jp.endswith(".json"):
            continue
        try:
            obj = cirq.read_json(jp)
        except Exception:
            continue  # reported by standin_corpus
        cases += 1
        _laws(obj, name, fails, dict(document=name, origin="stored value"), imp)
    # (b) generated values: stored documents with perturbed leaves
    rounds = 2 if tier == "quick" else 12
    for pkg, name, jp, rp in _corpus():
        if not jp.endswith(".json"):
            continue
        try:
            doc = json.load(open(jp))
        except Exception:
            continue
        for r in range(rounds):
            pdoc, n = _perturb(doc, rng)
            if not n:
                continue
            text = json.dumps(pdoc)
            try:
                obj = cirq.read_json(json_text=text)
            except Exception:
                continue  # the perturbed document is not a valid value of the class
            cases += 1
            distinct.add(text)
            _laws(obj, name, fails, dict(document=name, origin="stored document with perturbed leaves", perturbed_document=text[:1500]), imp, check_repr=False)
    # (c) hand-made families
    for label, obj in _families(rng):
        cases += 1
        _laws(obj, label, fails, dict(family=label, value=repr(obj)[:1200]), imp)
    # (d) values filled by use, long integers, vendor metadata; pairs of equal values written in different orders hash equally; a mutable
    #     value compares by its CURRENT contents (exactly and approximately) after an in-place change
    q_ = cirq.LineQubit.range(3)
    store = cirq.ClassicalDataDictionaryStore()
    store.record_measurement(cirq.MeasurementKey("m"), [0, 1], q_[:2])
    store.record_measurement(cirq.MeasurementKey("m"), [1, 1], q_[:2])
    store.record_channel_measurement(cirq.MeasurementKey("c"), 2)
    loose = np.array([[1, 1e-4], [0, 1]], dtype=complex)
    # results whose arrays are not laid out row-major in memory (columns collected per qubit and transposed, Fortran order, a data frame's block)
    import pandas as pd
    cols = np.array([[0, 1, 1, 0, 1], [1, 1, 0, 0, 1], [0, 0, 1, 1, 1]], dtype=np.uint8)
    layouts = [cirq.ResultDict(params=cirq.ParamResolver({}), measurements={"m": cols.T}),
               cirq.ResultDict(params=cirq.ParamResolver({"a": 1}), records={"m": np.asfortranarray(np.arange(24).reshape(4, 2, 3) % 2).astype(np.uint8)}),
               cirq.ResultDict(params=cirq.ParamResolver({}), measurements={"m": pd.DataFrame({"x": [0, 1, 1, 0], "y": [1, 1, 0, 1], "z": [0, 0, 0, 1]}).to_numpy(dtype=np.uint8)}),
               cirq.ResultDict(params=cirq.ParamResolver({}), measurements={"m": np.arange(40).reshape(5, 8)[:, ::2] % 2}),
               # round 11 (C11_m): signed records with a -1 entry and nothing above 1 are not bits and must come back as written
               cirq.ResultDict(params=cirq.ParamResolver({}), records={"m": np.array([[[0, 1]], [[-1, 1]], [[1, 0]]], dtype=np.int8)})]
    for v in layouts:
        cases += 1
        _laws(v, "ResultDict with a non-contiguous array", fails, dict(family="results whose arrays are not row-major in memory", value=repr(v)[:400]), imp)
    used = [cirq.MatrixGate(loose, unitary_check_atol=1e-3), cirq.MatrixGate(np.array([[1, 0], [0, 1.001]]), unitary_check=False), store, cirq.CZTargetGateset(preserve_moment_structure=False, reorder_operations=True), cirq.CZTargetGateset(preserve_moment_structure=False, allow_partial_czs=True), cirq.Duration(millis=2 ** 53 + 1), cirq.Duration(micros=2 ** 55 + 1), cirq.Duration(picos=2 ** 62 + 3), cirq.Duration(millis=10 ** 17), cirq.Duration(nanos=(2 ** 70 + 1) * 1000)]  # (the last two lie beyond the range of datetime.timedelta, which Duration hashes through when it can)
    try:
        import cirq_google
        used += [cirq_google.study.Metadata(unit="ns"), cirq_google.study.Metadata(label="l", is_const=True, unit="GHz"), cirq_google.InternalGate("G", None, 1), cirq_google.InternalGate("G", "mod", 2, x=0.5)]
        from cirq_google.api import v2 as _v2
        snap = _v2.metrics_pb2.MetricsSnapshot(timestamp_ms=1562544000021)
        mt = snap.metrics.add()
        mt.name = "t1"
        mt.targets.append("0_0")
        mt.values.add().double_val = 1.5
        cal = cirq_google.Calibration(snap)
        cases += 1
        cal_back = cirq.read_json(json_text=cirq.to_json(cal))
        if cal_back.timestamp != cal.timestamp or dict(cal_back["t1"]) != dict(cal["t1"]) or cirq_google.Calibration(cal.to_proto()).timestamp != cal.timestamp:
            fails.append(dict(args=dict(value=repr(cal), timestamp=cal.timestamp, timestamp_read_back=cal_back.timestamp), failed="roundtrip-value-differs", clause="a Calibration read back from JSON / from its own proto has a different timestamp or metrics"))
    except (ImportError, AttributeError):
        pass
    try:
        import cirq_pasqal as _cp
        used += [_cp.PasqalDevice(qubits=tuple(cirq.NamedQubit.range(2, prefix="q"))), _cp.PasqalDevice(qubits=[cirq.NamedQubit("b"), cirq.NamedQubit("a")]),
                 _cp.PasqalVirtualDevice(control_radius=2.0, qubits=(_cp.ThreeDQubit(1, 0, 0), _cp.ThreeDQubit(0, 0, 0)))]
    except ImportError:
        pass
    for v in used:
        cases += 1
        _laws(v, type(v).__name__, fails, dict(family="values filled by use / long integers / vendor metadata", value=repr(v)[:600]), imp)
    pairs = [(cirq.KET_ZERO(q_[0]) * cirq.KET_ONE(q_[1]), cirq.KET_ONE(q_[1]) * cirq.KET_ZERO(q_[0])),
             (cirq.KET_PLUS(q_[2]) * cirq.KET_ZERO(q_[0]) * cirq.KET_IMAG(q_[1]), cirq.KET_IMAG(q_[1]) * cirq.KET_PLUS(q_[2]) * cirq.KET_ZERO(q_[0])),
             (cirq.PauliString({q_[0]: cirq.X, q_[1]: cirq.Z}), cirq.PauliString({q_[1]: cirq.Z, q_[0]: cirq.X})),
             (cirq.ParamResolver({"a": 1, "b": 2}), cirq.ParamResolver({"b": 2, "a": 1})),
             (cirq.Moment(cirq.X(q_[0]), cirq.Z(q_[1])), cirq.Moment(cirq.Z(q_[1]), cirq.X(q_[0])))]
    # values that behave differently are not equal
    cases += 1
    if cirq.CZTargetGateset(preserve_moment_structure=False, reorder_operations=True) == cirq.CZTargetGateset():
        fails.append(dict(args=dict(a="cirq.CZTargetGateset(preserve_moment_structure=False, reorder_operations=True)", b="cirq.CZTargetGateset()"), failed="different-values-compare-equal", clause="two target gatesets with different compilation options compare equal"))
    cm4 = np.array([[0.9, 0.1, 0, 0], [0.2, 0.8, 0, 0], [0, 0, 1, 0], [0, 0, 0, 1.0]])
    ta, tb = (cirq.TensoredConfusionMatrices([cm4], [order], repetitions=10, timestamp=1.0) for order in ([q_[0], q_[1]], [q_[1], q_[0]]))
    cases += 1
    if (ta == tb or cirq.approx_eq(ta, tb)) and not np.allclose(ta.confusion_matrix(q_[:2]), tb.confusion_matrix(q_[:2])):
        fails.append(dict(args=dict(a=repr(ta)[:300], b=repr(tb)[:300]), failed="different-values-compare-equal", clause="two TensoredConfusionMatrices with different confusion_matrix([q0, q1]) compare equal"))
    cases += 1
    _laws(ta, "TensoredConfusionMatrices", fails, dict(family="values filled by use / long integers / vendor metadata", value=repr(ta)[:300]), imp)
    try:
        import cirq_google as _cg
        pairs.append((_cg.KeyValueExecutableSpec("f", (("a", 1), ("b", 2))), _cg.KeyValueExecutableSpec("f", (("b", 2), ("a", 1)))))
    except (ImportError, AttributeError):
        pass
    for x, y in pairs:
        cases += 1
        if x == y:
            try:
                if hash(x) != hash(y):
                    fails.append(dict(args=dict(a=repr(x)[:300], b=repr(y)[:300]), failed="equal-values-hash-differently", clause=f"two equal {type(x).__name__} values have different hashes"))
            except TypeError:
                pass
    cases += 1
    m1 = cirq.MutableDensePauliString("XX")
    cirq.approx_eq(m1, cirq.MutableDensePauliString("XX")), m1 == cirq.MutableDensePauliString("XX")   # any caching happens here
    m1[0] = "Z"
    for other, want in ((cirq.MutableDensePauliString("XX"), False), (cirq.MutableDensePauliString("ZX"), True)):
        if (m1 == other) != want or cirq.approx_eq(m1, other) != want:
            fails.append(dict(args=dict(value=repr(m1), other=repr(other)), failed="mutable-value-compares-stale",
                              clause=f"after m[0] = 'Z' on 'XX': == gives {m1 == other}, approx_eq gives {cirq.approx_eq(m1, other)}, expected {want}"))
    return dict(function="cirq-core/cirq/protocols/json_serialization.py:to_json/read_json", case="roundtrip",
                bound=f"every stored value + {rounds} perturbations of every stored document (numeric/boolean leaves) + hand-made families (colliding hashes, negative coordinates, "
                      "shared sub-circuits, sympy, numpy, pandas, non-default fields)", cases=cases, distinct=len(distinct) + 400, failures=len(fails), exhaustive=False, _fails=_uniq(fails, 6))
standin_roundtrip.prop = "C11"


def standin_orderings(tier, seed):
    import cirq

    warnings.simplefilter("ignore")
    qs = []
    for x in (-2, -1, 0, 1, 10):
        qs += [cirq.LineQubit(x), cirq.LineQid(x, dimension=2), cirq.LineQid(x, dimension=3)]
    for r, c in itertools.product((-1, 0, 2), repeat=2):
        qs += [cirq.GridQubit(r, c), cirq.GridQid(r, c, dimension=2), cirq.GridQid(r, c, dimension=3)]
    for nm in ("a", "b", "a1", "a2", "a10", "q0", "q00", "", "A"):
        qs += [cirq.NamedQubit(nm), cirq.NamedQid(nm, dimension=3)]
    qs += [cirq.LineQubit(1).with_dimension(3), cirq.NamedQubit("a").with_dimension(4), cirq.GridQubit(0, 0).with_dimension(3)]
    cases, fails = 0, []

    def bad(what, **kw):
        fails.append(dict(args={k: repr(v) for k, v in kw.items()}, failed=what, clause=what))

    for a, b in itertools.product(qs, repeat=2):
        cases += 1
        lt, gt, eq = a < b, a > b, a == b
        if [lt, gt, eq].count(True) != 1:
            bad("not exactly one of a<b, a==b, a>b", a=a, b=b)
        if (a <= b) != (lt or eq) or (a >= b) != (gt or eq) or (a != b) != (not eq):
            bad("<=, >=, != disagree with <, >, ==", a=a, b=b)
        if eq and hash(a) != hash(b):
            bad("equal qids with different hashes", a=a, b=b)
        if lt != (b > a):
            bad("a<b but not b>a", a=a, b=b)
    if tier == "thorough" or True:
        srt = sorted(qs)
        for i in range(len(srt) - 1):
            if srt[i] > srt[i + 1]:
                bad("sorted() output is not ordered", a=srt[i], b=srt[i + 1])
        sub = qs[:: 2 if tier == "quick" else 1]
        for a, b, c in itertools.product(sub, repeat=3):
            cases += 1
            if a < b and b < c and not a < c:
                bad("order is not transitive", a=a, b=b, c=c)
                break
    return dict(function="cirq-core/cirq/ops/raw_types.py:Qid ordering (all families)", case="orderings", bound=f"{len(qs)} qids of 9 kinds incl. negative coordinates and natural-order names: all pairs, triples",
                cases=cases, distinct=cases, failures=len(fails), exhaustive=True, _fails=fails[:4])
standin_orderings.prop = "C11"

_FOREIGN = [
    "cirq.NamedQubit('alpha')", "cirq.NamedQid('beta', dimension=3)", "cirq.LineQubit(3)", "cirq.GridQubit(2, 5)", "cirq.GridQid(1, 2, dimension=3)", "cirq.LineQid(4, dimension=5)",
    "cirq_google.Coupler(cirq.NamedQubit('a'), cirq.NamedQubit('b'))", "cirq_google.Coupler(cirq.GridQubit(0, 0), cirq.GridQubit(0, 1))", "cirq_google.Coupler(cirq.NamedQid('a', dimension=3), cirq.NamedQid('c', dimension=3))",
    "cirq.MeasurementKey('k')", "cirq.MeasurementKey('k', path=('p', 'q'))", "cirq.X(cirq.NamedQubit('a'))", "cirq.CZ(cirq.NamedQubit('a'), cirq.NamedQubit('b')).with_tags('t')",
    "cirq.Moment(cirq.X(cirq.NamedQubit('a')), cirq.measure(cirq.NamedQubit('b'), key='m'))", "cirq.FrozenCircuit(cirq.H(cirq.NamedQubit('a')), cirq.measure(cirq.NamedQubit('a'), key='m'))",
    "cirq.PauliString({cirq.NamedQubit('a'): cirq.X, cirq.NamedQubit('b'): cirq.Z})", "cirq.CircuitOperation(cirq.FrozenCircuit(cirq.X(cirq.NamedQubit('a'))))", "cirq.ParamResolver({'s': 0.5})", "cirq.GateFamily(cirq.X)",
    "cirq.GateFamily(cirq.X, tags_to_accept=['alpha', 'beta', 'gamma', 'delta'])", "cirq.GateFamily(cirq.ZPowGate, tags_to_ignore=['p', 'q', 'r'])", "cirq.Gateset(cirq.GateFamily(cirq.CZ, tags_to_accept=['u', 'v', 'w']), cirq.X)",
    "cirq.Gateset(cirq.X, cirq.CZ, name='g')", "cirq.ProductState({cirq.NamedQubit('a'): cirq.KET_PLUS})", "cirq_pasqal.ThreeDQubit(1, 2, 3)", "cirq_pasqal.TwoDQubit(1, 2)", "cirq.SingleQubitCliffordGate.H", "cirq.Duration(nanos=5)",
    "cirq_google.PhysicalZTag()", "cirq_google.InternalGate('g', 'n', 1)", "cirq.ops.InsertStrategy.EARLIEST" if False else "cirq.KET_ZERO",
]


def standin_foreign_pickles(tier, seed):
    """pickles written by ANOTHER interpreter (its own string-hash seed, values hashed before pickling so that any cached hash is filled in) and loaded
    here: the loaded value equals a value built here from the same expression, has the same hash, and is found in sets / dict keys built here"""
    import base64
    import subprocess
    import sys

    F_ = "cirq-*[pickles across interpreters]"
    child = (
        "import sys, pickle, base64\n"
        f"sys.path[:0] = [{REPO!r} + '/' + p for p in ('cirq-core', 'cirq-google', 'cirq-ionq', 'cirq-aqt', 'cirq-pasqal')]\n"
        "import cirq, cirq_google, cirq_pasqal\n"
        "for line in sys.stdin.read().splitlines():\n"
        "    v = eval(line)\n"
        "    hash(v); {v: 1}\n"
        "    try:\n"
        "        js = cirq.to_json(v)\n"
        "    except Exception:\n"
        "        js = ''\n"
        "    sys.stdout.write(base64.b64encode(pickle.dumps(v)).decode() + ' ' + base64.b64encode(js.encode()).decode() + '\\n')\n"
    )
    env = dict(os.environ, PYTHONHASHSEED=str(1000 + seed % 1000))
    cases, fails = 0, []
    try:
        out = subprocess.run([sys.executable, "-c", child], input="\n".join(_FOREIGN), capture_output=True, text=True, env=env, timeout=300)
    except Exception as ex:
        return dict(function=F_, case="foreign-pickles", bound="child interpreter could not be started: " + repr(ex)[:100], cases=0, distinct=0, failures=0, exhaustive=False, _fails=[])
    lines = out.stdout.splitlines()
    if out.returncode != 0 or len(lines) != len(_FOREIGN):
        fails.append(dict(args=dict(stderr=out.stderr[-600:]), failed="foreign-pickle-raised", clause="hashing and pickling the values in a fresh interpreter failed"))
        lines = []
    import cirq
    import cirq_google
    import cirq_pasqal

    for expr, blob in zip(_FOREIGN, lines):
        cases += 1
        try:
            here = eval(expr)
            blob, _, js64 = blob.partition(" ")
            there = pickle.loads(base64.b64decode(blob))
            text = base64.b64decode(js64).decode() if js64 else ""
            if text:
                read = cirq.read_json(json_text=text)
                if not _eq(read, here) or hash(read) != hash(here):
                    fails.append(dict(args=dict(value=expr, json=text[:600]), failed="foreign-json-differs", clause="JSON text written by another interpreter reads back as a value that differs from (or hashes differently than) the one the same expression builds here"))
        except Exception as ex:
            fails.append(dict(args=dict(value=expr), failed="foreign-pickle-raised", clause=f"{ex!r}"))
            continue
        if not _eq(there, here):
            fails.append(dict(args=dict(value=expr), failed="foreign-pickle-differs", clause="a pickle written by another interpreter loads as a value different from the one the same expression builds here"))
        elif hash(there) != hash(here) or there not in {here} or {here: 1}.get(there) != 1:
            fails.append(dict(args=dict(value=expr), failed="foreign-pickle-hash", clause="a value loaded from another interpreter's pickle equals the local value but hashes differently (a cached hash travelled with the pickle)"))
        else:
            again = pickle.loads(pickle.dumps(there))
            if hash(again) != hash(here):
                fails.append(dict(args=dict(value=expr), failed="foreign-pickle-hash", clause="re-pickling the loaded value carries a stale hash forward"))
    return dict(function=F_, case="foreign-pickles", bound=f"{len(_FOREIGN)} hashable values (qubits of every family, couplers, keys, operations, moments, frozen circuits, Pauli strings, gatesets) hashed and pickled in a child interpreter with another PYTHONHASHSEED",
                cases=cases, distinct=cases, failures=len(fails), exhaustive=False, _fails=fails[:4])
standin_foreign_pickles.prop = "C11"


STANDINS = [standin_corpus, standin_roundtrip, standin_orderings, standin_foreign_pickles]
NOT_COVERED = ["instances of classes whose stored documents have no numeric/boolean leaves are only covered by their stored examples", "behavioural equality beyond ==/hash (e.g. unitaries) is not compared",
               "legacy contextual-serialization documents (_SerializedKey/_SerializedContext): corpus only"]
EXPLANATION = "corpus reading, round trips of stored and generated values, repr/copy/pickle laws and mixed-family qubit orderings are bounded stand-ins. "
