"""C11 — qubit orderings are total and consistent with equality and hashing (grid and line families, all integer coordinates).

Modular argument.  Each hand-optimised comparison method of `_BaseGridQid` / `_BaseLineQid` gets the strongest postcondition:
its result is the lexicographic relation on the key (row, col, dimension) resp. (x, dimension) — verified from the real method
bodies for symbolic integer fields (pyvc VCs, z3), including the aliasing case `other is self`.  The order axioms (irreflexive,
transitive, trichotomous with ==, <= is < or ==, >= and > mirror them, != negates ==) are then lemmas over the specification
relations alone.  Hash consistency: the constructors compute `_hash` from exactly the fields == compares (hash() of an int is an
uninterpreted function), so equal qids have equal hashes."""
import z3

from pyvc import sym, paths
from pyvc.api import Contract, Case, Lemma
from pyvc.interp import SRec
from pyvc.sym import fresh_int

FG = "cirq-core/cirq/devices/grid_qubit.py"
FL = "cirq-core/cirq/devices/line_qubit.py"


_LAST = {}


def _grid(tag):
    def mk(name):
        from cirq.devices import grid_qubit

        r = SRec(grid_qubit._BaseGridQid, {"_row": fresh_int(tag + "_row"), "_col": fresh_int(tag + "_col"), "_dimension": fresh_int(tag + "_dim"), "_comp_key": None})
        _LAST["obj"] = r
        return r
    return mk


def _line(tag):
    def mk(name):
        from cirq.devices import line_qubit

        r = SRec(line_qubit._BaseLineQid, {"_x": fresh_int(tag + "_x"), "_dimension": fresh_int(tag + "_dim")})
        _LAST["obj"] = r
        return r
    return mk


def _same(name):
    """the object made for the previous parameter (aliasing case `other is self`)"""
    return _LAST["obj"]


G_EQ = "(self._row == other._row and self._col == other._col and self._dimension == other._dimension)"
G_LT = "(self._row < other._row or (self._row == other._row and (self._col < other._col or (self._col == other._col and self._dimension < other._dimension))))"
G_GT = "(self._row > other._row or (self._row == other._row and (self._col > other._col or (self._col == other._col and self._dimension > other._dimension))))"
L_EQ = "(self._x == other._x and self._dimension == other._dimension)"
L_LT = "(self._x < other._x or (self._x == other._x and self._dimension < other._dimension))"
L_GT = "(self._x > other._x or (self._x == other._x and self._dimension > other._dimension))"


def _family(F, cls, mk, EQ, LT, GT):
    specs = {"__eq__": EQ, "__ne__": f"(not {EQ})", "__lt__": LT, "__le__": f"({LT} or {EQ})", "__gt__": GT, "__ge__": f"({GT} or {EQ})"}
    for meth, spec in specs.items():
        Contract(
            f"{F}:{cls}.{meth}", "C11",
            cases=[
                Case("two objects", {"self": mk("a"), "other": mk("b")}, ensures=[f"result == {spec}"]),
                Case("other is self", {"self": mk("a"), "other": _same}, ensures=[f"result == {spec}"]),
            ],
            inline=[f"{F}:{cls}._comparison_key"], result="bool",
        )


_family(FG, "_BaseGridQid", _grid, G_EQ, G_LT, G_GT)
_family(FL, "_BaseLineQid", _line, L_EQ, L_LT, L_GT)


# ---- order axioms over the specification relations (pure integer lemmas) ------------------------------------------------
def _order_lemmas():
    import time

    from pyvc import api
    from contracts.C03_gates import _rep

    obls = []

    def prove(name, fml, case):
        t0 = time.time()
        s = z3.Solver()
        s.set("timeout", 20000)
        s.add(z3.Not(fml))
        r = s.check()
        st = "proved" if r == z3.unsat else ("failed" if r == z3.sat else "unknown")
        o = paths.Obligation(name, "lemma", st, (time.time() - t0) * 1e3, "z3", detail="" if st == "proved" else str(s.model() if r == z3.sat else s.reason_unknown()))
        o.case = case
        obls.append(o)

    for fam, nfields in (("grid (row, col, dimension)", 3), ("line (x, dimension)", 2)):
        A = [z3.Int(f"a{i}") for i in range(nfields)]
        B = [z3.Int(f"b{i}") for i in range(nfields)]
        C = [z3.Int(f"c{i}") for i in range(nfields)]

        def eq(x, y):
            return z3.And(*[p == q for p, q in zip(x, y)])

        def lt(x, y):
            f = z3.BoolVal(False)
            for p, q in reversed(list(zip(x, y))):
                f = z3.Or(p < q, z3.And(p == q, f))
            return f

        def gt(x, y):
            f = z3.BoolVal(False)
            for p, q in reversed(list(zip(x, y))):
                f = z3.Or(p > q, z3.And(p == q, f))
            return f

        pre = f"C11/lemma:qid-order[{fam}]#"
        prove(pre + "irreflexive", z3.Not(lt(A, A)), fam)
        prove(pre + "transitive", z3.Implies(z3.And(lt(A, B), lt(B, C)), lt(A, C)), fam)
        prove(pre + "trichotomy: exactly one of a<b, a==b, a>b",
              z3.And(z3.Or(lt(A, B), eq(A, B), gt(A, B)), z3.Not(z3.And(lt(A, B), eq(A, B))), z3.Not(z3.And(lt(A, B), gt(A, B))), z3.Not(z3.And(eq(A, B), gt(A, B)))), fam)
        prove(pre + "a>b is b<a", gt(A, B) == lt(B, A), fam)
        prove(pre + "== is an equivalence compatible with <", z3.And(eq(A, A), z3.Implies(eq(A, B), eq(B, A)), z3.Implies(z3.And(eq(A, B), lt(B, C)), lt(A, C))), fam)
        # hash: the constructors' formula is a function of exactly the compared fields
        H = z3.Function("hash_int", z3.IntSort(), z3.IntSort())
        if nfields == 3:
            hq = lambda x: ((x[2] - 2) * 1000003 + H(x[1])) * 1000003 + H(x[0])
        else:
            hq = lambda x: (x[1] - 2) * 1000003 + H(x[0])
        prove(pre + "equal qids have equal hashes (constructor formula)", z3.Implies(eq(A, B), hq(A) == hq(B)), fam)
    return [_rep("lemma:qid-order-axioms", obls, "C11")]


def _hash_formula_matches_source():
    """the hash formulas assumed by the lemma are the ones in the constructors (read from the AST on every run)"""
    import ast
    import os
    import time

    from pyvc import api
    from contracts.C03_gates import _rep

    want = {
        (FG, "GridQid"): "((dimension - 2) * 1000003 + hash(col)) * 1000003 + hash(row)",
        (FG, "GridQubit"): "hash(col) * 1000003 + hash(row)",
        (FL, "LineQid"): "(dimension - 2) * 1000003 + hash(x)",
        (FL, "LineQubit"): "hash(x)",
    }
    obls = []
    for (rel, cls), expr in want.items():
        t0 = time.time()
        src = api.SOURCE_OVERRIDES.get(rel) or open(os.path.join(api.REPO, rel)).read()
        tree = ast.parse(src)
        found = None
        for node in ast.walk(tree):
            if isinstance(node, ast.ClassDef) and node.name == cls:
                for n in ast.walk(node):
                    if isinstance(n, ast.Assign) and len(n.targets) == 1 and isinstance(n.targets[0], ast.Attribute) and n.targets[0].attr == "_hash":
                        found = ast.unparse(n.value)
        ok = found is not None and ast.dump(ast.parse(found)) == ast.dump(ast.parse(expr))
        o = paths.Obligation(f"C11/{rel}:{cls}.__new__#hash-is-a-function-of-the-compared-fields", "frame", "proved" if ok else "failed", (time.time() - t0) * 1e3, "ast",
                             detail="" if ok else f"{cls}.__new__ computes _hash = {found!r}; the hash/equality lemma was proved for {expr!r} (GridQubit/LineQubit are the dimension-2 instances)")
        o.case = cls
        obls.append(o)
    return [_rep("cirq-core/cirq/devices:{GridQid,GridQubit,LineQid,LineQubit}.__new__[hash formula]", obls, "C11")]


ENGINE_CHECKS = [_order_lemmas, _hash_formula_matches_source]

CANARIES = [
    dict(name="GridQid.__le__ uses a strict dimension test", file=FG, function=FG + ":_BaseGridQid.__le__",
         find="            return k0 < k1 or (k0 == k1 and self._dimension <= other._dimension)", replace="            return k0 < k1 or (k0 == k1 and self._dimension < other._dimension)"),
    dict(name="LineQid.__ne__ ignores the dimension", file=FL, function=FL + ":_BaseLineQid.__ne__",
         find="                self._x != other._x or self._dimension != other._dimension", replace="                self._x != other._x"),
    dict(name="GridQid hash ignores the row", file=FG, engine_check=1,
         find="            inst._hash = ((dimension - 2) * 1_000_003 + hash(col)) * 1_000_003 + hash(row)", replace="            inst._hash = ((dimension - 2) * 1_000_003 + hash(col)) * 1_000_003"),
]
NOT_COVERED = ["NamedQubit / NamedQid natural string order, cross-family comparisons through Qid._cmp_tuple (type names), _QubitAsQid: bounded stand-in only"]
ASSUMPTIONS = ["hash() of an int is a function (equal ints, equal hashes); Python ints are mathematical integers", "instances are built only by __new__ (the per-class instance cache returns the same object for the same key)"]
EXPLANATION = ("C11: the hand-written comparison methods of the grid and line qubit families proved (all integer coordinates) to be the lexicographic relations on "
               "(row, col, dimension) / (x, dimension); order axioms and hash consistency are lemmas over those relations; ")
