"""Documented closed-form matrices of the gate library (big-endian qubit order), written from the class docstrings and
textbook definitions — NOT derived from the code.  Shared by C03 (_unitary_ vs documentation), C04 (in-place kernels vs
documentation), C08 (powers/controls) and C01 (kernels used by the simulators).

Every entry: make(**params) -> gate, params: {name: [special concrete values]}, matrix(**params) -> object matrix WITHOUT the
global-shift phase, phase(**params) -> cis(pi * e * s) for EigenGates, qid_shape."""
from fractions import Fraction

import numpy as np

from pyvc.trigpoly import Angle, TrigPoly, Sqrt2

PI = Angle({("pi",): 1})
I_ = TrigPoly.const(1j)


def cis(x):
    return Angle.of(x).cis()


def cos(x):
    return Angle.of(x).cos()


def sin(x):
    return Angle.of(x).sin()


def turn(e, frac=1):
    """cis(pi * e * frac)"""
    return cis(PI * e * frac)


def M(rows):
    return np.array(rows, dtype=object)


def eig_phase(e, s):
    return cis(PI * e * s)


def half(e):
    """(g, c, s) for the standard 'half-turn' form: g = cis(pi e / 2), c = cos(pi e / 2), s = sin(pi e / 2)"""
    return turn(e, Fraction(1, 2)), cos(PI * e * Fraction(1, 2)), sin(PI * e * Fraction(1, 2))


def x_pow(e):
    g, c, s = half(e)
    return M([[g * c, -I_ * g * s], [-I_ * g * s, g * c]])


def y_pow(e):
    g, c, s = half(e)
    return M([[g * c, -g * s], [g * s, g * c]])


def z_pow(e):
    return M([[1, 0], [0, turn(e)]])


def z_pow_qudit(e, d):
    return M([[turn(e, Fraction(2 * k, d)) if j == k else 0 for j in range(d)] for k in range(d)])


def h_pow(e):
    # H^t = g (cos(pi t/2) I - i sin(pi t/2) H),  H = (X + Z)/sqrt(2)
    g, c, s = half(e)
    r = Sqrt2(Fraction(1, 2)).as_poly()
    return M([[g * (c - I_ * s * r), -I_ * g * s * r], [-I_ * g * s * r, g * (c + I_ * s * r)]])


def block_diag(*blocks):
    n = sum(b.shape[0] for b in blocks)
    out = np.zeros((n, n), dtype=object)
    i = 0
    for b in blocks:
        k = b.shape[0]
        out[i:i + k, i:i + k] = b
        i += k
    return out


ID2 = M([[1, 0], [0, 1]])


def cz_pow(e):
    return block_diag(ID2, z_pow(e))


def cx_pow(e):
    return block_diag(ID2, x_pow(e))


def swap_pow(e):
    g, c, s = half(e)
    return M([[1, 0, 0, 0], [0, g * c, -I_ * g * s, 0], [0, -I_ * g * s, g * c, 0], [0, 0, 0, 1]])


def iswap_pow(e):
    _, c, s = half(e)
    return M([[1, 0, 0, 0], [0, c, I_ * s, 0], [0, I_ * s, c, 0], [0, 0, 0, 1]])


def xx_pow(e):
    g, c, s = half(e)
    a, b = g * c, -I_ * g * s
    return M([[a, 0, 0, b], [0, a, b, 0], [0, b, a, 0], [b, 0, 0, a]])


def yy_pow(e):
    g, c, s = half(e)
    a, b = g * c, -I_ * g * s
    return M([[a, 0, 0, -b], [0, a, b, 0], [0, b, a, 0], [-b, 0, 0, a]])


def zz_pow(e):
    t = turn(e)
    return M([[1, 0, 0, 0], [0, t, 0, 0], [0, 0, t, 0], [0, 0, 0, 1]])


def ccz_pow(e):
    return block_diag(ID2, ID2, ID2, z_pow(e))


def ccx_pow(e):
    return block_diag(ID2, ID2, ID2, x_pow(e))


def cswap():
    return block_diag(ID2, ID2, M([[1, 0, 0, 0], [0, 0, 1, 0], [0, 1, 0, 0], [0, 0, 0, 1]])[0:2, 0:2] * 0 + ID2, ID2) if False else _perm_matrix(8, {5: 6, 6: 5})


def _perm_matrix(n, swaps):
    out = np.zeros((n, n), dtype=object)
    for j in range(n):
        out[swaps.get(j, j), j] = 1
    return out


def fsim(theta, phi):
    c, s = cos(theta), sin(theta)
    return M([[1, 0, 0, 0], [0, c, -I_ * s, 0], [0, -I_ * s, c, 0], [0, 0, 0, cis(-Angle.of(phi))]])


def phased_fsim(theta, zeta, chi, gamma, phi):
    c, s = cos(theta), sin(theta)
    th, ze, ch, ga, ph = (Angle.of(x) for x in (theta, zeta, chi, gamma, phi))
    return M([[1, 0, 0, 0],
              [0, cis(-ga - ze) * c, -I_ * cis(-ga + ch) * s, 0],
              [0, -I_ * cis(-ga - ch) * s, cis(-ga + ze) * c, 0],
              [0, 0, 0, cis(-ga * 2 - ph)]])


def phased_iswap(p, t):
    _, c, s = half(t)
    f = cis(PI * p * 2)
    return M([[1, 0, 0, 0], [0, c, I_ * s * f, 0], [0, I_ * s * f.conjugate(), c, 0], [0, 0, 0, 1]])


def _mm(A, B):
    n = A.shape[0]
    out = np.empty((n, n), dtype=object)
    for i in range(n):
        for j in range(n):
            acc = TrigPoly()
            for k in range(n):
                acc = acc + TrigPoly.const(A[i, k]) * TrigPoly.const(B[k, j]) if not isinstance(A[i, k], TrigPoly) or not isinstance(B[k, j], TrigPoly) else acc + A[i, k] * B[k, j]
            out[i, j] = acc
    return out


def phased_x_pow(p, t):
    # documented: Z**p X**t Z**-p
    return _mm(_mm(z_pow(p), x_pow(t)), z_pow(-Angle.of(p)))


def phased_xz(x, z, a):
    # documented: Z**z Z**a X**x Z**-a
    return _mm(_mm(_mm(z_pow(z), z_pow(a)), x_pow(x)), z_pow(-Angle.of(a)))


def _eigen(cls, **extra):
    def make(e, s):
        return cls(exponent=e, global_shift=s, **extra)
    return make


def _specials_e():
    return [1, 0, 2, -1, Fraction(1, 2), Fraction(-1, 2), 3, 5, -3, 4]


def _specials_s():
    return [0, Fraction(-1, 2), Fraction(1, 2), 1]


def eigen_families():
    import cirq

    fam = {
        "XPowGate": (cirq.XPowGate, x_pow, (2,)), "YPowGate": (cirq.YPowGate, y_pow, (2,)), "ZPowGate": (cirq.ZPowGate, z_pow, (2,)),
        "HPowGate": (cirq.HPowGate, h_pow, (2,)), "CZPowGate": (cirq.CZPowGate, cz_pow, (2, 2)), "CXPowGate": (cirq.CXPowGate, cx_pow, (2, 2)),
        "SwapPowGate": (cirq.SwapPowGate, swap_pow, (2, 2)), "ISwapPowGate": (cirq.ISwapPowGate, iswap_pow, (2, 2)),
        "XXPowGate": (cirq.XXPowGate, xx_pow, (2, 2)), "YYPowGate": (cirq.YYPowGate, yy_pow, (2, 2)), "ZZPowGate": (cirq.ZZPowGate, zz_pow, (2, 2)),
        "CCZPowGate": (cirq.CCZPowGate, ccz_pow, (2, 2, 2)), "CCXPowGate": (cirq.CCXPowGate, ccx_pow, (2, 2, 2)),
    }
    out = {}
    for name, (cls, mat, shape) in fam.items():
        out[name] = dict(make=_eigen(cls), params={"e": _specials_e(), "s": _specials_s()}, matrix=(lambda e, s, mat=mat: mat(e)),
                         phase=eig_phase, qid_shape=shape)
    out["ZPowGate(dimension=3)"] = dict(make=_eigen(cirq.ZPowGate, dimension=3), params={"e": _specials_e(), "s": _specials_s()},
                                        matrix=lambda e, s: z_pow_qudit(e, 3), phase=eig_phase, qid_shape=(3,))
    return out


def _raw(cls, **fields):
    """build a gate object without running __init__ canonicalisation (symbolic parameters cannot be rounded mod 2*pi)"""
    g = cls.__new__(cls)
    for k, v in fields.items():
        object.__setattr__(g, k, v)
    return g


def other_families():
    import cirq

    angles = [0, np.pi, -np.pi, np.pi / 2, -np.pi / 2, np.pi / 4]
    return {
        "FSimGate": dict(make=lambda theta, phi: _raw(cirq.FSimGate, _theta=theta, _phi=phi), params={"theta": angles, "phi": angles},
                         matrix=fsim, phase=None, qid_shape=(2, 2)),
        "PhasedFSimGate": dict(make=lambda theta, zeta, chi, gamma, phi: _raw(cirq.PhasedFSimGate, _theta=theta, _zeta=zeta, _chi=chi, _gamma=gamma, _phi=phi),
                               params={"theta": angles, "zeta": [0, np.pi / 2], "chi": [0, np.pi / 2], "gamma": [0, np.pi / 2], "phi": [0, np.pi]},
                               matrix=phased_fsim, phase=None, qid_shape=(2, 2)),
        "PhasedXPowGate": dict(make=lambda p, t, s: _raw(cirq.PhasedXPowGate, _phase_exponent=p, _exponent=t, _global_shift=s, _canonical_exponent_cached=None),
                               params={"p": [0, Fraction(1, 4), Fraction(1, 2)], "t": [1, Fraction(1, 2), 0], "s": [0, Fraction(-1, 2)]},
                               matrix=lambda p, t, s: phased_x_pow(p, t), phase=lambda p, t, s: cis(PI * Angle.of(t) * Angle.of(s)), qid_shape=(2,)),
        "PhasedXZGate": dict(make=lambda x, z, a: cirq.PhasedXZGate(x_exponent=x, z_exponent=z, axis_phase_exponent=a),
                             params={"x": [Fraction(1, 2), Fraction(-1, 2), Fraction(3, 2), Fraction(-3, 2), Fraction(5, 2), Fraction(-5, 2), Fraction(7, 2), 1, 0, 2, Fraction(1, 4)],
                                     "z": [0, Fraction(1, 2)], "a": [0, Fraction(1, 4)]},
                             matrix=phased_xz, phase=None, qid_shape=(2,)),
        "PhasedISwapPowGate": dict(make=lambda p, t: _raw(cirq.PhasedISwapPowGate, _phase_exponent=p, _iswap=cirq.ISwapPowGate(exponent=t),
                                                           _exponent=t, _global_shift=0, _canonical_exponent_cached=None), params={"p": [0, Fraction(1, 4)], "t": [1, 0, Fraction(1, 2)]},
                                   matrix=phased_iswap, phase=None, qid_shape=(2, 2)),
    }
