"""C06 — bounded stand-in: every shipped transformer preserves the meaning of seeded circuits.  NOT counted as proved.

Meaning = unitary up to global phase for unitary circuits; otherwise the exact joint distribution of all measurement
records (branch enumeration in contracts/refsim.py) and the averaged final density matrix.  Also: the input circuit is
not modified, and operations carrying an ignored tag are left untouched."""
import random

import numpy as np

from contracts import refsim

F = "cirq-core/cirq/transformers"


def _gates(rng):
    import cirq

    e = rng.choice([0.25, 0.5, -0.5, 1.0, 0.37, 1.5])
    return [
        lambda q: cirq.X(q[0]) ** e, lambda q: cirq.Y(q[0]) ** e, lambda q: cirq.Z(q[0]) ** e, lambda q: cirq.H(q[0]),
        lambda q: cirq.PhasedXPowGate(phase_exponent=e, exponent=0.5)(q[0]), lambda q: cirq.S(q[0]), lambda q: cirq.T(q[0]),
        lambda q: cirq.PhasedXZGate(x_exponent=e, z_exponent=0.3, axis_phase_exponent=0.2)(q[0]),
        lambda q: cirq.CZ(q[0], q[1]) ** (1 if rng.random() < 0.6 else e), lambda q: cirq.CNOT(q[0], q[1]),
        lambda q: cirq.SWAP(q[0], q[1]), lambda q: cirq.ISWAP(q[0], q[1]) ** (1 if rng.random() < 0.5 else e),
        lambda q: cirq.FSimGate(np.pi / 2 if rng.random() < 0.5 else 0.4, 0.3)(q[0], q[1]), lambda q: cirq.ZZ(q[0], q[1]) ** e,
        lambda q: cirq.rz(0.7)(q[0]), lambda q: cirq.rx(0.3)(q[1]),
    ]


def _random_circuit(rng, n_qubits, depth, measurements, tagged=False):
    import cirq

    qs = cirq.LineQubit.range(n_qubits)
    moments_ops = []
    keys_used = []
    for d in range(depth):
        g = rng.choice(_gates(rng))
        perm = rng.sample(qs, 2) if n_qubits >= 2 else [qs[0], qs[0]]
        try:
            op = g(perm)
        except Exception:
            continue
        if n_qubits < 2 and len(op.qubits) > 1:
            continue
        if tagged and rng.random() < 0.25:
            op = op.with_tags("ignore")
        if measurements and rng.random() < 0.22:
            key = rng.choice(["a", "b"])
            mq = rng.sample(qs, rng.randrange(1, min(2, n_qubits) + 1))
            # a repeated key must keep its shape (Cirq rejects records of different widths under one key)
            prev = [len(o.qubits) for o in moments_ops if cirq.is_measurement(o) and cirq.measurement_key_name(o) == key]
            if prev and prev[0] != len(mq):
                mq = (mq + [x for x in qs if x not in mq])[: prev[0]]
            if not prev or len(mq) == prev[0]:
                mop = cirq.measure(*mq, key=key, invert_mask=(rng.random() < 0.3,))
                moments_ops.append(mop)
                keys_used.append(key)
        if measurements and n_qubits >= 1 and rng.random() < 0.08 and "p" not in keys_used:
            pq = rng.sample(qs, rng.randrange(1, min(2, n_qubits) + 1))
            moments_ops.append(cirq.measure_single_paulistring(cirq.PauliString({x: rng.choice([cirq.X, cirq.Y, cirq.Z]) for x in pq}), key="p"))
            keys_used.append("p")
        if measurements and keys_used and rng.random() < 0.2 and not cirq.is_measurement(op):
            op = op.with_classical_controls(rng.choice(keys_used))
        moments_ops.append(op)
    strategy = rng.choice([cirq.InsertStrategy.EARLIEST, cirq.InsertStrategy.NEW])
    return cirq.Circuit(moments_ops, strategy=strategy), qs


def _nodeep(ctx):
    """these transformers document that they refuse deep=True"""
    import dataclasses

    return dataclasses.replace(ctx, deep=False)


def _transformers():
    import cirq

    T = [
        ("drop_empty_moments", lambda c, ctx: cirq.drop_empty_moments(c, context=ctx)),
        ("drop_negligible_operations", lambda c, ctx: cirq.drop_negligible_operations(c, context=ctx, atol=1e-9)),
        ("eject_z", lambda c, ctx: cirq.eject_z(c, context=ctx)),
        ("eject_z(eject_parameterized)", lambda c, ctx: cirq.eject_z(c, context=ctx, eject_parameterized=True)),
        ("eject_phased_paulis", lambda c, ctx: cirq.eject_phased_paulis(c, context=ctx)),
        ("expand_composite", lambda c, ctx: cirq.expand_composite(c, context=ctx)),
        ("merge_single_qubit_gates_to_phased_x_and_z", lambda c, ctx: cirq.merge_single_qubit_gates_to_phased_x_and_z(c, context=ctx)),
        ("merge_single_qubit_gates_to_phxz", lambda c, ctx: cirq.merge_single_qubit_gates_to_phxz(c, context=ctx)),
        ("merge_single_qubit_moments_to_phxz", lambda c, ctx: cirq.merge_single_qubit_moments_to_phxz(c, context=ctx)),
        ("merge_k_qubit_unitaries(k=2)", lambda c, ctx: cirq.merge_k_qubit_unitaries(c, k=2, context=ctx)),
        ("merge_k_qubit_unitaries_to_circuit_op(k=2)", lambda c, ctx: cirq.merge_k_qubit_unitaries_to_circuit_op(c, k=2, tags_to_ignore=ctx.tags_to_ignore, deep=ctx.deep)),
        ("merge_operations_to_circuit_op(always)", lambda c, ctx: cirq.merge_operations_to_circuit_op(c, lambda *_: True, tags_to_ignore=ctx.tags_to_ignore, deep=ctx.deep)),
        ("merge_operations_to_circuit_op(<=2 qubits)", lambda c, ctx: cirq.merge_operations_to_circuit_op(
            c, lambda a, b: len({q for o in list(a) + list(b) for q in o.qubits}) <= 2, tags_to_ignore=ctx.tags_to_ignore, deep=ctx.deep)),
        ("synchronize_terminal_measurements", lambda c, ctx: cirq.synchronize_terminal_measurements(c, context=ctx)),
        ("align_left", lambda c, ctx: cirq.align_left(c, context=ctx)),
        ("align_right", lambda c, ctx: cirq.align_right(c, context=ctx)),
        ("stratified_circuit", lambda c, ctx: cirq.stratified_circuit(c, context=ctx, categories=[cirq.is_measurement, lambda op: len(op.qubits) == 1])),
        ("stratified_circuit(no categories)", lambda c, ctx: cirq.stratified_circuit(c, context=ctx, categories=[])),
        ("stratified_circuit(X, H)", lambda c, ctx: cirq.stratified_circuit(c, context=ctx, categories=[cirq.X, cirq.H])),
        ("stratified_circuit(two-qubit gates)", lambda c, ctx: cirq.stratified_circuit(c, context=ctx, categories=[lambda op: len(op.qubits) == 2])),
        ("optimize_for_target_gateset(CZ)", lambda c, ctx: cirq.optimize_for_target_gateset(c, context=ctx, gateset=cirq.CZTargetGateset())),
        ("optimize_for_target_gateset(sqrt_iswap)", lambda c, ctx: cirq.optimize_for_target_gateset(c, context=ctx, gateset=cirq.SqrtIswapTargetGateset())),
        ("insertion_sort_transformer", lambda c, ctx: cirq.transformers.insertion_sort_transformer(c, context=ctx)),
        ("drop_diagonal_before_measurement", lambda c, ctx: cirq.transformers.drop_diagonal_before_measurement(c, context=ctx)),
        ("merge_moments(disjoint qubits)", lambda c, ctx: cirq.merge_moments(
            c, lambda m1, m2: cirq.Moment(m1.operations + m2.operations) if m1.qubits.isdisjoint(m2.qubits) and not (cirq.measurement_key_objs(m1) | cirq.control_keys(m1)) & (cirq.measurement_key_objs(m2) | cirq.control_keys(m2)) else None,
            tags_to_ignore=ctx.tags_to_ignore, deep=ctx.deep)),
        ("add_dynamical_decoupling(XX_PAIR)", lambda c, ctx: cirq.add_dynamical_decoupling(c, context=_nodeep(ctx), schema="XX_PAIR")),
        ("add_dynamical_decoupling(X_XINV, all moments)", lambda c, ctx: cirq.add_dynamical_decoupling(c, context=_nodeep(ctx), schema="X_XINV", single_qubit_gate_moments_only=False)),
        ("add_dynamical_decoupling(YY_PAIR)", lambda c, ctx: cirq.add_dynamical_decoupling(c, context=_nodeep(ctx), schema="YY_PAIR")),
        ("CZGaugeTransformer", lambda c, ctx: cirq.transformers.CZGaugeTransformer(c, context=_nodeep(ctx), prng=np.random.default_rng(7))),
        ("ISWAPGaugeTransformer", lambda c, ctx: cirq.transformers.ISWAPGaugeTransformer(c, context=_nodeep(ctx), prng=np.random.default_rng(8))),
        ("SqrtCZGaugeTransformer", lambda c, ctx: cirq.transformers.SqrtCZGaugeTransformer(c, context=_nodeep(ctx), prng=np.random.default_rng(9))),
        ("SqrtISWAPGaugeTransformer", lambda c, ctx: cirq.transformers.SqrtISWAPGaugeTransformer(c, context=_nodeep(ctx), prng=np.random.default_rng(10))),
        ("SpinInversionGaugeTransformer", lambda c, ctx: cirq.transformers.SpinInversionGaugeTransformer(c, context=_nodeep(ctx), prng=np.random.default_rng(11))),
        ("CPhaseGaugeTransformer", lambda c, ctx: cirq.transformers.gauge_compiling.CPhaseGaugeTransformer(c, context=_nodeep(ctx), prng=np.random.default_rng(12))),
        ("IdleMomentsGauge(1, pauli, both ends)", lambda c, ctx: cirq.transformers.gauge_compiling.IdleMomentsGauge(1, gauges="pauli", gauge_beginning=True, gauge_ending=True)(c, context=_nodeep(ctx), rng_or_seed=13)),
        ("IdleMomentsGauge(2, clifford)", lambda c, ctx: cirq.transformers.gauge_compiling.IdleMomentsGauge(2, gauges="clifford")(c, context=_nodeep(ctx), rng_or_seed=14)),
        ("index_tags+remove_tags", lambda c, ctx: cirq.remove_tags(cirq.index_tags(c, context=ctx, target_tags={"ignore"}), context=ctx, remove_if=lambda t: False)),
        ("unroll_circuit_op(all)", lambda c, ctx: cirq.unroll_circuit_op(c, deep=ctx.deep, tags_to_check=None)),
        ("unroll_circuit_op_greedy_earliest(all)", lambda c, ctx: cirq.unroll_circuit_op_greedy_earliest(c, deep=ctx.deep, tags_to_check=None)),
        ("unroll_circuit_op_greedy_frontier(all)", lambda c, ctx: cirq.unroll_circuit_op_greedy_frontier(c, deep=ctx.deep, tags_to_check=None)),
        ("defer_measurements+dephase", None),
    ]
    return T


def _same_meaning(c_in, c_out, qs, has_measure):
    import cirq

    qs_out = sorted(set(qs) | c_out.all_qubits())
    if not has_measure:
        if any(not cirq.has_unitary(op) for op in c_out.all_operations()):
            return "output of a unitary circuit is not unitary"
        u_in = refsim.ref_unitary(c_in, qs_out)
        u_out = refsim.ref_unitary(cirq.unroll_circuit_op(c_out, deep=True, tags_to_check=None), qs_out)
        if not refsim.equal_up_to_global_phase(u_in, u_out, atol=1e-6):
            return "unitary differs (not a global phase)"
        return None
    flat = cirq.unroll_circuit_op(c_out, deep=True, tags_to_check=None)
    try:
        d_in = refsim.ref_distribution(c_in, qs_out)
    except refsim.ControlBeforeMeasurement:
        raise NotImplementedError("generated input is not a valid program")
    try:
        d_out = refsim.ref_distribution(flat, qs_out)
    except refsim.ControlBeforeMeasurement as ex:
        return f"output circuit is not a valid program: {ex}"
    if not refsim.dist_close(d_in, d_out):
        only = [k for k in set(d_in) | set(d_out) if abs(d_in.get(k, 0) - d_out.get(k, 0)) > 1e-6][:2]
        return f"joint distribution of measurement records differs, e.g. {[(k, round(d_in.get(k, 0), 4), round(d_out.get(k, 0), 4)) for k in only]}"
    if not np.allclose(refsim.ref_density(c_in, qs_out), refsim.ref_density(flat, qs_out), atol=1e-6):
        return "averaged final state differs"
    return None


def standin_transformers(tier, seed, only=None, n=None):
    import cirq

    rng = random.Random(seed)
    n = n or (25 if tier == "quick" else 400)
    cases, distinct = 0, set()
    sigs = {}

    class _Fails(list):
        """keeps one failure per signature (transformer family, failure class) so that one recurring (possibly known)
        failure cannot mask a different one"""

        def append(self, info):
            fam = info["args"]["transformer"].split("(")[0]
            sig = (fam, info["failed"], info["clause"].split(":")[1][:40] if ":" in info["clause"] else "")
            if sig not in sigs:
                sigs[sig] = info
                list.append(self, info)

    fails = _Fails()
    for i in range(n):
        has_measure = rng.random() < 0.45
        tagged = rng.random() < 0.3
        c, qs = _random_circuit(rng, rng.choice([2, 3, 3, 4]), rng.randrange(2, 9), has_measure, tagged)
        if has_measure and not any(cirq.is_measurement(op) for op in c.all_operations()):
            has_measure = False
        ctx = cirq.TransformerContext(tags_to_ignore=("ignore",) if tagged else (), deep=rng.random() < 0.2)
        snapshot = c.copy()
        for name, tf in _transformers():
            if tf is None or (only and only not in name):
                continue
            if has_measure and ("optimize_for_target_gateset" in name or "eject_phased" in name and False):
                pass
            try:
                out = tf(c, ctx)
            except Exception as ex:
                # a transformer refusing a circuit is not a wrong answer; only record crashes on plain unitary circuits
                if not has_measure and not tagged:
                    fails.append(dict(args=dict(transformer=name, circuit=repr(c)), failed="transformer-raised", clause=f"{name} raised {ex!r}"))
                continue
            cases += 1
            distinct.add((name, repr(c)))
            if c != snapshot:
                fails.append(dict(args=dict(transformer=name, circuit=repr(snapshot)), failed="input-mutated", clause=f"{name} modified its input circuit"))
                c = snapshot.copy()
                continue
            if tagged:
                kept_in = [op for op in c.all_operations() if "ignore" in op.tags]
                kept_out = [op for op in cirq.unroll_circuit_op(out, deep=True, tags_to_check=None).all_operations() if "ignore" in op.tags]
                if sorted(map(repr, kept_in)) != sorted(map(repr, kept_out)):
                    fails.append(dict(args=dict(transformer=name, circuit=repr(c)), failed="ignored-tag-touched",
                                      clause=f"{name} changed operations tagged to be ignored"))
                    continue
            try:
                err = _same_meaning(c, out, qs, has_measure)
            except NotImplementedError:
                continue
            if err:
                fails.append(dict(args=dict(transformer=name, circuit=repr(c), context=repr(ctx)), failed="meaning-changed",
                                  clause=f"{name}: {err}"))
            if len(fails) >= 6:
                break
        if len(fails) >= 6:
            break
    return dict(function=F + "/*[shipped transformers]", case="equivalence",
                bound=f"{n} seeded circuits (2-4 qubits, <= 8 ops from 16 gate families incl. swap-like gates, repeated measurement keys "
                      "'a'/'b', invert masks, classical controls, ignored tags) x 19 transformer configurations",
                cases=cases, distinct=len(distinct), failures=len(fails), exhaustive=False, _fails=list(fails))
standin_transformers.prop = "C06"
STANDINS = [standin_transformers]


def standin_eject_scenarios(tier, seed):
    """Structured scenarios for the phase-tracking transformers: Z phases / Paulis meeting swap-like gates, PhasedXZ gates,
    parameter-free exponents; exhaustive over a small template space (2-3 qubits)."""
    import itertools
    import cirq

    a, b, c = cirq.LineQubit.range(3)
    pre = {"none": [], "Za": [cirq.Z(a) ** 0.3], "Zb": [cirq.Z(b) ** 0.7], "Zab": [cirq.Z(a) ** 0.3, cirq.S(b)], "Xa": [cirq.X(a)], "Yb": [cirq.Y(b) ** 0.5]}
    mid = {"none": [], "PhXZa": [cirq.PhasedXZGate(x_exponent=0.3, z_exponent=0.1, axis_phase_exponent=0.2)(a)],
           "PhXZb": [cirq.PhasedXZGate(x_exponent=0.5, z_exponent=0.4, axis_phase_exponent=0.7)(b)],
           "PhXa": [cirq.PhasedXPowGate(phase_exponent=0.2, exponent=0.4)(a)], "Hb": [cirq.H(b)]}
    two = {"SWAP": cirq.SWAP(a, b), "ISWAP": cirq.ISWAP(a, b), "ISWAPinv": cirq.ISWAP(a, b) ** -1, "FSimSwap": cirq.FSimGate(np.pi / 2, 0.3)(a, b),
           "CZ": cirq.CZ(a, b), "CNOT": cirq.CNOT(a, b), "sqrtISWAP": cirq.ISWAP(a, b) ** 0.5, "SWAPba": cirq.SWAP(b, a), "CZbc": cirq.CZ(b, c)}
    post = {"none": [], "Xb": [cirq.X(b) ** 0.25], "Za": [cirq.Z(a) ** 0.5], "Mab": [cirq.measure(a, b, key="m")], "PhXZb": [cirq.PhasedXZGate(x_exponent=0.2, z_exponent=0.3, axis_phase_exponent=0.1)(b)]}
    tfs = [t for t in _transformers() if t[1] is not None and any(k in t[0] for k in ("eject", "merge_single", "phxz", "align", "stratified", "synchronize"))]
    cases, fails, distinct = 0, [], set()
    ctx = cirq.TransformerContext()
    for (p, P), (m, Mq), (t, T), (q, Q) in itertools.product(pre.items(), mid.items(), two.items(), post.items()):
        circ = cirq.Circuit(P + Mq, T, Q)
        qs = [a, b, c]
        has_measure = q == "Mab"
        for name, tf in tfs:
            try:
                out = tf(circ, ctx)
            except Exception:
                continue
            cases += 1
            distinct.add((name, p, m, t, q))
            err = _same_meaning(circ, out, qs, has_measure)
            if err:
                fails.append(dict(args=dict(transformer=name, circuit=repr(circ), scenario=f"pre={p} mid={m} two={t} post={q}"),
                                  failed="meaning-changed", clause=f"{name}: {err}"))
                if len(fails) >= 3:
                    break
        if len(fails) >= 3:
            break
    return dict(function=F + "/*[phase-tracking transformers, structured scenarios]", case="scenarios",
                bound="exhaustive product of 6 pre x 5 mid x 9 two-qubit (incl. swap-like) x 5 post templates on 3 qubits, x 9 transformer configurations",
                cases=cases, distinct=len(distinct), failures=len(fails), exhaustive=True, _fails=fails[:3])
standin_eject_scenarios.prop = "C06"


def standin_pauli_sequences(tier, seed):
    """every sequence of 2-3 (thorough: 4) one-qubit operations from an alphabet of Paulis, their roots and phased rotations (axes at phase exponent 0, 1/4, 1/2, 1), alone
    and with a CZ inserted at each position, through the phase-tracking / merging transformers: the unitary is unchanged up to global phase"""
    import itertools
    import cirq

    a, b = cirq.LineQubit.range(2)
    alpha = [cirq.X(a), cirq.Y(a), cirq.Z(a), cirq.X(a) ** 0.5, cirq.Y(a) ** 0.5, cirq.X(a) ** -0.5, cirq.Y(a) ** 0.25, cirq.Z(a) ** 0.5, cirq.H(a),
             cirq.PhasedXPowGate(phase_exponent=1, exponent=0.3)(a), cirq.PhasedXPowGate(phase_exponent=0.25, exponent=0.5)(a), cirq.PhasedXPowGate(phase_exponent=0.5)(a),
             cirq.PhasedXPowGate(phase_exponent=-0.5, exponent=0.7)(a), cirq.rx(0.7)(a), cirq.ry(np.pi)(a)]
    tfs = [t for t in _transformers() if t[1] is not None and any(k in t[0] for k in ("eject", "merge_single", "phxz", "drop_negligible", "merge_k_qubit_unitaries(k=2)"))]
    ctx = cirq.TransformerContext()
    cases, fails = 0, []
    L = 3 if tier == "quick" else 4
    rng = random.Random(seed + 37)
    for n in range(2, L + 1):
        seqs = list(itertools.product(alpha, repeat=n))
        if n == 4:
            seqs = rng.sample(seqs, 6000)
        if n == 3 and tier == "quick":
            seqs = rng.sample(seqs, 700)
        for seq in seqs:
            variants = [list(seq)]
            if n <= 3:
                variants += [list(seq[:k]) + [cirq.CZ(a, b)] + list(seq[k:]) for k in range(1, n)]
            for ops_ in variants:
                circ = cirq.Circuit(ops_)
                want = circ.unitary(qubit_order=[a, b], qubits_that_should_be_present=[a, b])
                for name, tf in tfs:
                    try:
                        out = tf(circ, ctx)
                    except Exception:
                        continue
                    cases += 1
                    got = out.unitary(qubit_order=[a, b], qubits_that_should_be_present=[a, b])
                    if not cirq.allclose_up_to_global_phase(got, want, atol=1e-6):
                        fails.append(dict(args=dict(transformer=name, circuit=repr(circ)), failed="meaning-changed", clause=f"{name}: unitary changed (beyond global phase)"))
            if len({f["args"]["transformer"] for f in fails}) >= 3:
                break
    seen, uniq = set(), []
    for f in fails:
        if f["args"]["transformer"] not in seen:
            seen.add(f["args"]["transformer"])
            uniq.append(f)
    return dict(function=F + "/*[phase-tracking transformers, one-qubit sequences]", case="pauli-sequences",
                bound=f"every sequence of 2..{L} operations from a 15-operation one-qubit alphabet (length 4 sampled), with a CZ at each inner position, x {len(tfs)} transformer configurations",
                cases=cases, distinct=cases, failures=len(fails), exhaustive=False, _fails=uniq[:3])
standin_pauli_sequences.prop = "C06"
STANDINS.append(standin_pauli_sequences)


def standin_qudit_circuits(tier, seed):
    """circuits on qutrits (shift / clock powers, a matrix gate, a controlled qubit gate with a qutrit control) through every transformer: a
    transformer may refuse them, but what it returns must mean the same (unitary up to global phase / exact record distribution)"""
    import cirq
    from contracts import refsim

    rng = random.Random(seed + 43)
    cases, fails = 0, []
    t0, t1 = cirq.LineQid(0, dimension=3), cirq.LineQid(1, dimension=3)
    b = cirq.LineQubit(2)
    X3, Z3 = cirq.XPowGate(dimension=3), cirq.ZPowGate(dimension=3)
    F3 = cirq.MatrixGate(np.array([[1, 1, 1], [1, np.exp(2j * np.pi / 3), np.exp(4j * np.pi / 3)], [1, np.exp(4j * np.pi / 3), np.exp(2j * np.pi / 3)]]) / np.sqrt(3), qid_shape=(3,))
    pool = [X3(t0), X3(t0) ** 2, Z3(t0), Z3(t0) ** 2, X3(t1), Z3(t1) ** 0.5, F3(t0), F3(t1), cirq.X(b), cirq.Z(b) ** 0.5, cirq.H(b), cirq.X(b).controlled_by(t0, control_values=[2]), cirq.Z(b).controlled_by(t1, control_values=[1])]
    ctx = cirq.TransformerContext()
    for it in range(25 if tier == "quick" else 300):
        ops_ = [rng.choice(pool) for _ in range(rng.randrange(2, 6))]
        measured = rng.random() < 0.5
        circ = cirq.Circuit(ops_ + ([cirq.measure(t0, key="m"), cirq.measure(b, key="k")] if measured else []))
        qs = [t0, t1, b]
        for name, tf in _transformers():
            if tf is None:
                continue
            try:
                out = tf(circ, ctx)
            except Exception:
                continue
            cases += 1
            try:
                if measured:
                    ok = refsim.dist_close(refsim.ref_distribution(out, qs), refsim.ref_distribution(circ, qs), atol=1e-6)
                else:
                    flat = cirq.Circuit(cirq.decompose(out, keep=lambda op: not isinstance(op.untagged, cirq.CircuitOperation)))
                    ok = cirq.allclose_up_to_global_phase(refsim.ref_unitary(flat, qs), refsim.ref_unitary(circ, qs), atol=1e-6)
            except Exception:
                continue
            if not ok:
                fails.append(dict(args=dict(transformer=name, circuit=repr(circ)), failed="meaning-changed", clause=f"{name} changed the meaning of a circuit on qutrits"))
        if len({f["args"]["transformer"] for f in fails}) >= 3:
            break
    # mid-circuit measurements of qudits (inverted or not) feeding a classical control: deferring them keeps the record distribution
    for it in range(12 if tier == "quick" else 150):
        pre = [rng.choice([X3(t0), X3(t0) ** 2, F3(t0), Z3(t0)]) for _ in range(rng.randrange(1, 3))]
        mask = rng.choice([(), (True,), (False,)])
        mid = cirq.measure(t0, key="m", invert_mask=mask) if rng.random() < 0.7 else cirq.measure(t0, b, key="m", invert_mask=rng.choice([(True, True), (False, True), (True,)]))
        circ = cirq.Circuit(cirq.H(b) if rng.random() < 0.5 else [], pre, mid, cirq.X(b).with_classical_controls("m"), rng.choice(pool[:8]), cirq.measure(b, key="k"), strategy=cirq.InsertStrategy.NEW)
        cases += 1
        try:
            out = cirq.defer_measurements(circ)
        except Exception as ex:
            fails.append(dict(args=dict(transformer="defer_measurements", circuit=repr(circ)), failed="raised-on-qudits", clause=f"defer_measurements raised {type(ex).__name__}: {ex} on a circuit with a mid-circuit qudit measurement"))
            continue
        try:
            d_in = refsim.ref_distribution(circ, sorted(circ.all_qubits()))
            d_out = refsim.ref_distribution(out, sorted(out.all_qubits(), key=repr))
        except (NotImplementedError, RuntimeError):
            continue
        if not refsim.dist_close(d_in, d_out, atol=1e-6):
            fails.append(dict(args=dict(transformer="defer_measurements", circuit=repr(circ)), failed="meaning-changed", clause="defer_measurements changed the joint distribution of the records of a circuit on qutrits"))
    # a key measured more than once (one instance mid-circuit and read by a control, one terminal; equal or different measurement operations; the
    # terminal one before or after the deferred one in time): the records of the key come out in the order they were made (deterministic circuits)
    qa, qb = cirq.LineQubit.range(2)
    repeated = {
        "deferred, then a terminal inverted measurement of the same key": cirq.Circuit(cirq.measure(qa, key="a"), cirq.X(qb).with_classical_controls("a"), cirq.measure(qa, key="a", invert_mask=(True,)), cirq.measure(qb, key="b")),
        "deferred, then an EQUAL terminal measurement": cirq.Circuit(cirq.measure(qa, key="a"), cirq.X(qb).with_classical_controls("a"), cirq.X(qa), cirq.measure(qa, key="a"), cirq.measure(qb, key="b")),
        "terminal measurement first, a non-terminal one of the same key later": cirq.Circuit(cirq.X(qa), cirq.measure(qa, key="a"), cirq.measure(qb, key="a"), cirq.X(qb)),
        "two deferred and one terminal": cirq.Circuit(cirq.X(qa), cirq.measure(qa, key="a"), cirq.X(qb).with_classical_controls("a"), cirq.measure(qb, key="a"), cirq.X(qa).with_classical_controls("a"), cirq.measure(qa, key="a")),
    }
    # readout confusion given for a pair of the measured qubits in DESCENDING order (a deterministic, asymmetric map), read by a control: deferred
    qc = cirq.LineQubit(2)
    perm_map = np.eye(4)[[2, 0, 3, 1]]                      # (first named, second named) digits: 00->10, 01->00, 10->11, 11->01
    for key_ in ((1, 0), (0, 1)):
        for prep_ in ([], [cirq.X(qa)], [cirq.X(qb)], [cirq.X(qa), cirq.X(qb)]):
            repeated[f"confusion map on indices {key_}, prepared {[str(o) for o in prep_]}"] = cirq.Circuit(
                prep_, cirq.measure(qa, qb, key="a", confusion_map={key_: perm_map}), cirq.X(qc).with_classical_controls(cirq.BitMaskKeyCondition("a", bitmask=1)), cirq.measure(qc, key="b"))
    for rname, circ in repeated.items():
        cases += 1
        try:
            out = cirq.defer_measurements(circ)
            want = {k: v.tolist() for k, v in cirq.Simulator(seed=1).run(circ, repetitions=2).records.items()}
            got = {k: v.tolist() for k, v in cirq.Simulator(seed=1).run(out, repetitions=2).records.items()}
        except Exception as ex:
            fails.append(dict(args=dict(transformer="defer_measurements[repeated keys]", scenario=rname, circuit=repr(circ)), failed="raised-on-repeated-key", clause=f"defer_measurements raised {type(ex).__name__}: {ex}"))
            continue
        if got != want:
            fails.append(dict(args=dict(transformer="defer_measurements[repeated keys]", scenario=rname, circuit=repr(circ), output=repr(out)[:1200]), failed="meaning-changed", clause=f"defer_measurements changed the records of a repeated key: {want} became {got}"))
    seen, uniq = set(), []
    for f in fails:
        if f["args"]["transformer"] not in seen:
            seen.add(f["args"]["transformer"])
            uniq.append(f)
    return dict(function=F + "/*[shipped transformers on qudit circuits]", case="qudit-circuits",
                bound="seeded circuits of 2-5 operations on two qutrits and a qubit (shift / clock powers, Fourier matrix gate, qutrit-controlled qubit gates), with and without measurements, x all transformer configurations; deferred mid-circuit qudit measurements (inverted, joint with a qubit) feeding classical controls",
                cases=cases, distinct=cases, failures=len(fails), exhaustive=False, _fails=uniq[:3])
standin_qudit_circuits.prop = "C06"
STANDINS.append(standin_qudit_circuits)
STANDINS.append(standin_eject_scenarios)


def standin_reorder_scenarios(tier, seed):
    """Transformers that move operations (insertion sort, align, stratify, synchronize, merge primitives): every sequence of up
    to 3 (quick) / 4 (thorough) operations from an alphabet with asymmetric gates in BOTH orientations, symmetric gates, and
    single-qubit gates that commute with one side only; unitary compared up to global phase."""
    import itertools
    import cirq

    a, b, c = cirq.LineQubit.range(3)
    alphabet = [cirq.X(b), cirq.Z(a), cirq.X(a) ** 0.5, cirq.CNOT(a, b), cirq.CNOT(b, a), cirq.CZ(a, b), cirq.CNOT(b, c), cirq.CNOT(c, b), cirq.ISWAP(a, c) ** 0.5, cirq.Z(b) ** 0.25]
    tfs = [t for t in _transformers() if t[1] is not None and any(k in t[0] for k in ("insertion_sort", "align", "stratified", "synchronize", "merge_operations_to_circuit_op", "merge_moments", "merge_k_qubit_unitaries(k=2)", "drop_empty"))]
    cases, fails, distinct = 0, [], set()
    ctx = cirq.TransformerContext()
    L = 3 if tier == "quick" else 4
    for n in range(2, L + 1):
        for seq in itertools.product(alphabet, repeat=n):
            circ = cirq.Circuit(seq, strategy=cirq.InsertStrategy.NEW)
            want = circ.unitary(qubit_order=[a, b, c], qubits_that_should_be_present=[a, b, c])
            for name, tf in tfs:
                try:
                    out = tf(circ, ctx)
                except Exception:
                    continue
                cases += 1
                got = cirq.unitary(cirq.Circuit(cirq.decompose(out, keep=lambda op: not isinstance(op.untagged, cirq.CircuitOperation))).unitary(qubit_order=[a, b, c], qubits_that_should_be_present=[a, b, c]))
                if not cirq.allclose_up_to_global_phase(got, want, atol=1e-6):
                    fails.append(dict(args=dict(transformer=name, circuit=repr(circ)), failed="meaning-changed", clause=f"{name}: unitary changed (beyond global phase) by reordering"))
            if len({f["args"]["transformer"] for f in fails}) >= 3:
                break
    seen, uniq = set(), []
    for f in fails:
        if f["args"]["transformer"] not in seen:
            seen.add(f["args"]["transformer"])
            uniq.append(f)
    return dict(function=F + "/*[operation-moving transformers, exhaustive short sequences]", case="reorder-scenarios",
                bound=f"every sequence of 2..{L} operations from a 10-operation alphabet on 3 qubits (both CNOT orientations on two pairs) x {len(tfs)} transformer configurations",
                cases=cases, distinct=cases, failures=len(fails), exhaustive=True, _fails=uniq[:3])
standin_reorder_scenarios.prop = "C06"
STANDINS.append(standin_reorder_scenarios)


def standin_reorder_tagged(tier, seed):
    """the operation-moving transformers with tags_to_ignore: sequences over the same alphabet packed into shared moments (EARLIEST) or
    one per moment, every non-empty subset of up to 3 operations tagged; the unitary is unchanged and every tagged operation survives"""
    import itertools
    import cirq

    rng = random.Random(seed + 23)
    a, b, c = cirq.LineQubit.range(3)
    alphabet = [cirq.X(b), cirq.Z(a), cirq.X(a) ** 0.5, cirq.CNOT(a, b), cirq.CNOT(b, a), cirq.CZ(a, b), cirq.CNOT(b, c), cirq.CNOT(c, b), cirq.ISWAP(a, c) ** 0.5, cirq.Z(b) ** 0.25, cirq.T(c), cirq.H(c), cirq.H(a)]
    tfs = [t for t in _transformers() if t[1] is not None and any(k in t[0] for k in ("insertion_sort", "align", "stratified", "synchronize", "merge_operations_to_circuit_op", "merge_moments", "merge_k_qubit_unitaries",
                                                                                      "merge_single_qubit", "eject", "drop_negligible", "drop_empty"))]
    ctx = cirq.TransformerContext(tags_to_ignore=("ignore",))
    cases, fails = 0, []
    seqs = list(itertools.product(alphabet, repeat=3))
    rng.shuffle(seqs)
    seqs = seqs[:(60 if tier == "quick" else 700)] + [tuple(rng.choice(alphabet) for _ in range(rng.randrange(4, 7))) for _ in range(60 if tier == "quick" else 600)]
    for seq in seqs:
        n = len(seq)
        masks = [m for m in itertools.product((False, True), repeat=n) if 1 <= sum(m) <= 3]
        for mask in rng.sample(masks, min(len(masks), 3)):
            ops = [o.with_tags("ignore") if t else o for o, t in zip(seq, mask)]
            def loose(ops_):
                # a packing with slack: an operation joins the last moment when its qubits are free there (coin flip), else opens a new one
                ms = []
                for o in ops_:
                    if ms and rng.random() < 0.6 and not any(set(o.qubits) & set(x.qubits) for x in ms[-1]):
                        ms[-1].append(o)
                    else:
                        ms.append([o])
                return cirq.Circuit(cirq.Moment(m) for m in ms)

            for circ in (cirq.Circuit(ops, strategy=cirq.InsertStrategy.EARLIEST), cirq.Circuit(ops, strategy=cirq.InsertStrategy.NEW), loose(ops), loose(ops)):
                want = circ.unitary(qubit_order=[a, b, c], qubits_that_should_be_present=[a, b, c])
                kept_in = sorted(repr(o) for o in circ.all_operations() if "ignore" in o.tags)
                for name, tf in tfs:
                    try:
                        out = tf(circ, ctx)
                    except Exception:
                        continue
                    cases += 1
                    flat = cirq.Circuit(cirq.decompose(out, keep=lambda op: not isinstance(op.untagged, cirq.CircuitOperation)))
                    got = flat.unitary(qubit_order=[a, b, c], qubits_that_should_be_present=[a, b, c])
                    if not cirq.allclose_up_to_global_phase(got, want, atol=1e-6):
                        fails.append(dict(args=dict(transformer=name, circuit=repr(circ), context=repr(ctx)), failed="meaning-changed", clause=f"{name} with tags_to_ignore: unitary changed (beyond global phase)"))
                    elif sorted(repr(o) for o in flat.all_operations() if "ignore" in o.tags) != kept_in:
                        fails.append(dict(args=dict(transformer=name, circuit=repr(circ), context=repr(ctx)), failed="ignored-tag-touched", clause=f"{name}: operations tagged to be ignored were changed or lost"))
        if len({f["args"]["transformer"] for f in fails}) >= 3:
            break
    # moment-wise generated circuits: every moment draws, per free qubit, nothing / a one-qubit gate / a tagged one-qubit gate (plus the
    # odd two-qubit gate), so that tagged operations share moments with operations of different depth
    one_q = [cirq.X, cirq.H, cirq.T, cirq.S, cirq.X ** 0.5, cirq.Y ** 0.25]
    for _ in range(250 if tier == "quick" else 3000):
        moments = []
        for _m in range(rng.randrange(3, 7)):
            mops, free = [], rng.sample([a, b, c], 3)
            if rng.random() < 0.25:
                mops.append((cirq.CZ ** 0.5)(free.pop(), free.pop()))
            for q_ in free:
                r = rng.random()
                if r < 0.3:
                    continue
                op = rng.choice(one_q)(q_)
                mops.append(op.with_tags("ignore") if r > 0.7 else op)
            moments.append(cirq.Moment(mops))
        circ = cirq.Circuit(moments)
        want = circ.unitary(qubit_order=[a, b, c], qubits_that_should_be_present=[a, b, c])
        kept_in = sorted(repr(o) for o in circ.all_operations() if "ignore" in o.tags)
        for name, tf in tfs:
            try:
                out = tf(circ, ctx)
            except Exception:
                continue
            cases += 1
            flat = cirq.Circuit(cirq.decompose(out, keep=lambda op: not isinstance(op.untagged, cirq.CircuitOperation)))
            got = flat.unitary(qubit_order=[a, b, c], qubits_that_should_be_present=[a, b, c])
            if not cirq.allclose_up_to_global_phase(got, want, atol=1e-6):
                fails.append(dict(args=dict(transformer=name, circuit=repr(circ), context=repr(ctx)), failed="meaning-changed", clause=f"{name} with tags_to_ignore: unitary changed (beyond global phase)"))
            elif sorted(repr(o) for o in flat.all_operations() if "ignore" in o.tags) != kept_in:
                fails.append(dict(args=dict(transformer=name, circuit=repr(circ), context=repr(ctx)), failed="ignored-tag-touched", clause=f"{name}: operations tagged to be ignored were changed or lost"))
        if len({f["args"]["transformer"] for f in fails}) >= 3:
            break
    seen, uniq = set(), []
    for f in fails:
        if (f["args"]["transformer"], f["failed"]) not in seen:
            seen.add((f["args"]["transformer"], f["failed"]))
            uniq.append(f)
    return dict(function=F + "/*[operation-moving transformers with tags_to_ignore]", case="reorder-tagged",
                bound=f"{len(seqs)} sequences of 3-6 operations from a 13-operation alphabet on 3 qubits x 3 tag subsets x 4 packings (earliest, one per moment, two with slack) + moment-wise generated circuits of 3-6 moments x {len(tfs)} transformer configurations",
                cases=cases, distinct=cases, failures=len(fails), exhaustive=False, _fails=uniq[:3])
standin_reorder_tagged.prop = "C06"
STANDINS.append(standin_reorder_tagged)


def standin_symbolized_merge(tier, seed):
    """merge_single_qubit_gates_to_phxz_symbolized returns a circuit AND a sweep: for every point, the new circuit at the new point has the
    unitary of the old circuit at the old point (up to global phase)"""
    import cirq
    import sympy

    rng = random.Random(seed + 29)
    cases, fails = 0, []
    a, b, c = sympy.symbols("a b c")
    q = cirq.LineQubit.range(3)
    fixed = [cirq.Circuit(cirq.X(q[0]) ** a, cirq.CZ(q[0], q[1]) ** a, cirq.Y(q[1]) ** 0.5)]  # the recorded shared-symbol input, always tried
    for it in range(30 if tier == "quick" else 300):
        shared = rng.random() < 0.4
        ops_ = []
        for _ in range(rng.randrange(2, 7) if it >= len(fixed) else 0):
            r = rng.random()
            if r < 0.55:
                e = rng.choice([a, b, 0.5, 0.25, a + b])
                ops_.append(rng.choice([cirq.X, cirq.Y, cirq.Z, cirq.H])(rng.choice(q)) ** e)
            else:
                e = rng.choice([c, 0.5, 1.0] + ([a] if shared else []))
                ops_.append(rng.choice([cirq.CZ, cirq.ISWAP, cirq.ZZ])(*rng.sample(q, 2)) ** e)
        circ = cirq.Circuit(ops_) if it >= len(fixed) else fixed[it]
        syms = sorted(cirq.parameter_names(circ))
        if not syms:
            continue
        npts = rng.choice([1, 2, 3]) if it >= len(fixed) else 2
        sweep = cirq.Zip(*[cirq.Points(n_, [rng.choice([0.25, 0.75, -0.5, 1.0, 0.1]) for _ in range(npts)]) for n_ in syms]) if it >= len(fixed) else cirq.Points("a", [0.25, 0.75])
        one_q = set().union(*[cirq.parameter_names(o) for o in circ.all_operations() if len(o.qubits) == 1] or [set()])
        multi_q = set().union(*[cirq.parameter_names(o) for o in circ.all_operations() if len(o.qubits) > 1] or [set()])
        is_shared = bool(one_q & multi_q)
        cases += 1
        try:
            nc, ns = cirq.merge_single_qubit_gates_to_phxz_symbolized(circ, sweep=sweep)
        except Exception as ex:
            continue  # a refusal (e.g. structures that differ between points) is not a wrong answer
        olds, news = list(cirq.to_resolvers(sweep)), list(cirq.to_resolvers(ns))
        if len(olds) != len(news):
            fails.append(dict(args=dict(circuit=repr(circ), sweep=repr(sweep)), failed="symbolized-merge-sweep-length", clause=f"the new sweep has {len(news)} points, the old one {len(olds)}"))
            continue
        for k, (po, pn) in enumerate(zip(olds, news)):
            try:
                u1 = cirq.resolve_parameters(circ, po).unitary(qubit_order=q, qubits_that_should_be_present=q)
                u2 = cirq.resolve_parameters(nc, pn).unitary(qubit_order=q, qubits_that_should_be_present=q)
            except Exception as ex:
                fails.append(dict(args=dict(circuit=repr(circ), sweep=repr(sweep), point=k, symbol_shared_with_a_multi_qubit_gate=is_shared), failed="symbolized-merge-unresolved",
                                  clause=f"the new circuit at the new point cannot be evaluated: {type(ex).__name__}: {str(ex)[:120]}"))
                break
            if not cirq.allclose_up_to_global_phase(u1, u2, atol=1e-6):
                fails.append(dict(args=dict(circuit=repr(circ), sweep=repr(sweep), point=k, symbol_shared_with_a_multi_qubit_gate=is_shared),
                                  failed="symbolized-merge-shared-symbol" if is_shared else "symbolized-merge",
                                  clause=f"point {k}: the new circuit at the new point differs from the old circuit at the old point (beyond global phase)"
                                         + ("; a symbol of a one-qubit gate also appears in a multi-qubit gate" if is_shared else "")))
                break
    seen, uniq = set(), []
    for f in fails:
        if f["failed"] not in seen:
            seen.add(f["failed"])
            uniq.append(f)
    return dict(function=F + "/merge_single_qubit_gates.py:merge_single_qubit_gates_to_phxz_symbolized", case="symbolized-merge",
                bound="seeded 3-qubit circuits of 2-6 parameterized one- and two-qubit gates x zipped sweeps of 1-3 points; symbols of one-qubit gates sometimes shared with two-qubit gates",
                cases=cases, distinct=cases, failures=len(fails), exhaustive=False, _fails=uniq[:3])
standin_symbolized_merge.prop = "C06"
STANDINS.append(standin_symbolized_merge)



def standin_parameterized_circuits(tier, seed):
    """every transformer on circuits that still hold symbols (incl. symbolic powers of swap-like, controlled-phase and Ising gates):
    no crash, and resolving the output equals resolving the input, for several assignments"""
    import cirq
    import sympy

    rng = random.Random(seed + 5)
    a, b = sympy.symbols("a b")
    qs = cirq.LineQubit.range(3)
    cases, fails = 0, []

    def gen():
        ops = []
        for _ in range(rng.randrange(2, 7)):
            x, y = rng.sample(qs, 2)
            e = rng.choice([a, b, a + 0.5, 2 * b, 0.3, 1])
            ops.append(rng.choice([
                cirq.ISWAP(x, y) ** e, cirq.SWAP(x, y) ** e, cirq.FSimGate(e if isinstance(e, sympy.Basic) else 0.4, 0.2)(x, y), cirq.CZ(x, y) ** e, cirq.Z(x) ** e, cirq.X(x) ** e,
                cirq.PhasedXPowGate(phase_exponent=e, exponent=0.5)(x), cirq.Y(x) ** 0.25, cirq.H(x), cirq.XX(x, y) ** e, cirq.CNOT(x, y) ** e, cirq.rz(e)(x),
                cirq.PhasedXZGate(x_exponent=e, z_exponent=0.2, axis_phase_exponent=0.1)(x)]))
        return cirq.Circuit(ops)

    T = [(n, f) for n, f in _transformers() if f is not None]
    for _ in range(12 if tier == "quick" else 150):
        c = gen()
        if not cirq.is_parameterized(c):
            continue
        for name, f in T:
            cases += 1
            try:
                out = f(c, cirq.TransformerContext())
            except Exception as ex:
                fails.append(dict(args=dict(transformer=name, circuit=repr(c)), failed="raised-on-parameterized", clause=f"{name} raised {type(ex).__name__}: {ex} on a circuit with symbols"))
                continue
            for v in ({"a": 0.37, "b": -0.6}, {"a": 1.0, "b": 0.5}, {"a": 0.0, "b": 2.0}):
                u1 = refsim.ref_unitary(cirq.resolve_parameters(c, v), qs)
                try:
                    u2 = refsim.ref_unitary(cirq.unroll_circuit_op(cirq.resolve_parameters(out, v), deep=True, tags_to_check=None), qs)
                except Exception as ex:
                    fails.append(dict(args=dict(transformer=name, circuit=repr(c), values=v), failed="output-not-resolvable", clause=f"the output of {name} cannot be resolved / evaluated: {ex!r}"))
                    break
                if not refsim.equal_up_to_global_phase(u1, u2, atol=1e-6):
                    fails.append(dict(args=dict(transformer=name, circuit=repr(c), values=v, output=repr(out)[:1500]), failed="parameterized-meaning", clause=f"{name}: resolving the output at {v} differs from resolving the input (beyond a global phase)"))
                    break
        seen, uniq = set(), []
        for f_ in fails:
            k = (f_["failed"], f_["args"]["transformer"])
            if k not in seen:
                seen.add(k)
                uniq.append(f_)
        fails = uniq
        if len(fails) >= 4:
            break
    return dict(function=F + "[all transformers on circuits with symbols]", case="parameterized", bound="seeded 3-qubit circuits of 2-6 gates with symbolic exponents / angles (13 gate families) x every listed transformer x 3 assignments",
                cases=cases, distinct=cases, failures=len(fails), exhaustive=False, _fails=fails[:4])
standin_parameterized_circuits.prop = "C06"
STANDINS.append(standin_parameterized_circuits)


def standin_idle_gauges(tier, seed):
    """IdleMomentsGauge on circuits with long idle stretches: echo patterns (two idle windows sharing one boundary gate), windows bounded by
    two-qubit gates, measurements, resets and symbolic gates, the ends of the circuit, ignored tags; every gauge family and several seeds"""
    import cirq
    import sympy
    from cirq.transformers.gauge_compiling import IdleMomentsGauge

    rng = random.Random(seed + 9)
    cases, fails = 0, []
    qs = cirq.LineQubit.range(3)
    one = [cirq.H, cirq.X ** 0.5, cirq.T, cirq.Y ** 0.25, cirq.S, cirq.X]

    def gen(with_measure):
        n = rng.randrange(5, 10)
        moments = [[] for _ in range(n)]
        busy = qs[2]
        for i in range(n):
            moments[i].append(rng.choice(one)(busy))       # keeps every moment non-empty
        for q in qs[:2]:
            for i in rng.sample(range(n), rng.randrange(1, 4)):   # sparse activity: long idle windows in between
                r = rng.random()
                if r < 0.6:
                    op = rng.choice(one)(q)
                    moments[i].append(op.with_tags("ignore") if rng.random() < 0.15 else op)
                elif r < 0.75 and with_measure:
                    moments[i].append(rng.choice([cirq.X(q) ** sympy.Symbol("a"), cirq.reset(q)]))
                elif q == qs[0] and not any(qs[1] in o.qubits for o in moments[i]):
                    moments[i].append(cirq.CZ(qs[0], qs[1]))
                    moments[i] = [o for o in moments[i] if o.qubits != (qs[1],)]
        if with_measure:
            moments.append([cirq.measure(qs[0], key="m"), cirq.measure(qs[1], key="k")])
        try:
            return cirq.Circuit.from_moments(*moments)
        except ValueError:
            return None

    configs = [dict(min_length=1, gauges="pauli"), dict(min_length=2, gauges="clifford"), dict(min_length=2, gauges="inv_clifford", gauge_beginning=True), dict(min_length=3, gauges="pauli", gauge_ending=True),
               dict(min_length=1, gauges=[cirq.X, cirq.S, cirq.H], gauge_beginning=True, gauge_ending=True), dict(min_length=2, gauges=[cirq.Y ** 0.5])]
    for it in range(25 if tier == "quick" else 300):
        with_measure = it % 3 == 2
        c = gen(with_measure)
        if c is None:
            continue
        for cfg in configs:
            for sd in (0, 1, 2) if tier == "quick" else range(6):
                cases += 1
                try:
                    out = IdleMomentsGauge(**cfg)(c, context=cirq.TransformerContext(tags_to_ignore=("ignore",)), rng_or_seed=sd)
                except Exception as ex:
                    fails.append(dict(args=dict(config=repr(cfg), seed=sd, circuit=repr(c)), failed="idle-gauge-raised", clause=f"IdleMomentsGauge raised {type(ex).__name__}: {ex}"))
                    continue
                a_, b_ = (cirq.resolve_parameters(x, {"a": 0.37}) for x in (c, out))
                try:
                    why = _same_meaning(a_, b_, list(qs), with_measure)
                except NotImplementedError:
                    continue
                if why:
                    fails.append(dict(args=dict(config=repr(cfg), seed=sd, circuit=repr(c), output=repr(out)[:1500]), failed="idle-gauge-meaning", clause=f"IdleMomentsGauge({cfg}): {why}"))
                kept_in = [o for o in c.all_operations() if "ignore" in o.tags]
                if any(o not in list(out.all_operations()) for o in kept_in):
                    fails.append(dict(args=dict(config=repr(cfg), seed=sd, circuit=repr(c)), failed="idle-gauge-ignored-tag", clause="an operation carrying an ignored tag was changed"))
        seen, uniq = set(), []
        for f_ in fails:
            if f_["failed"] not in seen:
                seen.add(f_["failed"])
                uniq.append(f_)
        fails = uniq
        if len(fails) >= 3:
            break
    return dict(function=F + "/gauge_compiling/idle_moments_gauge.py:IdleMomentsGauge", case="idle-gauges",
                bound="seeded 3-qubit circuits of 5-9 moments with sparse activity on two qubits (echo patterns, CZ / measurement / reset / symbolic boundaries, ignored tags) x 6 configurations x 3-6 seeds",
                cases=cases, distinct=cases, failures=len(fails), exhaustive=False, _fails=fails[:3])
standin_idle_gauges.prop = "C06"
STANDINS.append(standin_idle_gauges)


def standin_unroll_dependencies(tier, seed):
    """unrolling a sub-circuit that MEASURES a key which a later operation on other qubits reads (and one that READS a key measured just
    before it on other qubits): the three unrolling transformers keep the classical dependency (same record distribution, valid program)"""
    import cirq
    from cirq.transformers.transformer_primitives import MAPPED_CIRCUIT_OP_TAG

    cases, fails = 0, []
    q0, q1, q2 = cirq.LineQubit.range(3)
    tag = MAPPED_CIRCUIT_OP_TAG
    sub_m = cirq.CircuitOperation(cirq.FrozenCircuit(cirq.X(q0) ** 0.5, cirq.measure(q0, key="m"))).with_tags(tag)
    sub_r = cirq.CircuitOperation(cirq.FrozenCircuit(cirq.H(q1), cirq.X(q1).with_classical_controls("m"), cirq.measure(q1, key="k"))).with_tags(tag)
    sub_r2 = cirq.CircuitOperation(cirq.FrozenCircuit(cirq.Z(q1), cirq.Z(q1), cirq.X(q1).with_classical_controls("m"))).with_tags(tag)
    circuits_ = {
        "measuring sub-circuit, then a control on another qubit": cirq.Circuit(cirq.Moment(sub_m), cirq.Moment(cirq.X(q1).with_classical_controls("m")), cirq.Moment(cirq.measure(q1, key="k"))),
        "measurement, then a reading sub-circuit on another qubit": cirq.Circuit(cirq.Moment(cirq.H(q0)), cirq.Moment(cirq.measure(q0, key="m")), cirq.Moment(sub_r)),
        "measuring sub-circuit next to an idle qubit, then a reading sub-circuit": cirq.Circuit(cirq.Moment(sub_m, cirq.H(q2)), cirq.Moment(sub_r), cirq.Moment(cirq.measure(q2, key="z"))),
        "a key measured twice; a reading sub-circuit (deeper than one moment, on another qubit) between the two": cirq.Circuit(
            cirq.Moment(cirq.measure(q0, key="m")), cirq.Moment(sub_r2, cirq.X(q0)), cirq.Moment(cirq.measure(q0, key="m")), cirq.Moment(cirq.measure(q1, key="out"))),
        "a key measured twice; a two-moment reading sub-circuit after an idle moment": cirq.Circuit(
            cirq.Moment(cirq.H(q0)), cirq.Moment(cirq.measure(q0, key="m")), cirq.Moment(sub_r2), cirq.Moment(cirq.X(q0)), cirq.Moment(cirq.measure(q0, key="m")), cirq.Moment(cirq.measure(q1, key="out"))),
    }
    for cname, c in circuits_.items():
        want = refsim.ref_distribution(cirq.Circuit(cirq.decompose(c)), [q0, q1, q2])
        for tname, tf in (("unroll_circuit_op", cirq.unroll_circuit_op), ("unroll_circuit_op_greedy_earliest", cirq.unroll_circuit_op_greedy_earliest), ("unroll_circuit_op_greedy_frontier", cirq.unroll_circuit_op_greedy_frontier)):
            cases += 1
            out = tf(c)
            try:
                got = refsim.ref_distribution(out, [q0, q1, q2])
            except refsim.ControlBeforeMeasurement as ex:
                fails.append(dict(args=dict(transformer=tname, scenario=cname, circuit=repr(c), output=repr(out)[:1200]), failed="unroll-classical-dependency", clause=f"{tname}: the unrolled circuit is not a valid program: {ex}"))
                continue
            if not refsim.dist_close(got, want, atol=1e-6):
                fails.append(dict(args=dict(transformer=tname, scenario=cname, circuit=repr(c), output=repr(out)[:1200]), failed="unroll-classical-dependency", clause=f"{tname}: the record distribution changed"))
    return dict(function=F + "/transformer_primitives.py:unroll_circuit_op*", case="unroll-dependencies", bound="5 fixed circuits (a measuring / a reading sub-circuit with the dependent operation on other qubits; a key measured again after a reading sub-circuit) x 3 unrolling transformers",
                cases=cases, distinct=cases, failures=len(fails), exhaustive=True, _fails=fails[:4])
standin_unroll_dependencies.prop = "C06"
STANDINS.append(standin_unroll_dependencies)


def standin_multi_moment_gauges(tier, seed):
    """the multi-moment CPhase gauge: blocks of moments holding CZ powers next to Paulis / Z powers / identities (some tagged to be ignored, some
    moments holding gate-less operations or other gates): the unitary stays (up to global phase), no operation is lost, operations carrying an
    ignored tag come out unchanged"""
    import collections

    import cirq
    from cirq.transformers.gauge_compiling.multi_moment_cphase_gauge import CPhaseGaugeTransformerMM

    rng = random.Random(seed + 311)
    cases, fails = 0, []
    ctx = cirq.TransformerContext(tags_to_ignore=("ignore",))
    for trial in range(40 if tier == "quick" else 400):
        n = rng.choice([3, 4])
        qs = cirq.LineQubit.range(n)
        moments = []
        for _m in range(rng.randrange(2, 6)):
            free = list(qs)
            rng.shuffle(free)
            ops_ = []
            kind = rng.random()
            if kind < 0.75:
                a, b = free.pop(), free.pop()
                cz = (cirq.CZ ** rng.choice([0.2, 1.0, -0.3, 0.5])).on(a, b)
                if rng.random() < 0.12:
                    cz = cz.with_tags("ignore")
                ops_.append(cz)
                for x in free:
                    r_ = rng.random()
                    if r_ < 0.6:
                        o = rng.choice([cirq.X, cirq.Y, cirq.Z, cirq.I, cirq.Z ** 0.3, cirq.Z ** -0.7, cirq.S])(x)
                        if rng.random() < 0.3:
                            o = o.with_tags("ignore")
                        ops_.append(o)
                    elif r_ < 0.7:
                        ops_.append(cirq.CircuitOperation(cirq.FrozenCircuit(cirq.H(x))))
                    elif r_ < 0.75:
                        ops_.append(cirq.H(x))
            else:
                for x in free:
                    if rng.random() < 0.6:
                        ops_.append(rng.choice([cirq.H, cirq.X ** 0.5, cirq.Z ** 0.25, cirq.X])(x))
            moments.append(cirq.Moment(ops_))
        c = cirq.Circuit(moments)
        sd = rng.randrange(1000)
        cases += 1
        args = dict(circuit=repr(c), seed=sd)
        try:
            out = CPhaseGaugeTransformerMM()(c, context=ctx, rng_or_seed=sd)
        except Exception as ex:
            fails.append(dict(args=args, failed="mm-gauge-raised", clause=f"CPhaseGaugeTransformerMM raised {type(ex).__name__}: {ex}"))
            continue
        args["output"] = repr(out)[:1500]
        tagged = lambda circ: collections.Counter(op for op in circ.all_operations() if "ignore" in op.tags)
        gateless = lambda circ: collections.Counter(op for op in circ.all_operations() if op.gate is None)
        if not refsim.equal_up_to_global_phase(out.unitary(qubit_order=qs, qubits_that_should_be_present=qs), c.unitary(qubit_order=qs, qubits_that_should_be_present=qs), atol=1e-6):
            fails.append(dict(args=args, failed="mm-gauge-meaning", clause="CPhaseGaugeTransformerMM changed the circuit's unitary (beyond global phase)"))
        elif gateless(out) != gateless(c):
            fails.append(dict(args=args, failed="mm-gauge-lost-operation", clause="CPhaseGaugeTransformerMM lost or duplicated a sub-circuit operation"))
        elif tagged(out) != tagged(c):
            fails.append(dict(args=args, failed="mm-gauge-ignored-tag", clause=f"operations carrying an ignored tag were changed: {dict(tagged(c))} became {dict(tagged(out))}"))
        if len(fails) >= 3:
            break
    return dict(function=F + "/gauge_compiling/multi_moment_cphase_gauge.py:CPhaseGaugeTransformerMM", case="multi-moment-gauges",
                bound="seeded circuits of 2-5 moments on 3-4 qubits (CZ powers beside Paulis / Z powers / identities / sub-circuits / other gates, 30% of single-qubit gates and 12% of CZ powers tagged to be ignored), one seed each",
                cases=cases, distinct=cases, failures=len(fails), exhaustive=False, _fails=fails[:3])
standin_multi_moment_gauges.prop = "C06"
STANDINS.append(standin_multi_moment_gauges)


def standin_pasqal_moment_split(tier, seed):
    """cirq_pasqal.split_multi_op_moments (the last step of PasqalGateset): moments holding gates next to measurements of every kind (plain, Pauli
    products, wrapped in a sub-circuit) and operations controlled by a key measured in the same moment: no operation is lost, every output
    moment holds one non-measurement operation or plain measurements only, the records keep their distribution"""
    import collections

    import cirq

    F_ = "cirq-pasqal/cirq_pasqal/pasqal_gateset.py:split_multi_op_moments"
    try:
        from cirq_pasqal.pasqal_gateset import split_multi_op_moments
    except ImportError:
        return dict(function=F_, case="pasqal-moment-split", bound="cirq_pasqal not importable", cases=0, distinct=0, failures=0, exhaustive=False, _fails=[])
    rng = random.Random(seed + 421)
    q = cirq.LineQubit.range(4)
    cases, fails = 0, []
    _flat_keep = lambda op: not isinstance(op.untagged, cirq.CircuitOperation) and not isinstance(op.gate, cirq.PauliMeasurementGate)
    for trial in range(40 if tier == "quick" else 400):
        moments = [cirq.Moment(cirq.H(q[0]), cirq.X(q[1]) ** rng.choice([1, 0.5]), cirq.H(q[3]))]
        nkeys = 0
        for _m in range(rng.randrange(1, 4)):
            free = list(q)
            rng.shuffle(free)
            ops_ = []
            kind = rng.randrange(5)
            x = free.pop()
            nkeys += 1
            key = f"k{nkeys}"
            if kind == 0:
                ops_.append(cirq.measure(x, key=key))
            elif kind == 1:
                y = free.pop()
                ops_.append(cirq.measure_single_paulistring(cirq.X(x) * cirq.Z(y), key=key))
            elif kind == 2:
                ops_.append(cirq.CircuitOperation(cirq.FrozenCircuit(cirq.measure(x, key=key))))
            elif kind == 3:
                ops_.append(cirq.measure(x, key=key))
                ops_.append(cirq.X(free.pop()).with_classical_controls(key))      # reads the key measured in this very moment
            else:
                ops_.append(cirq.measure(x, key=key, invert_mask=(True,)))
                if free:
                    nkeys += 1
                    ops_.append(cirq.measure(free.pop(), key=f"k{nkeys}"))
            for y in free:
                if rng.random() < 0.6:
                    ops_.append(rng.choice([cirq.H, cirq.X, cirq.Z ** 0.5])(y))
            rng.shuffle(ops_) if kind != 3 else None
            moments.append(cirq.Moment(ops_))
        moments.append(cirq.Moment(cirq.measure(*q, key="final")))
        c = cirq.Circuit(moments)
        cases += 1
        args = dict(circuit=repr(c)[:1500])
        try:
            out = split_multi_op_moments(c)
        except Exception as ex:
            fails.append(dict(args=args, failed="pasqal-split-raised", clause=f"{ex!r}"))
            continue
        args["output"] = repr(out)[:1200]
        if collections.Counter(out.all_operations()) != collections.Counter(c.all_operations()):
            fails.append(dict(args=args, failed="pasqal-split-lost-operation", clause="split_multi_op_moments lost or duplicated an operation"))
            continue
        shape_ok = all(len(m) == 1 or all(isinstance(op.gate, cirq.MeasurementGate) for op in m) for m in out)
        if not shape_ok:
            fails.append(dict(args=args, failed="pasqal-split-shape", clause="an output moment holds several operations that are not all plain measurements"))
            continue
        try:
            want = refsim.ref_distribution(cirq.Circuit(cirq.decompose(c, keep=_flat_keep, on_stuck_raise=None)), list(q))
            got = refsim.ref_distribution(cirq.Circuit(cirq.decompose(out, keep=_flat_keep, on_stuck_raise=None)), list(q))
        except refsim.ControlBeforeMeasurement as ex:
            fails.append(dict(args=args, failed="pasqal-split-meaning", clause=f"the split circuit is not a valid program: {ex}"))
            continue
        if not refsim.dist_close(got, want, atol=1e-6):
            fails.append(dict(args=args, failed="pasqal-split-meaning", clause="split_multi_op_moments changed the distribution of the records"))
        if len(fails) >= 3:
            break
    return dict(function=F_, case="pasqal-moment-split", bound="seeded circuits on 4 qubits: 1-3 mixed moments (plain / inverted / Pauli-product / sub-circuit measurements, a control on a key measured in the same moment) between a preparation and a final measurement",
                cases=cases, distinct=cases, failures=len(fails), exhaustive=False, _fails=fails[:3])
standin_pasqal_moment_split.prop = "C06"
STANDINS.append(standin_pasqal_moment_split)


def standin_vendor_special_cases(tier, seed):
    """optimize_for_target_gateset with the vendors' target gatesets on gates they special-case (shared with C07: the compiled circuit means the same)"""
    from contracts.C07_compile import standin_known_ops as f

    r = f(tier, seed)
    r["case"] = "vendor-special-cases"
    return r
standin_vendor_special_cases.prop = "C06"
STANDINS.append(standin_vendor_special_cases)

def standin_subcircuit_handling(tier, seed):
    """sub-circuit operations (tagged to be ignored or not, nested, repeated) under deep=False / deep=True: tagged operations are
    found unchanged at the same nesting position, untagged sub-circuits are untouched unless deep is requested, the unitary stays"""
    import cirq

    rng = random.Random(seed + 9)
    a, b, c = cirq.LineQubit.range(3)
    qs = [a, b, c]
    one = [cirq.X ** 0.5, cirq.Z ** 0.25, cirq.H, cirq.Y ** 0.3, cirq.T]

    def body():
        ms = []
        for _ in range(rng.randrange(2, 5)):
            if rng.random() < 0.7:
                ms.append(cirq.Moment(rng.choice(one)(q) for q in rng.sample(qs, rng.randrange(1, 3))))
            else:
                ms.append(cirq.Moment(rng.choice([cirq.CZ, cirq.CNOT])(*rng.sample(qs, 2))))
        return ms

    def sub(depth):
        ms = body()
        if depth > 0 and rng.random() < 0.6:
            ms.insert(rng.randrange(len(ms) + 1), cirq.Moment(sub(depth - 1)))
        op = cirq.CircuitOperation(cirq.FrozenCircuit(ms))
        if rng.random() < 0.3:
            op = op.repeat(2)
        if rng.random() < 0.5:
            op = op.with_tags("ignore")
        return op

    def tagged_ops(circ):
        out = []
        for op in circ.all_operations():
            if "ignore" in op.tags:
                out.append(repr(op))
            elif isinstance(op.untagged, cirq.CircuitOperation):
                out += tagged_ops(op.untagged.circuit)
        return sorted(out)

    def top_subcircuits(circ):
        return sorted(repr(op) for op in circ.all_operations() if isinstance(op.untagged, cirq.CircuitOperation))

    # expand_composite decomposes sub-circuit operations on purpose (a CircuitOperation is a composite operation): not part of these clauses
    tfs = [t for t in _transformers() if t[1] is not None and not any(k in t[0] for k in ("unroll", "Gauge", "dynamical", "defer", "index_tags", "optimize_for_target", "expand_composite"))]
    structural = ("align_left", "align_right", "stratified_circuit", "synchronize_terminal_measurements", "drop_empty_moments", "insertion_sort_transformer",
                  "drop_diagonal_before_measurement")  # transformers that never replace an operation by an equivalent one
    cases, fails = 0, []
    for _ in range(12 if tier == "quick" else 150):
        circ = cirq.Circuit(body()[:2], sub(2), body()[:1], rng.choice(one)(a).with_tags("ignore"))
        want_u = circ.unitary(qubit_order=qs, qubits_that_should_be_present=qs)
        for deep in (False, True):
            ctx = cirq.TransformerContext(tags_to_ignore=("ignore",), deep=deep)
            for name, tf in tfs:
                try:
                    out = tf(circ, ctx)
                except Exception:
                    continue
                cases += 1
                args = dict(transformer=name, deep=deep, circuit=repr(circ))
                # transformers that may absorb a whole untagged sub-circuit operation as one unit (k-qubit merges) are only held to the
                # tagged operations of the level they work on; the others to every nesting level
                absorbing = any(k in name for k in ("merge_k_qubit", "merge_operations_to_circuit_op", "eject_", "merge_single_qubit_gates", "drop_negligible"))  # (a whole sub-circuit that is the identity is negligible)
                top_in = sorted(repr(o) for o in circ.all_operations() if "ignore" in o.tags)
                top_out = sorted(repr(o) for o in out.all_operations() if "ignore" in o.tags)
                if top_in != top_out or (not absorbing and tagged_ops(out) != tagged_ops(circ)):
                    fails.append(dict(args=args, failed="ignored-tag-touched", clause=f"{name}(deep={deep}) changed an operation (or sub-circuit) carrying a tag listed in tags_to_ignore"))
                elif not deep and name in structural and top_subcircuits(out) != top_subcircuits(circ):
                    fails.append(dict(args=args, failed="subcircuit-rewritten-without-deep", clause=f"{name} rewrote a sub-circuit although deep=False"))
                else:
                    got = cirq.Circuit(cirq.decompose(out, keep=lambda o: not isinstance(o.untagged, cirq.CircuitOperation))).unitary(qubit_order=qs, qubits_that_should_be_present=qs)
                    if not cirq.allclose_up_to_global_phase(got, want_u, atol=1e-6):
                        fails.append(dict(args=args, failed="meaning-changed", clause=f"{name}(deep={deep}): unitary changed"))
    seen, uniq = set(), []
    for f in fails:
        k = (f["failed"], f["args"]["transformer"].split("(")[0])
        if k not in seen:
            seen.add(k)
            uniq.append(f)
    return dict(function=F + "/*[sub-circuit operations, tags_to_ignore, deep]", case="subcircuit-handling",
                bound=f"seeded circuits with nested / repeated / tagged CircuitOperations on 3 qubits x deep False/True x {len(tfs)} transformer configurations", cases=cases, distinct=cases,
                failures=len(fails), exhaustive=False, _fails=uniq[:4])
standin_subcircuit_handling.prop = "C06"
STANDINS.append(standin_subcircuit_handling)


def _replay_merge(ob, seed):
    for s in range(4):
        r = standin_transformers("thorough", seed + 500 + s, only="merge_operations_to_circuit_op", n=300)
        if r["_fails"]:
            return r["_fails"][0]
    return None


REPLAYERS = {"cirq-core/cirq/transformers/transformer_primitives.py:_MergedCircuit": _replay_merge}
