"""C09 — bounded stand-ins (NOT counted as proved): simulators end to end against the channel semantics.

Reference: rho -> sum_K K rho K^dagger per operation in order, K from cirq.kraus (library channels: proved equal to the
documented operators in C09_channels), embedded by contracts/refsim.embed; measurements without classical control are their
dephasing channel when averaged.
standin_density: DensityMatrixSimulator final state (several option sets) == reference; trace one, Hermitian, PSD.
standin_trajectories: cirq.Simulator with a scripted random source: EVERY random branch (mixture choice, lazy uniform draw of
the Kraus sampler incl. its fallback branch, measurement outcomes) is enumerated; sum prob * |psi><psi| == reference.
standin_noise_models: simulate(circuit, noise=m) == simulate(m.noisy_moments(circuit)) == simulate(circuit.with_noise(m)).
standin_conversions: Kraus <-> Choi <-> superoperator round trips incl. the numeric eigendecomposition routes."""
import random
import warnings

import numpy as np

from contracts import refsim
from contracts.scripted_rng import ScriptedRNG, enumerate_branches

F = "cirq-core/cirq/sim"


def _channels(rng):
    import cirq

    p = rng.choice([0.0, 0.1, 0.25, 0.5, 0.75, 1.0, 0.333])
    g = rng.choice([0.0, 0.2, 0.5, 1.0, 0.9])
    u = cirq.testing.random_unitary(2, random_state=rng.randrange(10 ** 6))
    ks = [np.sqrt(0.3) * u, np.sqrt(0.7) * np.array([[1, 0], [0, 1j]])]
    one = [cirq.bit_flip(p), cirq.phase_flip(p), cirq.depolarize(p * 0.9), cirq.asymmetric_depolarize(p / 3, p / 4, p / 5), cirq.amplitude_damp(g),
           cirq.generalized_amplitude_damp(p, g), cirq.phase_damp(g), cirq.ResetChannel(), cirq.KrausChannel(ks), cirq.MixedUnitaryChannel([(0.25, u), (0.75, np.eye(2))]),
           cirq.X.with_probability(p) if 0 < p < 1 else cirq.bit_flip(p), cirq.MixedUnitaryChannel([(1.0, cirq.unitary(cirq.H))]),
           cirq.KrausChannel([np.array([[1, 0], [0, 0]]), np.array([[0, 0], [0, 1]])])]
    two = [cirq.depolarize(p * 0.8, n_qubits=2), cirq.asymmetric_depolarize(error_probabilities={"XZ": p / 2, "YI": p / 4, "II": 1 - 3 * p / 4}),
           cirq.KrausChannel([np.sqrt(0.5) * cirq.unitary(cirq.CNOT), np.sqrt(0.5) * np.kron(u, np.eye(2))]), cirq.CZ.with_probability(0.3)]
    # channels under a classical-basis control (the description read from the GATE must be the one its operations implement): control on 0, default control
    two += [cirq.ControlledGate(cirq.bit_flip(0.2 + p / 2), control_values=[0]), cirq.ControlledGate(cirq.asymmetric_depolarize(0.1, 0.2, 0.05), control_values=[0]), cirq.ControlledGate(cirq.phase_flip(0.3)),
            cirq.ControlledGate(cirq.X.with_probability(0.4), control_values=[0]), cirq.ControlledGate(cirq.Y, control_values=[0])]
    return one, two


def _unitaries(rng):
    import cirq

    e = rng.choice([0.5, 0.25, 1.0, 0.37, -0.5])
    return ([cirq.H, cirq.X ** e, cirq.Y ** e, cirq.Z ** e, cirq.T, cirq.PhasedXPowGate(phase_exponent=0.3, exponent=e)],
            [cirq.CNOT, cirq.CZ ** e, cirq.ISWAP ** 0.5, cirq.SWAP, cirq.FSimGate(0.4, 0.7)])


def _noisy_circuit(rng, measurements=False, max_q=3, pauli_measurements=False):
    import cirq

    n = rng.choice([1, 2, 2, 3][: max_q + 1])
    qs = cirq.LineQubit.range(n)
    ops = []
    nm = 0
    for _ in range(rng.randrange(2, 8)):
        c1, c2 = _channels(rng)
        u1, u2 = _unitaries(rng)
        r = rng.random()
        if r < 0.35:
            g = rng.choice(c1 + (c2 if n >= 2 else []))
        else:
            g = rng.choice(u1 + (u2 if n >= 2 else []))
        k = cirq.num_qubits(g)
        ops.append(g.on(*rng.sample(qs, k)))
        if measurements and rng.random() < 0.2 and nm < 2:
            if pauli_measurements and n >= 2 and rng.random() < 0.5:
                pq = rng.sample(qs, rng.randrange(2, n + 1))
                ops.append(cirq.measure_single_paulistring(cirq.PauliString({x: rng.choice([cirq.X, cirq.Y, cirq.Z]) for x in pq}), key=f"m{nm}"))
            else:
                ops.append(cirq.measure(*rng.sample(qs, rng.randrange(1, n + 1)), key=f"m{nm}"))
            nm += 1
    return cirq.Circuit(ops, strategy=rng.choice([cirq.InsertStrategy.EARLIEST, cirq.InsertStrategy.NEW])), qs


def ref_density(circuit, qubits, rho0=None):
    """ordered application of each operation's channel (measurements: dephasing in the computational basis)"""
    import cirq

    dims = [q.dimension for q in qubits]
    D = int(np.prod(dims))
    rho = np.zeros((D, D), dtype=complex)
    rho[0, 0] = 1
    if rho0 is not None:
        rho = np.asarray(rho0, dtype=complex)
    for op in circuit.all_operations():
        if cirq.is_measurement(op):
            idx = [qubits.index(q) for q in op.qubits]
            ks = []
            for vals in np.ndindex(*[dims[i] for i in idx]):
                P = np.zeros((int(np.prod([dims[i] for i in idx])),) * 2)
                flat = int(np.ravel_multi_index(vals, [dims[i] for i in idx]))
                P[flat, flat] = 1
                ks.append(P)
        else:
            ks = cirq.kraus(op)
        new = np.zeros_like(rho)
        for K in ks:
            E = refsim.embed(np.asarray(K, dtype=complex), list(op.qubits), list(qubits), dims)
            new += E @ rho @ E.conj().T
        rho = new
    return rho


def ref_density_branches(circuit, qubits):
    """exact reference incl. measurement records and classical control: list of (records, unnormalised rho); the observer-averaged
    state is the sum of the rhos"""
    import cirq

    dims = [q.dimension for q in qubits]
    D = int(np.prod(dims))
    rho0 = np.zeros((D, D), dtype=complex)
    rho0[0, 0] = 1
    branches = [({}, rho0)]
    for op in circuit.all_operations():
        new = []
        for rec, rho in branches:
            o = op
            if isinstance(o.untagged, cirq.ClassicallyControlledOperation):
                if not all(refsim._condition_true(cnd, rec) for cnd in o.untagged.classical_controls):
                    new.append((rec, rho))
                    continue
                o = o.untagged.without_classical_controls()
            if isinstance(o.gate, cirq.MeasurementGate):
                idx = [qubits.index(q) for q in o.qubits]
                mdims = [dims[i] for i in idx]
                mask = o.gate.full_invert_mask()
                for vals in np.ndindex(*mdims):
                    P = np.zeros((int(np.prod(mdims)),) * 2)
                    flat = int(np.ravel_multi_index(vals, mdims))
                    P[flat, flat] = 1
                    E = refsim.embed(P, list(o.qubits), list(qubits), dims)
                    r2 = E @ rho @ E
                    if abs(np.trace(r2)) < 1e-14:
                        continue
                    rec2 = {k: list(v) for k, v in rec.items()}
                    rec2.setdefault(str(cirq.measurement_key_name(o)), []).append(tuple(((1 - v) if m else v, dd) for v, m, dd in zip(vals, mask, mdims)))
                    new.append((rec2, r2))
                continue
            if isinstance(o.gate, cirq.PauliMeasurementGate):
                P = refsim.embed(cirq.unitary(o.gate.observable()), list(o.qubits), list(qubits), dims)
                for bit, sign in ((0, 1), (1, -1)):
                    E = (np.eye(D) + sign * P) / 2
                    r2 = E @ rho @ E
                    if abs(np.trace(r2)) < 1e-14:
                        continue
                    rec2 = {k: list(v) for k, v in rec.items()}
                    rec2.setdefault(str(cirq.measurement_key_name(o)), []).append(((bit, 2),))
                    new.append((rec2, r2))
                continue
            tot = np.zeros_like(rho)
            for K in cirq.kraus(o):
                E = refsim.embed(np.asarray(K, dtype=complex), list(o.qubits), list(qubits), dims)
                tot += E @ rho @ E.conj().T
            new.append((rec, tot))
        branches = new
        if len(branches) > 4096:
            raise RuntimeError("too many branches")
    return branches


def _valid(rho, atol=1e-6):
    if abs(np.trace(rho) - 1) > atol:
        return f"trace is {np.trace(rho):.6f}"
    if not np.allclose(rho, rho.conj().T, atol=atol):
        return "not Hermitian"
    if np.linalg.eigvalsh((rho + rho.conj().T) / 2).min() < -atol:
        return "has a negative eigenvalue"
    return None


def _uniq(fails, k=3):
    seen, out = set(), []
    for f in fails:
        if f["failed"] not in seen:
            seen.add(f["failed"])
            out.append(f)
    return out[:k]


def standin_density(tier, seed):
    import cirq

    warnings.simplefilter("ignore")
    rng = random.Random(seed)
    n = 60 if tier == "quick" else 800
    cases, fails, distinct = 0, [], set()
    opts = [dict(), dict(split_untangled_states=False), dict(dtype=np.complex128), dict(final_density_matrix=True), dict(branches=True), dict(branches=True, split_untangled_states=False)]
    for _ in range(n):
        opt = rng.choice(opts)
        meas = "final_density_matrix" in opt
        c, qs = _noisy_circuit(rng, measurements=meas)
        if meas and rng.random() < 0.6:
            # classical control on a measured key (cirq.final_density_matrix defers the measurement)
            keys = sorted(cirq.measurement_key_names(c))
            if keys:
                ops = list(c.all_operations())
                pos = max(i for i, o in enumerate(ops) if cirq.is_measurement(o))
                tgt = rng.choice(qs)
                ops.insert(pos + 1, rng.choice([cirq.X, cirq.H, cirq.Y ** 0.5])(tgt).with_classical_controls(rng.choice(keys)))
                c = cirq.Circuit(ops, strategy=cirq.InsertStrategy.NEW)
        cases += 1
        distinct.add(repr(c))
        args = dict(circuit=repr(c), options=repr(opt))
        if "branches" in opt:
            c, qs = _noisy_circuit(rng, measurements=True, pauli_measurements=True)
            args = dict(circuit=repr(c), options=repr(opt))
        try:
            if "branches" in opt:
                kw = {k: v for k, v in opt.items() if k != "branches"}
                brs = enumerate_branches(lambda r: cirq.DensityMatrixSimulator(seed=r, dtype=np.complex128, **kw).simulate(c, qubit_order=qs).final_density_matrix, max_branches=4096)
                got = sum(p * rho for p, rho in brs)
            elif meas:
                got = cirq.final_density_matrix(c, ignore_measurement_results=True, dtype=np.complex128)
                qs = sorted(c.all_qubits())
            else:
                res = cirq.DensityMatrixSimulator(seed=rng.randrange(10 ** 6), **opt).simulate(c, qubit_order=qs)
                got = res.final_density_matrix
        except Exception as ex:
            fails.append(dict(args=args, failed="simulate-raised", clause=f"DensityMatrixSimulator.simulate raised {ex!r}"))
            continue
        want = sum(r for _, r in ref_density_branches(c, list(qs)))
        v = _valid(got, 1e-5)
        if v:
            fails.append(dict(args=args, failed="invalid-density-matrix", clause=f"final density matrix {v}"))
        elif not np.allclose(got, want, atol=2e-5 if opt.get("dtype") is None else 1e-7):
            fails.append(dict(args=args, failed="density-differs", clause="final density matrix differs from applying each operation's channel in order"))
        if len({f["failed"] for f in fails}) >= 3:
            break
    return dict(function=F + "/density_matrix_simulator.py:DensityMatrixSimulator.simulate", case="density-vs-channels",
                bound=f"{n} seeded circuits: 1-3 qubits, <= 7 operations from 17 channels (library incl. boundary probabilities 0 and 1, Kraus, mixed-unitary, random-gate, two-qubit) and 11 unitaries; 4 option sets",
                cases=cases, distinct=len(distinct), failures=len(fails), exhaustive=False, _fails=_uniq(fails))
standin_density.prop = "C09"


def standin_trajectories(tier, seed):
    import cirq

    warnings.simplefilter("ignore")
    rng = random.Random(seed + 7)
    n = 40 if tier == "quick" else 500
    cases, fails, distinct, total_branches = 0, [], set(), 0
    for _ in range(n):
        c, qs = _noisy_circuit(rng, measurements=rng.random() < 0.5, max_q=3 if rng.random() < 0.3 else 2, pauli_measurements=True)
        if sum(1 for op in c.all_operations() if not cirq.has_unitary(op)) > 4:
            continue
        cases += 1
        distinct.add(repr(c))
        args = dict(circuit=repr(c))
        split = rng.random() < 0.5

        def run(r):
            res = cirq.Simulator(seed=r, dtype=np.complex128, split_untangled_states=split).simulate(c, qubit_order=qs)
            return res.final_state_vector

        try:
            brs = enumerate_branches(run, max_branches=4096)
        except Exception as ex:
            fails.append(dict(args=args, failed="simulate-raised", clause=f"Simulator.simulate raised {ex!r} under a scripted random source"))
            continue
        total_branches += len(brs)
        tot = sum(p for p, _ in brs)
        rho = sum(p * np.outer(psi, psi.conj()) for p, psi in brs)
        want = sum(r for _, r in ref_density_branches(c, list(qs)))
        if abs(tot - 1) > 1e-7:
            fails.append(dict(args=args, failed="branch-probabilities", clause=f"branch probabilities sum to {tot:.8f}"))
        elif any(abs(np.vdot(psi, psi) - 1) > 1e-6 for _, psi in brs):
            fails.append(dict(args=args, failed="unnormalised-branch", clause="a trajectory's final state vector is not normalised"))
        elif not np.allclose(rho, want, atol=1e-6):
            fails.append(dict(args=args, failed="unravelling-differs", clause="sum over all random branches of prob * |psi><psi| differs from the channel semantics"))
        if len({f["failed"] for f in fails}) >= 3:
            break
    return dict(function=F + "/state_vector_simulation_state.py:_BufferedStateVector.apply_channel/apply_mixture (through cirq.Simulator)", case="trajectories",
                bound=f"{n} seeded circuits: 1-2 qubits, <= 4 non-unitary operations; every branch of every random draw enumerated exactly ({total_branches} branches)",
                cases=cases, distinct=len(distinct), failures=len(fails), exhaustive=False, _fails=_uniq(fails))
standin_trajectories.prop = "C09"


def _noise_models(rng):
    import cirq

    p = rng.choice([0.05, 0.2, 0.5])
    q = cirq.LineQubit.range(3)
    out = [("ConstantQubitNoiseModel(depolarize)", cirq.ConstantQubitNoiseModel(cirq.depolarize(p))),
           ("ConstantQubitNoiseModel(amplitude_damp, prepend)", cirq.ConstantQubitNoiseModel(cirq.amplitude_damp(p), prepend=True)),
           ("from_noise_model_like(channel)", cirq.NoiseModel.from_noise_model_like(cirq.phase_damp(p))),
           ("InsertionNoiseModel", cirq.devices.InsertionNoiseModel(ops_added={cirq.OpIdentifier(cirq.XPowGate, q[0]): cirq.bit_flip(p).on(q[0]),
                                                                                 cirq.OpIdentifier(cirq.CZPowGate): cirq.depolarize(p, n_qubits=2).on(q[0], q[1]),
                                                                                 cirq.OpIdentifier(cirq.HPowGate): cirq.amplitude_damp(p).on(q[1])}, require_physical_tag=False)),
           ("InsertionNoiseModel(prepend)", cirq.devices.InsertionNoiseModel(ops_added={cirq.OpIdentifier(cirq.XPowGate): cirq.phase_flip(p).on(q[2])}, prepend=True, require_physical_tag=False))]
    try:
        out.append(("ThermalNoiseModel", cirq.devices.ThermalNoiseModel(qubits=set(q), gate_durations_ns={cirq.ZPowGate: 25.0, cirq.XPowGate: 25.0, cirq.HPowGate: 25.0, cirq.CZPowGate: 32.0, cirq.MeasurementGate: 4000.0},
                                                                        heat_rate_GHz={x: 1e-5 for x in q}, cool_rate_GHz={x: 1e-4 for x in q}, dephase_rate_GHz={x: 2e-4 for x in q}, require_physical_tag=False)))
    except Exception:
        pass
    return out


def standin_noise_models(tier, seed):
    import cirq

    warnings.simplefilter("ignore")
    rng = random.Random(seed + 3)
    n = 40 if tier == "quick" else 500
    cases, fails, distinct = 0, [], set()
    for _ in range(n):
        qs = cirq.LineQubit.range(3)
        ops = []
        gates1 = [cirq.X, cirq.H, cirq.Z ** 0.5, cirq.X ** 0.5]
        for _ in range(rng.randrange(2, 7)):
            r = rng.random()
            if r < 0.55:
                ops.append(rng.choice(gates1)(rng.choice(qs)))
            elif r < 0.8:
                ops.append(cirq.CZ(*rng.sample(qs, 2)))
            else:
                ops.append(cirq.measure(*rng.sample(qs, rng.randrange(1, 3)), key=f"k{len(ops)}"))
        c = cirq.Circuit(ops, strategy=rng.choice([cirq.InsertStrategy.EARLIEST, cirq.InsertStrategy.NEW]))
        name, nm = rng.choice(_noise_models(rng))
        order = list(qs)
        cases += 1
        distinct.add((repr(c), name))
        args = dict(circuit=repr(c), noise_model=name, qubit_order=repr(order))
        def avg(circ, model):
            brs = enumerate_branches(lambda r: cirq.DensityMatrixSimulator(noise=model, seed=r, dtype=np.complex128).simulate(circ, qubit_order=order).final_density_matrix, max_branches=2048)
            return sum(p * rho for p, rho in brs)

        try:
            a = avg(c, nm)
            system = sorted(order)
            noisy = cirq.Circuit(nm.noisy_moments(c, system))
            b = avg(noisy, None)
        except Exception as ex:
            fails.append(dict(args=args, failed="simulate-raised", clause=f"raised {ex!r}"))
            continue
        if not np.allclose(a, b, atol=1e-5):
            fails.append(dict(args=args, failed="noise-model-differs", clause="simulate(circuit, noise=m) differs from simulating the circuit m.noisy_moments produces on the system qubits"))
        if sorted(c.all_qubits()) == system:
            d = avg(c.with_noise(nm), None)
            single = all(len(o.qubits) == 1 for o in c.all_operations() if cirq.is_measurement(o))
            e = cirq.final_density_matrix(c, noise=nm, ignore_measurement_results=True, dtype=np.complex128) if single else a
            if not np.allclose(a, e, atol=1e-5):
                fails.append(dict(args=args, failed="final_density_matrix-differs", clause="cirq.final_density_matrix(circuit, noise=m) differs from the measurement-averaged DensityMatrixSimulator(noise=m) state"))
            if not np.allclose(a, d, atol=1e-5):
                fails.append(dict(args=args, failed="with_noise-differs", clause="simulate(circuit, noise=m) differs from simulate(circuit.with_noise(m))"))
        # and against the channel semantics of the produced circuit
        if not np.allclose(b, ref_density(noisy, order), atol=1e-5):
            fails.append(dict(args=args, failed="density-differs", clause="density matrix of the noisy circuit differs from the channel semantics"))
        if len({f["failed"] for f in fails}) >= 3:
            break
    # sampling (run): records of run(circuit) under a noise model == records of run(the circuit the model produces), incl. circuits whose
    # remainder is measurements only with a qubit measured AGAIN later (the noise between the two measurements counts)
    from contracts.C02_born import _canon_records
    q0, q1, q2 = cirq.LineQubit.range(3)
    templates = [
        [cirq.Moment(cirq.measure(q0, key="a")), cirq.Moment(cirq.measure(q0, q1, key="b"))],
        [cirq.Moment(cirq.H(q0)), cirq.Moment(cirq.measure(q0, key="a")), cirq.Moment(cirq.measure(q0, key="a"))],
        [cirq.Moment(cirq.X(q1)), cirq.Moment(cirq.measure(q1, key="a"), cirq.measure(q0, key="b")), cirq.Moment(cirq.measure(q0, q1, q2, key="c"))],
        [cirq.Moment(cirq.H(q0), cirq.X(q2)), cirq.Moment(cirq.CNOT(q0, q1)), cirq.Moment(cirq.measure(q0, q1, key="a")), cirq.Moment(cirq.measure(q2, key="b"))],
        [cirq.Moment(cirq.measure(q0, key="a")), cirq.Moment(cirq.X(q1)), cirq.Moment(cirq.measure(q0, q1, key="b"))],
    ]
    run_models = [("X after every moment", cirq.ConstantQubitNoiseModel(cirq.X)), ("bit flip 0.25", cirq.ConstantQubitNoiseModel(cirq.bit_flip(0.25))),
                  ("X before every moment", cirq.ConstantQubitNoiseModel(cirq.X, prepend=True))]
    for tmpl in templates:
        c = cirq.Circuit(tmpl)
        for mname, nm in run_models:
            noisy = c.with_noise(nm)
            for sname, mk in (("Simulator", lambda r, m: cirq.Simulator(noise=m, seed=r)), ("DensityMatrixSimulator", lambda r, m: cirq.DensityMatrixSimulator(noise=m, seed=r))):
                cases += 1
                try:
                    got, want = {}, {}
                    for p_, rec in enumerate_branches(lambda r: _canon_records(mk(r, nm).run(c, repetitions=1)), max_branches=2048):
                        got[rec] = got.get(rec, 0.0) + p_
                    for p_, rec in enumerate_branches(lambda r: _canon_records(mk(r, None).run(noisy, repetitions=1)), max_branches=2048):
                        want[rec] = want.get(rec, 0.0) + p_
                except RuntimeError:
                    continue
                if set(got) != set(want) or any(abs(got[k] - want[k]) > 1e-6 for k in got):
                    fails.append(dict(args=dict(circuit=repr(c), noise_model=mname, simulator=sname), failed="run-with-noise-differs",
                                      clause=f"{sname}(noise=m).run(c) gives records {sorted(got.items())[:3]}, {sname}().run(c.with_noise(m)) gives {sorted(want.items())[:3]}"))
    # two repetitions are two independent draws: the joint distribution of (repetition 1, repetition 2) is the product of the
    # one-repetition distribution of the noisy circuit with itself (a trajectory shared by all repetitions would correlate them)
    class _PairNoise(cirq.NoiseModel):
        """a two-qubit channel on (q0, q1) after every moment"""

        def noisy_moment(self, moment, system_qubits):
            return [moment, cirq.Moment(cirq.depolarize(0.6, n_qubits=2)(q0, q1))]

    templates2 = [
        [cirq.Moment(cirq.measure(q0, key="a")), cirq.Moment(cirq.measure(q1, key="b"))],
        [cirq.Moment(cirq.measure(q1, key="a")), cirq.Moment(cirq.measure(q0, key="b"))],
    ]
    run_models2 = run_models[1:2] + [("two-qubit depolarizing after every moment", _PairNoise()), ("amplitude damping 0.3", cirq.ConstantQubitNoiseModel(cirq.amplitude_damp(0.3)))]

    def canon2(result):
        return tuple(sorted((k, tuple(tuple(tuple(int(x) for x in inst) for inst in rep) for rep in arr)) for k, arr in result.records.items()))

    for tmpl in templates2:
        c = cirq.Circuit(tmpl)
        for mname, nm in run_models2:
            noisy = c.with_noise(nm)
            for sname, mk in (("Simulator", lambda r, m: cirq.Simulator(noise=m, seed=r)), ("DensityMatrixSimulator", lambda r, m: cirq.DensityMatrixSimulator(noise=m, seed=r))):
                if sname == "Simulator" and not mname.startswith("bit flip"):
                    continue  # (the state-vector simulator draws one Kraus operator per noise operation: kept to the two-outcome channel so that every branch can be enumerated)
                cases += 1
                try:
                    one, two = {}, {}
                    for p_, rec in enumerate_branches(lambda r: _canon_records(mk(r, None).run(noisy, repetitions=1)), max_branches=4096):
                        one[rec] = one.get(rec, 0.0) + p_
                    for p_, rec in enumerate_branches(lambda r: canon2(mk(r, nm).run(c, repetitions=2)), max_branches=8192):
                        two[rec] = two.get(rec, 0.0) + p_
                except RuntimeError:
                    continue
                want2 = {}
                for r1, p1 in one.items():
                    for r2, p2 in one.items():
                        key = tuple(sorted((k1, (v1[0:1] and (v1,) + (dict(r2)[k1],))) for k1, v1 in r1))
                        want2[key] = want2.get(key, 0.0) + p1 * p2
                if set(k for k, v in two.items() if v > 1e-9) != set(k for k, v in want2.items() if v > 1e-9) or any(abs(two.get(k, 0) - want2.get(k, 0)) > 1e-6 for k in want2):
                    fails.append(dict(args=dict(circuit=repr(c), noise_model=mname, simulator=sname), failed="run-repetitions-not-independent",
                                      clause=f"{sname}(noise=m).run(c, repetitions=2): the joint distribution of the two repetitions {sorted((k, round(v, 4)) for k, v in two.items())[:4]} "
                                             f"is not the product of the one-repetition distribution of c.with_noise(m) {sorted((k, round(v, 4)) for k, v in one.items())[:4]}"))
    return dict(function="cirq-core/cirq/sim/simulator_base.py:SimulatorBase._core_iterator + devices/noise_model.py", case="noise-models",
                bound=f"{n} seeded circuits on 3 qubits with mid-circuit measurements (the simulator splits there) x 6 noise models (constant, prepend, channel-like, insertion, thermal)",
                cases=cases, distinct=len(distinct), failures=len(fails), exhaustive=False, _fails=_uniq(fails))
standin_noise_models.prop = "C09"


def standin_conversions(tier, seed):
    import cirq

    warnings.simplefilter("ignore")
    rng = random.Random(seed + 11)
    n = 60 if tier == "quick" else 600
    cases, fails = 0, []

    def bad(what, **kw):
        fails.append(dict(args={k: repr(v)[:400] for k, v in kw.items()}, failed=what, clause=what))

    for _ in range(n):
        c1, c2 = _channels(rng)
        ch = rng.choice(c1 + c2)
        cases += 1
        ks = [np.asarray(k, dtype=complex) for k in cirq.kraus(ch)]
        d = ks[0].shape[0]
        if not np.allclose(sum(k.conj().T @ k for k in ks), np.eye(d), atol=1e-7):
            bad("kraus operators are not trace preserving", channel=ch)
        S = cirq.kraus_to_superoperator(ks)
        J = cirq.kraus_to_choi(ks)
        rho = cirq.testing.random_density_matrix(d, random_state=rng.randrange(10 ** 6))
        want = sum(k @ rho @ k.conj().T for k in ks)
        if not np.allclose((S @ rho.reshape(-1)).reshape(d, d), want, atol=1e-7):
            bad("superoperator @ vec(rho) differs from sum K rho K^dagger", channel=ch)
        if not np.allclose(cirq.choi_to_superoperator(J), S, atol=1e-7) or not np.allclose(cirq.superoperator_to_choi(S), J, atol=1e-7):
            bad("choi <-> superoperator conversions disagree", channel=ch)
        for label, back in (("choi_to_kraus", cirq.choi_to_kraus(J)), ("superoperator_to_kraus", cirq.superoperator_to_kraus(S))):
            if not np.allclose(cirq.kraus_to_superoperator(back), S, atol=1e-6):
                bad(f"{label} does not describe the same map", channel=ch)
        if cirq.has_mixture(ch):
            mix = cirq.mixture(ch)
            if abs(sum(p for p, _ in mix) - 1) > 1e-8:
                bad("mixture probabilities do not sum to one", channel=ch)
            if not np.allclose(sum(p * np.kron(u, u.conj()) for p, u in mix), S, atol=1e-7):
                bad("mixture and kraus describe different maps", channel=ch)
        if not np.allclose(cirq.operation_to_superoperator(ch.on(*cirq.LineQubit.range(cirq.num_qubits(ch)))), S, atol=1e-7):
            bad("operation_to_superoperator differs", channel=ch)
        # a value that only knows how to apply itself to a density tensor: kraus() must recover the same map (complex Choi matrices included)
        class OnlyApply:
            def __init__(self, inner):
                self.inner = inner

            def _num_qubits_(self):
                return cirq.num_qubits(self.inner)

            def _apply_channel_(self, args):
                return cirq.apply_channel(self.inner, args)

        cu = cirq.testing.random_unitary(2, random_state=rng.randrange(10 ** 6))  # a generic complex basis change: the Choi matrix is not real
        inner = ch if cirq.num_qubits(ch) != 1 else cirq.KrausChannel([cu @ k @ cu.conj().T for k in ks])
        ks_in = [np.asarray(k, dtype=complex) for k in cirq.kraus(inner)]
        try:
            got = cirq.kraus(OnlyApply(inner), "no kraus")  # (with default None the protocol skips this fallback on purpose)
            if isinstance(got, str):
                got = None
                bad("kraus() of a value with only _apply_channel_ returns nothing", channel=inner)
        except Exception as ex:
            got = None
            bad(f"kraus() of a value with only _apply_channel_ raised {type(ex).__name__}", channel=inner)
        if got is not None and not np.allclose(cirq.kraus_to_superoperator(got), cirq.kraus_to_superoperator(ks_in), atol=1e-6):
            bad("kraus() recovered from _apply_channel_ describes a different map", channel=inner)
        if len({f["failed"] for f in fails}) >= 3:
            break
    # moments and circuits as channels (qubits and qudits): the Kraus operators of a moment are the tensor products of its operations'
    # operators in sorted-qubit order, a circuit's superoperator is the product of its moments' superoperators
    t0, b0, b1 = cirq.LineQid(0, dimension=3), cirq.LineQubit(1), cirq.LineQubit(2)
    shift3 = cirq.MatrixGate(np.roll(np.eye(3), 1, axis=0), qid_shape=(3,))
    pools = {"qubits": ([b0, b1], [cirq.bit_flip(0.25)(b0), cirq.amplitude_damp(0.3)(b1), cirq.H(b0), cirq.CNOT(b1, b0), cirq.phase_damp(0.4)(b1), cirq.depolarize(0.2)(b0)]),
             "qutrit and qubit": ([t0, b0], [shift3(t0), cirq.ZPowGate(dimension=3)(t0) ** 0.5, cirq.bit_flip(0.25)(b0), cirq.H(b0), cirq.X(b0).controlled_by(t0, control_values=[2]), cirq.amplitude_damp(0.3)(b0)])}
    for pname, (regs, pool) in pools.items():
        dims = [x.dimension for x in regs]
        Dm = int(np.prod(dims))
        for _ in range(4 if tier == "quick" else 30):
            moments = []
            for _m in range(rng.randrange(1, 4)):
                chosen, used = [], set()
                for o in rng.sample(pool, len(pool)):
                    if used.isdisjoint(o.qubits) and rng.random() < 0.7:
                        chosen.append(o)
                        used |= set(o.qubits)
                if chosen:
                    moments.append(cirq.Moment(chosen))
            if not moments:
                continue
            circ = cirq.Circuit(moments)
            cases += 1
            S_ref = np.eye(Dm * Dm, dtype=complex)
            ok = True
            for m in moments:
                full = [np.eye(1)]
                # reference Kraus set of the moment on the whole register: embed every operation's operators
                ks_m = [np.eye(Dm, dtype=complex)]
                for o in m.operations:
                    ks_m = [refsim.embed(np.asarray(k), list(o.qubits), regs) @ prev for prev in ks_m for k in cirq.kraus(o)]
                S_m = sum(np.kron(k, k.conj()) for k in ks_m)
                S_ref = S_m @ S_ref
                try:
                    got_m = cirq.kraus(m.expand_to(regs))
                    if not np.allclose(sum(np.kron(k, k.conj()) for k in got_m), S_m, atol=1e-7):
                        bad("cirq.kraus(moment) does not describe the tensor product of the operations' channels", moment=m, register=pname)
                        ok = False
                except Exception as ex:
                    bad(f"cirq.kraus(moment) raised {type(ex).__name__} although has_kraus(moment) is {cirq.has_kraus(m)}", moment=m, register=pname)
                    ok = False
            if ok and set(circ.all_qubits()) == set(regs):
                try:
                    if not np.allclose(circ._superoperator_(), S_ref, atol=1e-7):
                        bad("the circuit's superoperator is not the product of its moments' channels", circuit=circ, register=pname)
                except Exception as ex:
                    bad(f"Circuit._superoperator_ raised {type(ex).__name__} although _has_superoperator_ is {circ._has_superoperator_()}", circuit=circ, register=pname)
    return dict(function="cirq-core/cirq/qis/channels.py + protocols/kraus_protocol.py + protocols/mixture_protocol.py", case="conversions",
                bound=f"{n} seeded channels from 17 makers (incl. numeric Kraus / mixed-unitary / random-gate / two-qubit) with random density matrices; moments and circuits as channels on two qubits and on a qutrit + qubit",
                cases=cases, distinct=cases, failures=len(fails), exhaustive=False, _fails=_uniq(fails))
standin_conversions.prop = "C09"

def standin_final_density_scenarios(tier, seed):
    """fixed scenarios for cirq.final_density_matrix(circuit, noise=m, ignore_measurement_results=True) == measurement-averaged noisy state"""
    import cirq

    warnings.simplefilter("ignore")
    q = cirq.LineQubit.range(3)
    pd = cirq.NoiseModel.from_noise_model_like(cirq.phase_damp(0.2))
    ad = cirq.ConstantQubitNoiseModel(cirq.amplitude_damp(0.3))
    scen = [
        ("single-qubit terminal measurement, per-moment noise", cirq.Circuit(cirq.X(q[0]) ** 0.5, cirq.measure(q[0], key="k")), pd),
        ("mid-circuit single-qubit measurement, per-moment noise", cirq.Circuit(cirq.X(q[0]) ** 0.5, cirq.measure(q[0], key="k"), cirq.H(q[0]), cirq.H(q[1])), ad),
        ("classical control, per-moment noise", cirq.Circuit(cirq.X(q[0]) ** 0.5, cirq.measure(q[0], key="k"), cirq.X(q[1]).with_classical_controls("k")), ad),
        ("multi-qubit measurement, per-moment noise", cirq.Circuit(cirq.X(q[1]) ** 0.5, cirq.X(q[2]) ** 0.5, cirq.measure(q[0], q[2], key="k")), pd),
        ("multi-qubit measurement, no noise", cirq.Circuit(cirq.X(q[1]) ** 0.5, cirq.X(q[2]) ** 0.5, cirq.CZ(q[1], q[2]), cirq.measure(q[1], q[2], key="k"), cirq.H(q[2])), None),
    ]
    scen += [
        ("classical control after an asymmetric preparation, no noise", cirq.Circuit(cirq.X(q[0]) ** 0.3, cirq.T(q[0]), cirq.measure(q[0], key="k"), cirq.Y(q[1]).with_classical_controls("k") ** 0.5 if False else cirq.X(q[1]).with_classical_controls("k"), cirq.Y(q[1]) ** 0.3, cirq.H(q[2])), None),
        ("two controls on two keys, no noise", cirq.Circuit(cirq.H(q[0]), cirq.X(q[2]) ** 0.5, cirq.measure(q[0], key="k"), cirq.measure(q[2], key="m"), cirq.X(q[1]).with_classical_controls("k"), cirq.Z(q[0]).with_classical_controls("m"), cirq.H(q[0])), None),
    ]
    # readout confusion on a pair named in DESCENDING order (the matrix is not symmetric under exchanging the two qubits), followed by a control:
    # the measurement is deferred, so the confusion acts on the stand-in qubits of the deferred measurement
    M_ = np.array([[0.7, 0.3, 0.0, 0.0], [0.0, 1.0, 0.0, 0.0], [0.1, 0.0, 0.5, 0.4], [0.0, 0.2, 0.0, 0.8]])
    for key_ in ((1, 0), (0, 1)):
        for prep in ([cirq.X(q[0])], [cirq.X(q[0]) ** 0.5, cirq.X(q[1]) ** 0.3]):
            scen.append((f"confusion map on indices {key_} of a two-qubit measurement, then a control, no noise",
                         cirq.Circuit(prep, cirq.measure(q[0], q[1], key="k", confusion_map={key_: M_}), cirq.X(q[2]).with_classical_controls("k")), None))
    cases, fails = 0, []
    import itertools as _it
    runs = []
    for name, c, nm in scen:
        runs.append((name, c, nm, None))
        if nm is None:
            # an explicit qubit order (every permutation of the circuit's qubits): the result is the same state with its axes permuted
            for perm in _it.permutations(sorted(c.all_qubits())):
                runs.append((name + f", qubit_order={[str(x) for x in perm]}", c, nm, list(perm)))
    for name, c, nm, explicit in runs:
        cases += 1
        order = explicit or sorted(c.all_qubits())
        try:
            kw = {} if explicit is None else {"qubit_order": explicit}
            got = cirq.final_density_matrix(c, noise=nm, ignore_measurement_results=True, dtype=np.complex128, **kw)
            noisy = cirq.Circuit(nm.noisy_moments(c, sorted(c.all_qubits()))) if nm is not None else c
            want = refsim.ref_density(c, order) if name.startswith("confusion map") else sum(r for _, r in ref_density_branches(noisy, order))
        except Exception as ex:
            fails.append(dict(args=dict(scenario=name, circuit=repr(c)), failed="raised", clause=f"raised {ex!r}"))
            continue
        if not np.allclose(got, want, atol=1e-6):
            fails.append(dict(args=dict(scenario=name, circuit=repr(c)), failed="final_density_matrix-differs",
                              clause="cirq.final_density_matrix(circuit, noise=m, ignore_measurement_results=True) differs from the measurement-averaged state of the circuit m.noisy_moments produces"))
    return dict(function="cirq-core/cirq/sim/mux.py:final_density_matrix", case="final-density-scenarios", bound=f"{len(scen)} fixed scenarios; the noiseless ones under every explicit qubit order", cases=cases, distinct=cases,
                failures=len(fails), exhaustive=True, _fails=fails)
standin_final_density_scenarios.prop = "C09"

def standin_factoring(tier, seed):
    """factor / kron of density tensors and state vectors: every ordered subset of the axes of 3 qubits (and a qutrit layout)"""
    import itertools

    import cirq
    from cirq.linalg import transformations as tr

    warnings.simplefilter("ignore")
    rng = random.Random(seed + 21)
    cases, fails = 0, []

    def bad(what, **kw):
        fails.append(dict(args={k: repr(v)[:300] for k, v in kw.items()}, failed=what, clause=what))

    for shape in ((2, 2, 2), (2, 3, 2)):
        n = len(shape)
        for k in range(1, n):
            for axes in itertools.permutations(range(n), k):
                rest = [i for i in range(n) if i not in axes]
                da, db = int(np.prod([shape[i] for i in axes])), int(np.prod([shape[i] for i in rest]))
                a = cirq.testing.random_density_matrix(da, random_state=rng.randrange(10 ** 6))
                b = cirq.testing.random_density_matrix(db, random_state=rng.randrange(10 ** 6))
                sa, sb = [shape[i] for i in axes], [shape[i] for i in rest]
                # product state with `axes` carrying a (in that order) and the remaining axes carrying b
                t = np.kron(a, b).reshape(sa + sb + sa + sb)
                perm = list(axes) + rest
                inv = [perm.index(i) for i in range(n)]
                t = np.transpose(t, inv + [n + i for i in inv])
                cases += 1
                try:
                    e, r = tr.factor_density_matrix(t, list(axes), validate=True)
                    if not np.allclose(e.reshape(da, da), a, atol=1e-7) or not np.allclose(r.reshape(db, db), b, atol=1e-7):
                        bad("factor_density_matrix returned wrong factors for a product state", shape=shape, axes=axes)
                except ValueError as ex:
                    bad("factor_density_matrix rejects a genuine product state", shape=shape, axes=axes, error=str(ex))
                va = cirq.testing.random_superposition(da, random_state=rng.randrange(10 ** 6))
                vb = cirq.testing.random_superposition(db, random_state=rng.randrange(10 ** 6))
                v = np.transpose(np.kron(va, vb).reshape(sa + sb), inv)
                cases += 1
                try:
                    e, r = tr.factor_state_vector(v, list(axes), validate=True)
                    if abs(abs(np.vdot(e.reshape(-1), va)) - 1) > 1e-6 or abs(abs(np.vdot(r.reshape(-1), vb)) - 1) > 1e-6:
                        bad("factor_state_vector returned wrong factors for a product state", shape=shape, axes=axes)
                except ValueError as ex:
                    bad("factor_state_vector rejects a genuine product state", shape=shape, axes=axes, error=str(ex))
    # entangled inputs must be rejected
    ghz = np.zeros((2, 2, 2), dtype=complex)
    ghz[0, 0, 0] = ghz[1, 1, 1] = np.sqrt(0.5)
    rho = np.outer(ghz.reshape(-1), ghz.reshape(-1).conj()).reshape((2,) * 6)
    for axes in ([0], [1], [2], [0, 1], [2, 0]):
        cases += 1
        for name, fn, arg in (("factor_density_matrix", tr.factor_density_matrix, rho), ("factor_state_vector", tr.factor_state_vector, ghz)):
            try:
                fn(arg, axes, validate=True)
                bad(f"{name} accepts an entangled state", axes=axes)
            except ValueError:
                pass
    return dict(function="cirq-core/cirq/linalg/transformations.py:factor_density_matrix/factor_state_vector", case="factoring",
                bound="every ordered proper subset of axes of a (2,2,2) and a (2,3,2) register, random product states; GHZ rejected", cases=cases, distinct=cases,
                failures=len(fails), exhaustive=True, _fails=_uniq(fails))
standin_factoring.prop = "C09"

def standin_probabilistic_gates(tier, seed):
    """gate.with_probability(p), plain and nested with two different probabilities (shared with C03): Kraus operators and mixture describe
    rho -> p E(rho) + (1 - p) rho; and the density-matrix simulator applies that map"""
    import cirq
    from contracts.C03_gates import standin_probabilistic_gates as f

    r = dict(f(tier, seed))
    r["case"] = "probabilistic-gates"
    fails = list(r.get("_fails", []))
    cases = r["cases"]
    q = cirq.LineQubit(0)
    for sub, a_, b_ in ((cirq.X, 0.6, 0.8), (cirq.amplitude_damp(0.3), 0.25, 0.5), (cirq.H, 0.9, 0.3)):
        cases += 1
        g = sub.with_probability(a_).with_probability(b_)
        rho0 = np.array([[0.7, 0.2 - 0.1j], [0.2 + 0.1j, 0.3]], dtype=np.complex128)
        want = a_ * b_ * sum(k @ rho0 @ k.conj().T for k in cirq.kraus(sub)) + (1 - a_ * b_) * rho0
        got = cirq.DensityMatrixSimulator(dtype=np.complex128).simulate(cirq.Circuit(g.on(q)), initial_state=rho0).final_density_matrix
        if not np.allclose(got, want, atol=1e-8):
            fails.append(dict(args=dict(gate=repr(g)[:300]), failed="probabilistic-gate-simulated", clause=f"the density-matrix simulator does not apply {a_} * {b_} E + (1 - {a_} * {b_}) identity for a nested probabilistic gate"))
    r.update(cases=cases, distinct=cases, failures=len(fails), _fails=fails[:3])
    return r
standin_probabilistic_gates.prop = "C09"


STANDINS = [standin_probabilistic_gates, standin_factoring, standin_density, standin_trajectories, standin_noise_models, standin_conversions, standin_final_density_scenarios]
NOT_COVERED = ["device-derived noise (NoiseModelFromNoiseProperties / superconducting qubit properties): not covered", "qudit channels: only via C02/C04 stand-ins",
               "entanglement fidelity / measures (qis/measures.py): not covered"]
EXPLANATION = "simulators end to end (density matrix, exact enumeration of state-vector trajectories, noise models, numeric conversions): bounded stand-ins. "
