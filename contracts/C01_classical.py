"""C01 — classical (basis-state) simulator: each supported gate acts on the basis state as its matrix does.

The gate object is concrete (one case per gate), the register length, the basis digits and the axes the gate's qubits
are mapped to are symbolic (distinct, in range).  The expected action is read off `cirq.unitary(gate)` when the
contract is built: the matrix of every supported gate is a permutation matrix, i.e. a map on k-bit tuples."""
import itertools

import numpy as np
import z3

from pyvc import sym
from pyvc.api import Contract, Case
from pyvc.interp import SRec
from pyvc.sym import SSeq, SList, fresh_int

F = "cirq-core/cirq/sim/classical_simulator.py"


def classical_action(gate):
    """{input bits -> output bits} from the gate's unitary (must be a permutation matrix)."""
    import cirq

    u = cirq.unitary(gate)
    k = cirq.num_qubits(gate)
    table = {}
    for col in range(2 ** k):
        rows = np.flatnonzero(np.abs(u[:, col]) > 1e-9)
        assert len(rows) == 1 and abs(u[rows[0], col] - 1) < 1e-9, "not a permutation matrix"
        table[tuple(int(b) for b in format(col, f"0{k}b"))] = tuple(int(b) for b in format(int(rows[0]), f"0{k}b"))
    return table


def _gates():
    import cirq

    return {
        "X": cirq.X, "X**3": cirq.X ** 3, "X**2 (identity)": cirq.X ** 2, "CNOT": cirq.CNOT, "SWAP": cirq.SWAP, "CSWAP": cirq.CSWAP, "TOFFOLI": cirq.TOFFOLI,
        "C0-X (control value 0)": cirq.ControlledGate(cirq.X, control_values=[0]),
        "CC-X via ControlledGate": cirq.ControlledGate(cirq.X, num_controls=2),
        "C-SWAP via ControlledGate": cirq.ControlledGate(cirq.SWAP),
        "C(0|1)C1-X sum of products": cirq.ControlledGate(cirq.X, control_values=cirq.SumOfProducts([(0, 1), (1, 0)])),
        "QubitPermutation[1,0]": cirq.QubitPermutationGate([1, 0]),
        "QubitPermutation[1,2,0]": cirq.QubitPermutationGate([1, 2, 0]),
        "QubitPermutation[2,0,1]": cirq.QubitPermutationGate([2, 0, 1]),
        "QubitPermutation[0,2,1]": cirq.QubitPermutationGate([0, 2, 1]),
    }


def _mk_setup(gate):
    def setup(interp):
        import cirq
        import cirq.sim.classical_simulator as cs
        from pyvc import paths

        k = cirq.num_qubits(gate)
        qs = cirq.LineQubit.range(10, 10 + k)
        p = paths.current()
        b0 = SSeq.fresh(sym.INT, "basis", list)
        b0.elem_pred = lambda t: z3.And(t >= 0, t <= 1)  # every digit read from the entry state is a bit
        basis = SList(b0)
        axes = [fresh_int(f"axis{i}") for i in range(k)]
        for a in axes:
            p.assume(z3.And(a.e >= 0, a.e < basis.v.n))
        if k > 1:
            p.assume(z3.Distinct(*[a.e for a in axes]))
        state = SRec(cs.ClassicalBasisState, {"basis": basis})
        self_ = SRec(cs.ClassicalBasisSimState, {"qubit_map": dict(zip(qs, axes)), "_state": state})
        return {"self": self_, "action": gate, "qubits": tuple(qs), "AXES": axes, "OLD": basis.v}
    return setup


def _post(gate):
    """clauses: for every input tuple t of the gate's bits, the new bits on the mapped axes are table[t]; other axes unchanged"""
    table = classical_action(gate)
    k = len(next(iter(table)))
    clauses = []
    for t, out in sorted(table.items()):
        pre = " and ".join(f"OLD[AXES[{i}]] == {t[i]}" for i in range(k))
        post = " and ".join(f"self._state.basis[AXES[{i}]] == {out[i]}" for i in range(k))
        clauses.append(f"not ({pre}) or ({post})")
    frame = "all(self._state.basis[j] == OLD[j] or " + " or ".join(f"j == AXES[{i}]" for i in range(k)) + " for j in range(len(OLD)))"
    return clauses + [frame, "len(self._state.basis) == len(OLD)", "result == True"]


Contract(
    F + ":ClassicalBasisSimState._act_on_fallback_", "C01",
    cases=[Case(name, {}, setup=_mk_setup(g), ensures=_post(g)) for name, g in _gates().items()],
    notes="one case per supported gate object; register length, digits and axis placement symbolic",
)


def _gen_classical(tier, seed):
    return iter(())


# ---- bounded stand-in: ClassicalStateSimulator vs the state-vector reference on permuted / non-adjacent qubits --------
def standin_classical(tier, seed):
    import random
    import cirq
    from contracts import refsim

    rng = random.Random(seed)
    cases, fails, distinct = 0, [], set()
    gates = list(_gates().values())
    for _ in range(60 if tier == "quick" else 1500):
        n = rng.randrange(3, 6)
        qs = cirq.LineQubit.range(n)
        ops = [cirq.X(q) for q in qs if rng.random() < 0.5]
        for _g in range(rng.randrange(1, 5)):
            g = rng.choice(gates)
            k = cirq.num_qubits(g)
            ops.append(g.on(*rng.sample(qs, k)))
        c = cirq.Circuit(ops, cirq.measure(*qs, key="m"))
        order = rng.sample(qs, n)
        got = cirq.ClassicalStateSimulator().run(c, repetitions=1).measurements["m"][0].tolist()
        psi = refsim.ref_unitary(cirq.Circuit(ops), qs)[:, 0]
        idx = int(np.argmax(np.abs(psi)))
        want = [int(b) for b in format(idx, f"0{n}b")]
        cases += 1
        distinct.add(repr(c))
        if got != want:
            fails.append(dict(args=dict(circuit=repr(c)), failed="classical-vs-matrices", clause=f"ClassicalStateSimulator measured {got}, the operation matrices give {want}"))
            if len(fails) >= 3:
                break
    # qutrit registers: the classical simulator either refuses the shift gate or moves the digit like the matrices do
    t = cirq.LineQid(0, dimension=3)
    X3 = cirq.XPowGate(dimension=3)
    for e in (1, 2, 3, 4):
        for start in (0, 1, 2):
            c3 = cirq.Circuit([X3(t)] * start, X3(t) ** e, cirq.measure(t, key="m"))
            cases += 1
            try:
                got3 = int(cirq.ClassicalStateSimulator().run(c3, repetitions=1).measurements["m"][0][0])
            except (ValueError, TypeError):
                continue  # refusing is fine
            want3 = (start + e) % 3
            if got3 != want3:
                fails.append(dict(args=dict(circuit=repr(c3)), failed="classical-vs-matrices", clause=f"ClassicalStateSimulator measured {got3} on a qutrit, the shift gate's matrix gives {want3}"))
    return dict(function=F + ":ClassicalStateSimulator.run", case="vs-matrices",
                bound="seeded circuits of <= 4 supported gates on random (permuted, non-adjacent) qubits of 3-5 wire registers, random X-prepared inputs",
                cases=cases, distinct=len(distinct), failures=len(fails), exhaustive=False, _fails=fails[:3])
standin_classical.prop = "C01"
STANDINS = [standin_classical]

REPLAYERS = {F + ":ClassicalBasisSimState._act_on_fallback_": lambda ob, seed: (standin_classical("thorough", seed)["_fails"] or [None])[0]}

CANARIES = [
    dict(name="CNOT target/control swapped", file=F, function=F + ":ClassicalBasisSimState._act_on_fallback_",
         find="self._state.basis[q] ^= self._state.basis[c]\n", replace="self._state.basis[c] ^= self._state.basis[q]\n"),
    dict(name="TOFFOLI uses OR of controls", file=F, function=F + ":ClassicalBasisSimState._act_on_fallback_",
         find="self._state.basis[q] ^= self._state.basis[c1] & self._state.basis[c2]", replace="self._state.basis[q] ^= self._state.basis[c1] | self._state.basis[c2]"),
    dict(name="controls ignored when off", file=F, function=F + ":ClassicalBasisSimState._act_on_fallback_",
         find="            if controls_state not in gate.control_values.expand():", replace="            if False:"),
]
