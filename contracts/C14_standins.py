"""C14 — bounded / exhaustive-small stand-ins: every Pauli-string operation vs the operation on the matrices."""
import itertools
import random

import numpy as np

F = "cirq-core/cirq/ops"


def _mat(ps, qs):
    """matrix of a PauliString / PauliSum / DensePauliString-on-qubits on the ordered qubits qs"""
    import cirq

    if isinstance(ps, cirq.PauliSum):
        return ps.matrix(qs)
    if isinstance(ps, (cirq.PauliString, cirq.MutablePauliString)):
        ps = ps.frozen() if isinstance(ps, cirq.MutablePauliString) else ps
        m = np.eye(1, dtype=complex)
        for q in qs:
            g = ps.get(q)
            m = np.kron(m, cirq.unitary(g) if g is not None else np.eye(2))
        return complex(ps.coefficient) * m
    raise TypeError(type(ps))


def _strings(qs, coeffs, max_weight=None):
    import cirq

    out = []
    for paulis in itertools.product([None, cirq.X, cirq.Y, cirq.Z], repeat=len(qs)):
        d = {q: p for q, p in zip(qs, paulis) if p is not None}
        for c in coeffs:
            out.append(cirq.PauliString(d, coefficient=c))
    return out


def standin_algebra(tier, seed):
    import cirq

    rng = random.Random(seed)
    qs = cirq.LineQubit.range(2)
    coeffs = [1, -1, 1j, 0.5 - 2j]
    S = _strings(qs, coeffs)
    cases, fails = 0, []

    def bad(what, **kw):
        if len(fails) < 12:
            fails.append(dict(args={k: repr(v) for k, v in kw.items()}, failed=what, clause=what))

    # products, sums, commutation: ALL ordered pairs on 2 qubits with 4 coefficients (64 x 64)
    for a, b in itertools.product(S, S):
        cases += 1
        ma, mb = _mat(a, qs), _mat(b, qs)
        if not np.allclose(_mat(a * b, qs), ma @ mb, atol=1e-9):
            bad("PauliString.__mul__ differs from the matrix product", a=a, b=b)
        if not np.allclose((a + b).matrix(qs), ma + mb, atol=1e-9):
            bad("PauliString.__add__ differs from the matrix sum", a=a, b=b)
        if cirq.commutes(a, b) != np.allclose(ma @ mb, mb @ ma, atol=1e-9):
            bad("commutes() disagrees with the matrices", a=a, b=b)
        m = a.mutable_copy()
        m.inplace_left_multiply_by(b)
        m2 = a.mutable_copy()
        m2.inplace_right_multiply_by(b)
        # in-place names are specified through the immutable product they implement (pinned upstream): left -> a*b, right -> b*a
        if not np.allclose(_mat(m, qs), _mat(a * b, qs), atol=1e-9) or not np.allclose(_mat(m2, qs), _mat(b * a, qs), atol=1e-9):
            bad("MutablePauliString in-place multiply differs from the immutable product", a=a, b=b)
    # Pauli-like OPERATIONS as factors (powers of X/Y/Z with integer exponents and global shifts, rotations by pi, parity gates): the
    # product is the matrix product, phase included
    likes = [cirq.XPowGate(exponent=e, global_shift=sh)(qs[0]) for e in (1, -1, 3, 2, 0) for sh in (0, 0.5, -0.5, 0.25)]
    likes += [cirq.YPowGate(exponent=e, global_shift=sh)(qs[1]) for e in (1, 3, 2) for sh in (0, 0.5)] + [cirq.ZPowGate(exponent=e, global_shift=sh)(qs[0]) for e in (1, -1, 2) for sh in (0, -0.5, 1)]
    likes += [cirq.rx(np.pi)(qs[0]), cirq.ry(-np.pi)(qs[1]), cirq.rz(np.pi)(qs[0]), cirq.XXPowGate(exponent=1, global_shift=0.5)(*qs), cirq.ZZ(*qs), cirq.YYPowGate(exponent=3, global_shift=-0.5)(*qs)]
    # ... the same operations carrying tags (the product goes through the tag wrapper's own __mul__ / __rmul__), and the plain Paulis tagged
    likes += [o.with_tags("gauge") for o in likes[::4]] + [cirq.X(qs[0]).with_tags("t"), cirq.Y(qs[0]).with_tags("t"), cirq.Z(qs[1]).with_tags("t", "u")]
    tagged_paulis = likes[-3:]
    for o1, o2 in itertools.product(tagged_paulis + [cirq.X(qs[0]), cirq.Y(qs[0]), cirq.Z(qs[0]) ** 3], tagged_paulis):
        cases += 1
        m1, m2 = (cirq.Circuit(o).unitary(qubit_order=qs, qubits_that_should_be_present=qs) for o in (o1, o2))
        for label, f, want in (("a * tagged", lambda: o1 * o2, m1 @ m2), ("tagged * a", lambda: o2 * o1, m2 @ m1)):
            try:
                got = f()
            except TypeError:
                continue
            if not np.allclose(_mat(got, qs), want, atol=1e-9):
                bad(f"{label}: product of Pauli operations (one carrying tags) differs from the matrix product", a=o1, b=o2)
    for op in likes:
        mo = cirq.Circuit(op).unitary(qubit_order=qs, qubits_that_should_be_present=qs)
        for a in S[::5]:
            cases += 1
            ma = _mat(a, qs)
            for label, f, want in (("a * op", lambda: a * op, ma @ mo), ("op * a", lambda: op * a, mo @ ma)):
                try:
                    got = f()
                except TypeError:
                    continue
                if not np.allclose(_mat(got, qs), want, atol=1e-9):
                    bad(f"{label} with a Pauli-like operation differs from the matrix product (phase included)", a=a, op=op)
    # scalar multiples, negation, powers
    for a in S:
        ma = _mat(a, qs)
        for c in (2, -1j, 0.25 + 1j):
            cases += 1
            if not np.allclose(_mat(a * c, qs), ma * c, atol=1e-9) or not np.allclose(_mat(c * a, qs), ma * c, atol=1e-9):
                bad("scalar multiple differs from the matrix", a=a, c=c)
        if not np.allclose(_mat(-a, qs), -ma, atol=1e-9):
            bad("negation differs", a=a)
        for k in (0, 1, 2, -1):
            try:
                p = a ** k
            except (TypeError, ValueError):
                continue
            if p is NotImplemented:
                continue
            cases += 1
            want = np.linalg.matrix_power(ma, k) if k >= 0 else np.linalg.inv(ma)
            got = _mat(p, qs) if isinstance(p, (cirq.PauliString, cirq.PauliSum)) else None
            if got is not None and not np.allclose(got, want, atol=1e-9):
                bad("integer power differs from the matrix power", a=a, k=k)
        # fractional power of a Hermitian unitary single/multi-qubit string: exp form
        if abs(a.coefficient) == 1 and a.coefficient in (1, -1) and len(a) >= 1:
            for t in (0.5, 0.25):
                try:
                    g = a ** t
                except (TypeError, ValueError):
                    continue
                if g is NotImplemented or not cirq.has_unitary(g):
                    continue
                cases += 1
                # Cirq's convention for a string c*P with |c| = 1: (c P)**t = c**t * P**t (as the multi-qubit branch implements through
                # PauliStringPhasor); P**t has eigenvalue 1 on P = +1 and e^{i pi t} on P = -1.  Compared up to global phase.
                P0 = ma / a.coefficient
                w, v = np.linalg.eigh(P0)
                want = (v * np.exp(1j * np.pi * t * (1 - w) / 2)) @ v.conj().T
                got = cirq.unitary(g)
                full = got if got.shape == want.shape else None
                if full is None:
                    gq = list(g.qubits)
                    from contracts import refsim
                    full = refsim.embed(got, gq, list(qs))
                if not cirq.allclose_up_to_global_phase(full, want, atol=1e-7):
                    bad("fractional power of a Pauli string is not the matrix power (up to global phase)", a=a, t=t)
    # dense pauli strings
    for s1, s2 in itertools.product(["XY", "IZ", "YY", "ZX", "II"], repeat=2):
        for c1, c2 in ((1, 1), (-1, 1j), (1j, -1j)):
            d1, d2 = cirq.DensePauliString(s1, coefficient=c1), cirq.DensePauliString(s2, coefficient=c2)
            cases += 1
            if not np.allclose(cirq.unitary(d1 * d2), cirq.unitary(d1) @ cirq.unitary(d2), atol=1e-9):
                bad("DensePauliString.__mul__ differs from the matrix product", a=d1, b=d2)
            md = cirq.MutableDensePauliString(s1, coefficient=c1)
            md *= d2
            if not np.allclose(cirq.unitary(md), cirq.unitary(d1) @ cirq.unitary(d2), atol=1e-9):
                bad("MutableDensePauliString.__imul__ differs from the matrix product", a=d1, b=d2)
    q0 = qs[0]
    for d, other in ((cirq.DensePauliString("X"), -cirq.X(q0)), (cirq.DensePauliString("Z", coefficient=1j), 1j * cirq.Y(q0)), (cirq.DensePauliString("XY"), cirq.Z(qs[1]) * -1j)):
        try:
            prod = d * other
        except TypeError:
            continue
        if prod is NotImplemented:
            continue
        cases += 1
        want = cirq.unitary(d) @ _mat(other if isinstance(other, cirq.PauliString) else cirq.PauliString(other), qs[: len(d)])
        if not np.allclose(cirq.unitary(prod), want, atol=1e-9):
            bad("DensePauliString * PauliString drops the operand's coefficient", a=d, b=other)
    # dense x sparse: the sparse operand's line qubits are the dense positions; commutation and products agree with the matrices whatever
    # order the sparse string was written in, and an operand without a dense position (negative index) is refused
    L = cirq.LineQubit
    dense_set = [cirq.DensePauliString("IIZ"), cirq.DensePauliString("XYZ", coefficient=-1), cirq.DensePauliString("ZI")]
    sparse_set = [cirq.X(L(2)) * cirq.Z(L(0)), cirq.Z(L(0)) * cirq.X(L(2)), cirq.Y(L(1)) * 1j, cirq.X(L(2)) * cirq.Z(L(-1)), cirq.Z(L(-1)) * cirq.X(L(2)), cirq.X(L(-1)) * 1, cirq.Z(L(1)) * cirq.X(L(0))]
    for d, sp in itertools.product(dense_set, sparse_set):
        cases += 1
        negative = any(x.x < 0 for x in sp.qubits)
        n_ = max(len(d), max(x.x for x in sp.qubits) + 1)
        reg = [L(i) for i in range(n_)]
        for what, fn in (("commutes", lambda: cirq.commutes(d, sp)), ("product", lambda: d * sp)):
            try:
                got = fn()
            except (ValueError, TypeError, IndexError) as ex:
                if not negative or isinstance(ex, IndexError):
                    bad(f"dense x sparse {what} raised {type(ex).__name__}", a=d, b=sp)
                continue
            if negative:
                bad(f"dense x sparse {what} accepted an operand on a line qubit with a negative index (it has no dense position)", a=d, b=sp, got=got)
                continue
            Md, Ms = _mat(d.on(*reg[: len(d)]), reg), _mat(sp, reg)
            if what == "commutes" and got in (True, False) and got != bool(np.allclose(Md @ Ms, Ms @ Md, atol=1e-9)):
                bad("commutes(dense, sparse) disagrees with the matrices", a=d, b=sp, got=got)
            if what == "product" and got is not NotImplemented:
                pm = cirq.unitary(got) if len(got) == n_ else np.kron(cirq.unitary(got), np.eye(2 ** (n_ - len(got))))
                if not np.allclose(pm, Md @ Ms, atol=1e-9):
                    bad("dense * sparse differs from the matrix product", a=d, b=sp)
    return dict(function=F + "/{pauli_string,dense_pauli_string,linear_combinations}.py[algebra vs matrices]", case="algebra",
                bound="all 64x64 ordered pairs of 2-qubit Pauli strings with coefficients {1,-1,i,0.5-2i}; scalar multiples; integer and fractional powers; dense strings; dense x sparse operands (any writing order, negative indices refused)",
                cases=cases, distinct=cases, failures=len(fails), exhaustive=True, _fails=fails[:6])
standin_algebra.prop = "C14"


def standin_conjugation(tier, seed):
    """conjugation by Clifford operations and op lists: C^dagger P C (after) / C P C^dagger (before) vs matrices"""
    import cirq
    from contracts import refsim

    rng = random.Random(seed)
    qs = cirq.LineQubit.range(3)
    cliff1 = [cirq.H, cirq.S, cirq.X ** 0.5, cirq.Y ** -0.5, cirq.Z, cirq.SingleQubitCliffordGate.X_sqrt]
    cliff2 = [cirq.CNOT, cirq.CZ, cirq.SWAP, cirq.ISWAP]
    cases, fails = 0, []
    for _ in range(150 if tier == "quick" else 3000):
        d = {q: rng.choice([cirq.X, cirq.Y, cirq.Z]) for q in qs if rng.random() < 0.7}
        p = cirq.PauliString(d, coefficient=rng.choice([1, -1, 1j]))
        ops = []
        for _k in range(rng.randrange(1, 4)):
            ops.append(rng.choice(cliff2).on(*rng.sample(qs, 2)) if rng.random() < 0.4 else rng.choice(cliff1).on(rng.choice(qs)))
        U = refsim.ref_unitary(cirq.Circuit(ops), list(qs))
        P = _mat(p, qs)
        cases += 1
        want_after = U @ P @ U.conj().T      # the string that, applied after the ops, equals P applied before them
        want_before = U.conj().T @ P @ U
        arg = ops if rng.random() < 0.5 else [ops[: len(ops) // 2], ops[len(ops) // 2:]]
        checks = [("PauliString.after", lambda: p.after(arg), want_after), ("PauliString.before", lambda: p.before(arg), want_before),
                  ("PauliString.conjugated_by", lambda: p.conjugated_by(arg), want_before),
                  ("MutablePauliString.inplace_after", lambda: p.mutable_copy().inplace_after(arg), want_after),
                  ("MutablePauliString.inplace_before", lambda: p.mutable_copy().inplace_before(arg), want_before)]
        for name, f, want in checks:
            try:
                got = f()
            except Exception as ex:
                fails.append(dict(args=dict(pauli=repr(p), ops=repr(ops)), failed=name, clause=f"{name} raised {ex!r}"))
                continue
            if not np.allclose(_mat(got, qs), want, atol=1e-8):
                fails.append(dict(args=dict(pauli=repr(p), ops=repr(ops)), failed=name, clause=f"{name} differs from conjugating the matrix"))
        # the same for a phasor exp(i pi (e_neg P- + e_pos P+)) over the string, with and without explicitly listed identity qubits: C^dagger U C as matrices
        # on the register (the conjugated phasor may act on fewer or more qubits; it is embedded with identities)
        real = cirq.PauliString(d, coefficient=rng.choice([1, -1]))
        if len(d):
            listed = [q for q in qs if q in d or rng.random() < 0.5]
            for ph in (cirq.PauliStringPhasor(real, exponent_neg=rng.choice([0.25, 0.5, -0.3]), exponent_pos=rng.choice([0, 0.1])),
                       cirq.PauliStringPhasor(real, qubits=listed, exponent_neg=rng.choice([0.25, 1.0, -0.3]), exponent_pos=rng.choice([0, -0.2]))):
                cases += 1
                try:
                    got = ph.conjugated_by(arg)
                    gm = cirq.Circuit(got).unitary(qubit_order=qs, qubits_that_should_be_present=qs)
                except Exception as ex:
                    fails.append(dict(args=dict(phasor=repr(ph), ops=repr(ops)), failed="PauliStringPhasor.conjugated_by", clause=f"raised {ex!r}"))
                    continue
                pm = cirq.Circuit(ph).unitary(qubit_order=qs, qubits_that_should_be_present=qs)
                if not np.allclose(gm, U.conj().T @ pm @ U, atol=1e-8):
                    fails.append(dict(args=dict(phasor=repr(ph), ops=repr(ops), result=repr(got)), failed="PauliStringPhasor.conjugated_by", clause="PauliStringPhasor.conjugated_by differs from conjugating the phasor's matrix"))
        if len(fails) >= 6:
            break
    return dict(function=F + "/pauli_string.py[after/before/conjugated_by/inplace_*]", case="conjugation",
                bound="seeded Pauli strings on 3 qubits (and phasors over them, with and without listed identity qubits) x lists (also nested) of 1-3 Clifford operations", cases=cases, distinct=cases, failures=len(fails),
                exhaustive=False, _fails=fails[:6])
standin_conjugation.prop = "C14"


def standin_expectation_and_phasor(tier, seed):
    import cirq
    from contracts import refsim

    rng = random.Random(seed)
    cases, fails = 0, []
    qs = cirq.LineQubit.range(3)
    for _ in range(40 if tier == "quick" else 600):
        d = {q: rng.choice([cirq.X, cirq.Y, cirq.Z]) for q in qs if rng.random() < 0.7}
        p = cirq.PauliString(d, coefficient=rng.choice([1, -1, 0.5]))
        psi = np.array([complex(rng.gauss(0, 1), rng.gauss(0, 1)) for _ in range(8)])
        psi /= np.linalg.norm(psi)
        order = rng.sample(qs, 3)
        qmap = {q: i for i, q in enumerate(order)}
        P = _mat(p, order)
        cases += 1
        ev = p.expectation_from_state_vector(psi.astype(np.complex128), qmap)
        if abs(ev - np.vdot(psi, P @ psi)) > 1e-6:
            fails.append(dict(args=dict(pauli=repr(p), order=repr(order)), failed="expectation_from_state_vector", clause="differs from <psi|P|psi>"))
        rho = np.outer(psi, psi.conj())
        ev2 = p.expectation_from_density_matrix(rho.astype(np.complex128), qmap)
        if abs(ev2 - np.trace(rho @ P)) > 1e-6:
            fails.append(dict(args=dict(pauli=repr(p), order=repr(order)), failed="expectation_from_density_matrix", clause="differs from tr(rho P)"))
        # PauliStringPhasor: exp form, incl. identity qubits listed explicitly
        if p.coefficient in (1, -1) and len(p) >= 1:
            en, ep = rng.choice([(0.3, 0), (0.25, -0.5), (1, 0)])
            for extra in (False, True):
                try:
                    ph = cirq.PauliStringPhasor(p, qubits=list(qs) if extra else None, exponent_neg=en, exponent_pos=ep)
                except Exception:
                    continue
                pq = list(ph.qubits)
                Pq = _mat(p, pq)
                w, v = np.linalg.eigh(Pq)
                want = (v * np.exp(1j * np.pi * np.where(w > 0, ep, en))) @ v.conj().T
                cases += 1
                got = cirq.unitary(ph)
                if not np.allclose(got, want, atol=1e-7):
                    fails.append(dict(args=dict(phasor=repr(ph)), failed="PauliStringPhasor.unitary", clause="unitary() is not exp(i pi (e+ P+ + e- P-))"))
                dec = cirq.decompose_once(ph)
                U = refsim.ref_unitary(cirq.Circuit(dec), pq)
                if not np.allclose(U, want, atol=1e-7):
                    fails.append(dict(args=dict(phasor=repr(ph), identity_qubits_listed=extra), failed="PauliStringPhasor.decompose",
                                      clause="decomposition of the phasor differs from exp(i pi (e+ P+ + e- P-))"))
        if len(fails) >= 6:
            break
    return dict(function=F + "/{pauli_string,pauli_string_phasor}.py[expectation values, phasors]", case="expectation",
                bound="seeded 3-qubit strings x random states x permuted qubit maps; phasors with and without explicitly listed identity qubits",
                cases=cases, distinct=cases, failures=len(fails), exhaustive=False, _fails=fails[:6])
standin_expectation_and_phasor.prop = "C14"
def _sum_matrix(terms, qs):
    """independent matrix of a list of (coefficient, {qubit: 'X'|'Y'|'Z'}) terms on the ordered qubits qs"""
    P = {"X": np.array([[0, 1], [1, 0]], dtype=complex), "Y": np.array([[0, -1j], [1j, 0]]), "Z": np.diag([1, -1]).astype(complex)}
    tot = np.zeros((2 ** len(qs),) * 2, dtype=complex)
    for c, d in terms:
        m = np.eye(1, dtype=complex)
        for q in qs:
            m = np.kron(m, P[d[q]] if q in d else np.eye(2))
        tot += c * m
    return tot


def standin_pauli_sums(tier, seed):
    """PauliSum / PauliSumExponential: construction, arithmetic, relabelling by EVERY permutation and injection of qubits, matrices"""
    import scipy.linalg as sl

    import cirq

    rng = random.Random(seed + 31)
    cases, fails = 0, []
    G = {"X": cirq.X, "Y": cirq.Y, "Z": cirq.Z}

    def bad(what, **kw):
        fails.append(dict(args={k: repr(v)[:400] for k, v in kw.items()}, failed=what, clause=what))

    pool = cirq.LineQubit.range(4)
    for _ in range(40 if tier == "quick" else 600):
        n = rng.choice([1, 2, 3])
        qs = rng.sample(pool, n)
        terms = []
        for _ in range(rng.randrange(1, 4)):
            sub = rng.sample(qs, rng.randrange(1, n + 1))
            terms.append((rng.choice([1, -1, 0.5, 2, 1j, -0.5j, 0.25 + 0.5j]), {q: rng.choice("XYZ") for q in sub}))
        ps = sum(cirq.PauliString({q: G[p] for q, p in d.items()}, coefficient=c) for c, d in terms)
        if not isinstance(ps, cirq.PauliSum):
            ps = cirq.PauliSum.from_pauli_strings([ps])
        own = list(ps.qubits)
        if not own:
            continue  # everything cancelled
        cases += 1
        if not np.allclose(ps.matrix(own), _sum_matrix(terms, own), atol=1e-9):
            bad("PauliSum.matrix differs from the sum of Kronecker products", terms=terms)
            continue
        # relabelling: with_qubits is positional over the sum's sorted qubits
        targets = [list(p) for p in itertools.permutations(own)] + [rng.sample(pool, len(own)) for _ in range(2)]
        for new in targets:
            cases += 1
            try:
                r = ps.with_qubits(*new)
            except Exception as ex:
                bad(f"PauliSum.with_qubits raised {type(ex).__name__}", terms=terms, new_qubits=new)
                continue
            m = dict(zip(own, new))
            # strings on a qubit that is no longer among the sum's qubits have cancelled exactly
            want_terms = [(c, {m[q]: p for q, p in d.items()}) for c, d in terms if all(q in m for q in d)]
            order = sorted(set(new))
            if not np.allclose(r.matrix(order), _sum_matrix(want_terms, order), atol=1e-9):
                bad("PauliSum.with_qubits does not move every term to the positionally corresponding qubit", terms=terms, old_qubits=own, new_qubits=new)
            herm = all(abs(complex(c).imag) < 1e-12 for c, _ in terms)
            if herm:
                try:
                    ex1 = cirq.PauliSumExponential(ps, exponent=0.3)
                    ex2 = ex1.with_qubits(*new)
                    if all(cirq.commutes(a, b) for a in ps for b in ps):
                        want = sl.expm(1j * 0.3 * _sum_matrix(want_terms, order))
                        got = cirq.Circuit(ex2).unitary(qubit_order=order, qubits_that_should_be_present=order) if hasattr(ex2, "__iter__") else ex2.matrix()
                        if got.shape == want.shape and not np.allclose(got, want, atol=1e-7) and not cirq.allclose_up_to_global_phase(got, want, atol=1e-7):
                            bad("PauliSumExponential.with_qubits: matrix differs from exp(i t H) of the relabelled sum", terms=terms, new_qubits=new)
                except (TypeError, ValueError, NotImplementedError):
                    pass
        # arithmetic against matrices
        other_terms = [(rng.choice([1, -2, 0.5j]), {q: rng.choice("XYZ") for q in rng.sample(own, rng.randrange(1, len(own) + 1))})]
        other = cirq.PauliSum.from_pauli_strings([cirq.PauliString({q: G[p] for q, p in d.items()}, coefficient=c) for c, d in other_terms])
        A, B = _sum_matrix(terms, own), _sum_matrix(other_terms, own)
        for label, got, want in (("+", ps + other, A + B), ("-", ps - other, A - B), ("*", ps * other, A @ B), ("scalar *", 2.5j * ps, 2.5j * A), ("**2", ps ** 2, A @ A), ("neg", -ps, -A)):
            cases += 1
            qq = sorted(set(own) | set(got.qubits))
            wantm = want if qq == own else want
            if not np.allclose(got.matrix(own) if set(got.qubits) <= set(own) else got.matrix(qq), wantm, atol=1e-8):
                bad(f"PauliSum {label} differs from the matrix operation", terms=terms, other=other_terms)
        if len({f["failed"] for f in fails}) >= 3:
            break
    seen, uniq = set(), []
    for f in fails:
        if f["failed"] not in seen:
            seen.add(f["failed"])
            uniq.append(f)
    return dict(function="cirq-core/cirq/ops/linear_combinations.py:PauliSum / pauli_sum_exponential.py", case="pauli-sums",
                bound="seeded sums of <= 3 terms on <= 3 of 4 qubits; every permutation of the sum's qubits and random injections for with_qubits; + - * ** neg against matrices",
                cases=cases, distinct=cases, failures=len(fails), exhaustive=False, _fails=uniq[:3])
standin_pauli_sums.prop = "C14"

def standin_combination_powers(tier, seed):
    """integer powers of linear combinations of Pauli gates / Pauli sums equal the matrix power (coefficients incl. the cases where the odd
    part of the binomial expansion cancels exactly)"""
    import itertools
    import cirq

    rng = random.Random(seed + 3)
    cases, fails = 0, []
    X, Y, Z, I = (cirq.unitary(g) for g in (cirq.X, cirq.Y, cirq.Z, cirq.I))
    vals = [0, 1, -1, 1j, 0.5, 0.3 + 0.2j, 2]
    combos = list(itertools.product(vals, repeat=4))
    if tier == "quick":
        combos = rng.sample(combos, 300)
    q = cirq.LineQubit(0)
    for ai, ax, ay, az in combos:
        M = ai * I + ax * X + ay * Y + az * Z
        for k in range(0, 6):
            cases += 1
            b = cirq.pow_pauli_combination(complex(ai), complex(ax), complex(ay), complex(az), k)
            got = b[0] * I + b[1] * X + b[2] * Y + b[3] * Z
            if not np.allclose(got, np.linalg.matrix_power(M, k), atol=1e-8):
                fails.append(dict(args=dict(coefficients=(ai, ax, ay, az), exponent=k), failed="pow_pauli_combination", clause="pow_pauli_combination is not the matrix power of aI + bX + cY + dZ"))
                break
        if any(v != 0 for v in (ai, ax, ay, az)):
            lc = cirq.LinearCombinationOfGates({cirq.I: ai, cirq.X: ax, cirq.Y: ay, cirq.Z: az})
            k = rng.randrange(0, 6)
            cases += 1
            try:
                gm = (lc ** k).matrix()
            except Exception:
                continue
            if gm.shape == M.shape and not np.allclose(gm, np.linalg.matrix_power(M, k), atol=1e-8):
                fails.append(dict(args=dict(combination=repr(lc), exponent=k), failed="linear-combination-power", clause="LinearCombinationOfGates ** k is not the matrix power"))
        if len(fails) >= 3:
            break
    # powers of Pauli strings with a unit coefficient c = exp(i pi phi): (c P)**t = exp(i pi phi t) P**t, for one qubit exactly as for several
    import cmath
    a_, b_ = cirq.LineQubit.range(2)
    for c in (1, -1, 1j, -1j, np.exp(0.3j), np.exp(-2.0j)):
        phi = cmath.polar(c)[1] / np.pi
        for P in (cirq.X, cirq.Y, cirq.Z):
            for t in (0.5, 0.25, 2, -0.5, 1.5, 3, -1, 1):
                cases += 1
                for label, ps, Pm in (("one qubit", c * P(a_), cirq.unitary(P)), ("two qubits", c * P(a_) * cirq.Z(b_), np.kron(cirq.unitary(P), cirq.unitary(cirq.Z)))):
                    try:
                        got = cirq.unitary(ps ** t)
                    except Exception:
                        continue
                    w, v = np.linalg.eigh(Pm)
                    want = np.exp(1j * np.pi * phi * t) * (v @ np.diag([1 if x > 0 else np.exp(1j * np.pi * t) for x in w]) @ v.conj().T)
                    if got.shape == want.shape and not np.allclose(got, want, atol=1e-8):
                        fails.append(dict(args=dict(pauli_string=repr(ps), exponent=t), failed="pauli-string-power",
                                          clause=f"({label}) (c P)**t is not exp(i pi phi t) P**t with c = exp(i pi phi): the coefficient's phase is not raised to the power"))
    return dict(function="cirq-core/cirq/linalg/operator_spaces.py:pow_pauli_combination + ops/linear_combinations.py:LinearCombinationOfGates.__pow__", case="combination-powers",
                bound="coefficient 4-tuples over {0, +-1, i, 0.5, 0.3+0.2i, 2} (all 2401 in the thorough tier) x exponents 0..5", cases=cases, distinct=cases, failures=len(fails),
                exhaustive=(tier != "quick"), _fails=fails[:3])
standin_combination_powers.prop = "C14"
def standin_simulated_expectations(tier, seed):
    """Expectation values BY THE SIMULATORS (single point and sweeps, every qubit order, every form of initial state incl. a caller's
    simulation-state object) against <psi|P|psi> / tr(rho P) of an independently computed final state; exponentials of commuting sums."""
    import cirq
    import sympy
    from contracts import refsim

    rng = random.Random(seed)
    cases, fails = 0, []
    qs = cirq.LineQubit.range(3)
    t = sympy.Symbol("t")

    def bad(kind, clause, **args):
        fails.append(dict(args={k: repr(v)[:500] for k, v in args.items()}, failed=kind, clause=clause))

    for trial in range(6 if tier == "quick" else 60):
        ops = []
        for _ in range(rng.randrange(2, 6)):
            a, b = rng.sample(qs, 2)
            ops.append(rng.choice([cirq.X(a) ** t, cirq.H(a), cirq.CZ(a, b) ** 0.5, cirq.Y(a) ** (t + 0.25), cirq.CNOT(a, b), cirq.rz(0.3)(b), cirq.ISWAP(a, b) ** t]))
        circuit = cirq.Circuit(ops)
        if not cirq.is_parameterized(circuit):
            circuit.append(cirq.X(qs[0]) ** t)
        used = sorted(circuit.all_qubits())
        observables = []
        for _ in range(3):
            terms = [cirq.PauliString({q: rng.choice([cirq.X, cirq.Y, cirq.Z]) for q in used if rng.random() < 0.6}, coefficient=rng.choice([1, -1, 0.5, 2])) for _ in range(rng.randrange(1, 3))]
            observables.append(sum(terms[1:], terms[0]) if len(terms) > 1 else terms[0])
        points = [rng.choice([0, 0.25, 0.5, 1, 1.5, -0.3]) for _ in range(rng.randrange(2, 5))]
        order = rng.sample(used, len(used))
        n = len(order)
        init_kind = rng.choice(["default", "int", "vector", "state-object"])
        for sim in (cirq.Simulator(dtype=np.complex128), cirq.DensityMatrixSimulator(dtype=np.complex128)):
            if init_kind == "default":
                initial, psi0 = 0, None
            elif init_kind == "int":
                initial = rng.randrange(2**n)
                psi0 = np.zeros(2**n, dtype=complex)
                psi0[initial] = 1
            else:
                psi0 = np.array([complex(rng.gauss(0, 1), rng.gauss(0, 1)) for _ in range(2**n)])
                psi0 /= np.linalg.norm(psi0)
                initial = psi0
                if init_kind == "state-object":
                    initial = sim._create_simulation_state(psi0 if isinstance(sim, cirq.Simulator) else np.outer(psi0, psi0.conj()), order)
            want = []
            for v in points:
                U = refsim.ref_unitary(cirq.resolve_parameters(circuit, {"t": v}), order)
                psi = U @ (psi0 if psi0 is not None else np.eye(2**n)[0])
                want.append([complex(np.vdot(psi, _mat(cirq.PauliSum.wrap(o), order) @ psi)) for o in observables])
            cases += 1
            got = sim.simulate_expectation_values_sweep(circuit, observables, cirq.Points("t", points), qubit_order=order, initial_state=initial)
            if np.shape(got) != np.shape(want) or not np.allclose(got, want, atol=1e-6):
                bad("simulate_expectation_values_sweep", "every sweep point's values equal <psi|P|psi> of that point's final state (each point starts from the given initial state)",
                    simulator=type(sim).__name__, circuit=circuit, observables=observables, points=points, order=order, initial=init_kind, got=np.round(got, 4).tolist(), want=np.round(want, 4).tolist())
            if init_kind != "state-object":
                cases += 1
                got1 = sim.simulate_expectation_values(circuit, observables, cirq.ParamResolver({"t": points[-1]}), qubit_order=order, initial_state=initial)
                if not np.allclose(got1, want[-1], atol=1e-6):
                    bad("simulate_expectation_values", "values equal <psi|P|psi> of the final state", simulator=type(sim).__name__, circuit=circuit, observables=observables, point=points[-1], order=order, initial=init_kind)
        if len(fails) >= 4:
            break

    # exponentials of commuting sums: matrix() on .qubits vs the product of the rotation factors vs exp(i e sum)
    a, b, c = qs
    sums = [cirq.Z(a) * cirq.Z(b) + cirq.Z(b) * cirq.Z(c), 0.2 * cirq.Z(b) + 0.7 * cirq.Z(a), cirq.X(a) * cirq.X(b) + cirq.Z(a) * cirq.Z(b), cirq.X(c) + 0.5 * cirq.Z(a),
            cirq.Y(b) * cirq.Y(c) - cirq.X(b) * cirq.X(c), 2j * cirq.X(a) + 3j * cirq.Z(b), 1.5 * cirq.X(a) * cirq.Y(b) * cirq.Z(c), cirq.Z(c) * cirq.Z(a) + cirq.Z(b),
            -2j * cirq.X(a) - 3j * cirq.Z(b) * cirq.Z(c), -1j * cirq.X(a) * cirq.Y(b), 0.5j * cirq.Z(a) - 1.5j * cirq.Z(b), -0.7 * cirq.X(a) - 0.2 * cirq.X(b)]
    for ps, e in itertools.product(sums, (1.0, 0.3, -0.7, np.pi / 2)):
        cases += 1
        try:
            pse = cirq.PauliSumExponential(ps, e)
        except ValueError:
            continue
        reg = list(pse.qubits)
        H = _mat(cirq.PauliSum.wrap(ps), reg)
        herm = np.allclose(H, H.conj().T)
        w, v = np.linalg.eigh(H if herm else -1j * H)
        want = (v * np.exp(1j * e * w)) @ v.conj().T
        got = pse.matrix()
        if got.shape != want.shape or not np.allclose(got, want, atol=1e-7):
            bad("PauliSumExponential.matrix", "matrix() is exp(i e S) (S Hermitian) resp. exp(e S) (S anti-Hermitian) on the qubits .qubits", sum=ps, exponent=e, qubits=reg)
        prod = refsim.ref_unitary(cirq.Circuit(list(pse)), reg)
        if not refsim.equal_up_to_global_phase(prod, want):
            bad("PauliSumExponential.factors", "the product of the rotation factors is the exponential, up to global phase", sum=ps, exponent=e)
    # phasors of the identity string: only the +1 eigenspace exists
    for ep, en in ((0.5, 0), (0, 0.5), (0.25, -0.3), (1, 0)):
        for listed in ([], [a], [a, b]):
            cases += 1
            ph = cirq.PauliStringPhasor(cirq.PauliString(), qubits=listed, exponent_neg=en, exponent_pos=ep)
            want = np.exp(1j * np.pi * ep) * np.eye(2 ** len(listed))
            if not np.allclose(cirq.unitary(ph), want, atol=1e-8):
                bad("PauliStringPhasor.identity", "the phasor of the identity string is exp(i pi e+) times the identity", phasor=ph)
    return dict(function=F + "/{pauli_string,linear_combinations,pauli_sum_exponential}.py + cirq/sim[simulated expectation values, exponentials of sums]", case="simulated-expectation",
                bound="seeded 3-qubit parameterized circuits x 3 observables (strings and sums) x 2-4 sweep points x permuted qubit order x {default, integer, vector, simulation-state object} initial "
                      "states x {Simulator, DensityMatrixSimulator}; 12 commuting sums (Hermitian and anti-Hermitian, every sign) x 4 exponents; identity-string phasors", cases=cases, distinct=cases, failures=len(fails), exhaustive=False, _fails=fails[:4])
standin_simulated_expectations.prop = "C14"


def standin_operand_independence(tier, seed):
    """accumulating sums in place (+=, -=, *=, /= on PauliSum, LinearCombinationOfGates / -Operations, LinearDict, MutablePauliString), starting from
    an empty or a copied accumulator: the result has the matrix the arithmetic defines AND every operand keeps the matrix it was built with"""
    import cirq

    rng = random.Random(seed + 77)
    q = cirq.LineQubit.range(2)
    cases, fails = 0, []

    def rand_sum():
        terms = []
        for _ in range(rng.randrange(1, 4)):
            ps = cirq.PauliString({x: rng.choice([cirq.X, cirq.Y, cirq.Z]) for x in rng.sample(q, rng.randrange(1, 3))}, coefficient=rng.choice([1, -0.5, 2j, 0.25 + 0.5j]))
            terms.append(ps)
        out = terms[0] + terms[1] if len(terms) > 1 else cirq.PauliSum.from_pauli_strings(terms)
        for t_ in terms[2:]:
            out = out + t_
        return out

    def M(x):
        return x.matrix(q) if isinstance(x, (cirq.PauliSum,)) else cirq.unitary(x) if not hasattr(x, "matrix") else x.matrix()

    for trial in range(40 if tier == "quick" else 400):
        a, b = rand_sum(), rand_sum()
        ma, mb = a.matrix(q), b.matrix(q)
        scripts = {
            "t = PauliSum(); t += a; t += b; t *= 2": (lambda: _run_ps(cirq.PauliSum(), [("+", a), ("+", b), ("*", 2)]), 2 * (ma + mb)),
            "t = PauliSum() + a; t *= 3; t -= b": (lambda: _run_ps(cirq.PauliSum() + a, [("*", 3), ("-", b)]), 3 * ma - mb),
            "t = a.copy(); t += b; t /= 2": (lambda: _run_ps(a.copy(), [("+", b), ("/", 2)]), (ma + mb) / 2),
            "t = 0 + a; t -= a; t += b": (lambda: _run_ps(0 + a, [("-", a), ("+", b)]), mb),
            "t = sum([a, b]); t *= 1j": (lambda: _run_ps(sum([a, b]), [("*", 1j)]), 1j * (ma + mb)),
            "t = PauliSum(); t += a; u = PauliSum(); u += t; u *= 5": (lambda: _run_ps(_run_ps(cirq.PauliSum(), [("+", _run_ps(cirq.PauliSum(), [("+", a)]))]), [("*", 5)]), 5 * ma),
        }
        for label, (fn, want) in scripts.items():
            cases += 1
            try:
                got = fn()
                gm = got.matrix(q)
            except Exception as ex:
                fails.append(dict(args=dict(script=label, a=repr(a), b=repr(b)), failed="operand-independence-raised", clause=f"{ex!r}"))
                continue
            if not np.allclose(gm, want, atol=1e-8):
                fails.append(dict(args=dict(script=label, a=repr(a), b=repr(b)), failed="accumulated-sum", clause=f"{label}: the result does not have the matrix the arithmetic defines"))
            elif not np.allclose(a.matrix(q), ma, atol=1e-9) or not np.allclose(b.matrix(q), mb, atol=1e-9):
                fails.append(dict(args=dict(script=label, a_before=repr(ma.tolist())[:300], a_after=repr(a)), failed="operand-changed", clause=f"{label}: an operand's matrix changed although nothing was applied to it"))
        # linear combinations of gates / operations and plain LinearDicts
        ga = cirq.LinearCombinationOfGates({cirq.X: rng.choice([1, 0.5j]), cirq.Z: rng.choice([-1, 2])})
        gb = cirq.LinearCombinationOfGates({cirq.Y: 0.5, cirq.Z: 1j})
        mga, mgb = ga.matrix(), gb.matrix()
        oa = cirq.LinearCombinationOfOperations({cirq.X(q[0]): 1, cirq.Z(q[1]): rng.choice([2, -1j])})
        ob = cirq.LinearCombinationOfOperations({cirq.Y(q[0]): 0.5, cirq.Z(q[1]): 1})
        moa, mob = oa.matrix(), ob.matrix()
        la, lb = cirq.LinearDict({"x": 1, "y": rng.choice([2, 1j])}), cirq.LinearDict({"y": -1, "z": 0.5})
        la0, lb0 = dict(la), dict(lb)
        for label, mk, x, y, mx, my in (("LinearCombinationOfGates", lambda: cirq.LinearCombinationOfGates({}), ga, gb, mga, mgb), ("LinearCombinationOfOperations", lambda: cirq.LinearCombinationOfOperations({}), oa, ob, moa, mob)):
            cases += 1
            try:
                t_ = mk()
                t_ += x
                t_ += y
                t_ *= 2
                u_ = x.copy()
                u_ -= y
                ok_val = np.allclose(t_.matrix(), 2 * (mx + my), atol=1e-8) and np.allclose(u_.matrix(), mx - my, atol=1e-8)
                if not ok_val:
                    fails.append(dict(args=dict(kind=label), failed="accumulated-sum", clause=f"{label}: t = empty; t += x; t += y; t *= 2 does not have the matrix the arithmetic defines"))
                elif not np.allclose(x.matrix(), mx, atol=1e-9) or not np.allclose(y.matrix(), my, atol=1e-9):
                    fails.append(dict(args=dict(kind=label, x=repr(x)), failed="operand-changed", clause=f"{label}: an operand changed under in-place accumulation into another object"))
            except Exception as ex:
                fails.append(dict(args=dict(kind=label), failed="operand-independence-raised", clause=f"{ex!r}"))
        cases += 1
        t_ = cirq.LinearDict({})
        t_ += la
        t_ += lb
        t_ *= 2
        v_ = cirq.LinearDict({}) + la
        v_ -= lb
        want_t = {k: 2 * (la0.get(k, 0) + lb0.get(k, 0)) for k in set(la0) | set(lb0)}
        if any(abs(t_[k] - want_t[k]) > 1e-12 for k in want_t) or dict(la) != la0 or dict(lb) != lb0:
            fails.append(dict(args=dict(a=repr(la0), b=repr(lb0), a_after=repr(dict(la)), total=repr(dict(t_))), failed="operand-changed" if (dict(la) != la0 or dict(lb) != lb0) else "accumulated-sum",
                              clause="LinearDict: t = {}; t += a; t += b; t *= 2 changed an operand or is not 2(a+b)"))
        if len(fails) >= 4:
            break
    seen, uniq = set(), []
    for f_ in fails:
        key = (f_["failed"], f_["args"].get("script", f_["args"].get("kind", "")))
        if key not in seen:
            seen.add(key)
            uniq.append(f_)
    return dict(function="cirq-core/cirq/{value/linear_dict.py,ops/linear_combinations.py}[in-place accumulation]", case="operand-independence", bound="seeded Pauli sums on 2 qubits x 6 accumulation scripts; gate / operation combinations and plain LinearDicts",
                cases=cases, distinct=cases, failures=len(uniq), exhaustive=False, _fails=uniq[:4])
standin_operand_independence.prop = "C14"


def _run_ps(t_, steps):
    for op_, x in steps:
        if op_ == "+":
            t_ += x
        elif op_ == "-":
            t_ -= x
        elif op_ == "*":
            t_ *= x
        else:
            t_ /= x
    return t_


def standin_string_views(tier, seed):
    """further descriptions of one Pauli string against its dense matrix: the sparse matrix, the decomposition, powers (ps**t, a principal power of a
    unitary string), exponentials (base**ps for an anti-Hermitian string), and the accessors of the mutable form against the frozen one"""
    import math

    import cirq
    import scipy.linalg

    rng = random.Random(seed + 1234)
    q = cirq.LineQubit.range(3)
    cases, fails = 0, []

    def bad(what, **kw):
        fails.append(dict(args={k: repr(v)[:300] for k, v in kw.items()}, failed=what, clause=what))

    for _ in range(60 if tier == "quick" else 800):
        used = rng.sample(q, rng.randrange(1, 4))
        coeff = rng.choice([1, -1, 1j, -1j, np.exp(0.3j), np.exp(-2.1j)])
        ps = cirq.PauliString({x: rng.choice([cirq.X, cirq.Y, cirq.Z]) for x in used}, coefficient=coeff)
        order = rng.sample(q, 3)
        M = ps.matrix(order)
        cases += 1
        if hasattr(ps, "sparse_matrix"):
            sm = (ps * rng.choice([1, 0.5, 2j])).sparse_matrix(order)
            want_sm = (ps * 1).matrix(order)
            ratio = None
            dense = sm.toarray()
            # the scalar used above is unknown here: compare the direction, then the scalar through one entry
            idx = np.argmax(np.abs(want_sm))
            ratio = dense.flat[idx] / want_sm.flat[idx]
            if not np.allclose(dense, ratio * want_sm, atol=1e-9) or not any(abs(ratio - c_) < 1e-9 for c_ in (1, 0.5, 2j)):
                bad("sparse_matrix differs from matrix", string=ps, qubits=order)
            if not np.allclose(ps.sparse_matrix(order).toarray(), M, atol=1e-9) or not np.allclose(ps.sparse_matrix().toarray(), ps.matrix(), atol=1e-9):
                bad("sparse_matrix differs from matrix", string=ps, qubits=order)
        # decomposition of a unitary string
        dec = cirq.decompose_once(ps, default=None)
        if dec is not None:
            got = cirq.Circuit(dec).unitary(qubit_order=order, qubits_that_should_be_present=order)
            if not np.allclose(got, M, atol=1e-8):
                bad("the decomposition of a unitary Pauli string is not its matrix", string=ps, qubits=order)
        elif abs(abs(coeff) - 1) < 1e-9:
            bad("a Pauli string with a unit coefficient does not decompose", string=ps)
        # powers: ps**-1 inverts; ps**t is a t-th power (its matrix commutes with M and (ps**t)**(1/t)... checked as exp(t log M) on the principal branch
        inv = ps ** -1
        if not np.allclose(inv.matrix(order) @ M, np.eye(8), atol=1e-8):
            bad("ps**-1 is not the inverse", string=ps)
        for t_ in (0.5, 2, 3, -0.5, 0.25):
            cases += 1
            pw = ps ** t_
            sub_order = [x for x in order if x in used]
            try:
                U = cirq.Circuit(pw).unitary(qubit_order=sub_order) if isinstance(pw, cirq.Operation) else None
            except Exception as ex:
                bad(f"ps**{t_} has no unitary: {ex!r}", string=ps)
                continue
            if U is None:
                continue
            Ms = ps.matrix(sub_order)
            # a t-th power of M: same eigenvectors, eigenvalues lam**t on SOME branch; with eigenvalues +-c of M: U = a P+ + b P- with a = c**t, b = (-c)**t (branches allowed)
            d = len(Ms)
            c_ = complex(coeff)
            Pp, Pm = (np.eye(d) + Ms / c_) / 2, (np.eye(d) - Ms / c_) / 2
            a_ = np.trace(Pp @ U) / (d / 2)
            b_ = np.trace(Pm @ U) / (d / 2)
            th_p, th_m = np.angle(c_), np.angle(-c_)
            okp = any(abs(a_ - np.exp(1j * t_ * (th_p + 2 * np.pi * k))) < 1e-7 for k in range(-4, 5))
            okm = any(abs(b_ - np.exp(1j * t_ * (th_m + 2 * np.pi * k))) < 1e-7 for k in range(-4, 5))
            if not np.allclose(U, a_ * Pp + b_ * Pm, atol=1e-7) or not okp or not okm:
                bad(f"ps**{t_} is not a {t_}-th power of the string's matrix", string=ps, power=t_)
            elif float(t_).is_integer() and not np.allclose(U, np.linalg.matrix_power(Ms, int(t_)), atol=1e-7):
                bad(f"ps**{t_} is not the {t_}-th matrix power", string=ps, power=t_)
        # exponentials of anti-Hermitian strings
        for base, im in ((math.e, 0.4), (math.e, -1.3), (2.0, 0.7), (10, math.pi / 8)):
            cases += 1
            ah = cirq.PauliString({x: ps[x] for x in used}, coefficient=1j * im)
            try:
                ex_ = base ** ah
            except Exception as ex:
                bad(f"base**string raised {ex!r}", string=ah, base=base)
                continue
            sub_order = [x for x in order if x in used]
            U = cirq.Circuit(ex_).unitary(qubit_order=sub_order)
            want = scipy.linalg.expm(math.log(base) * ah.matrix(sub_order))
            if not np.allclose(U, want, atol=1e-7):
                bad("base**string is not the matrix exponential exp(ln(base) * string)", string=ah, base=base)
        # the mutable form
        cases += 1
        m = ps.mutable_copy()
        fz = m.frozen()
        if fz != ps or dict(m.items()) != dict(ps.items()) or set(m.keys()) != set(ps.keys()) or sorted(map(str, m.values())) != sorted(map(str, ps.values())) or len(m) != len(ps) or bool(m) != bool(ps):
            bad("MutablePauliString accessors differ from the frozen string", string=ps)
        for x in q:
            if (x in m) != (x in ps) or m.get(x) != ps.get(x) or m.get(x, "d") != ps.get(x, "d"):
                bad("MutablePauliString membership / get differ from the frozen string", string=ps, qubit=x)
        other = cirq.PauliString({x: rng.choice([cirq.X, cirq.Y, cirq.Z]) for x in rng.sample(q, 2)}, coefficient=rng.choice([1, -1, 1j]))
        L = ps.mutable_copy().inplace_left_multiply_by(other).frozen()
        R_ = ps.mutable_copy().inplace_right_multiply_by(other).frozen()
        # the library's convention (its own tests call it the correct order): "left-multiply other INTO self" keeps self on the left, self := self * other;
        # inplace_right_multiply_by and *= give other * self
        I_ = ps.mutable_copy()
        I_ *= other
        if not np.allclose(L.matrix(q), ps.matrix(q) @ other.matrix(q), atol=1e-8) or not np.allclose(R_.matrix(q), other.matrix(q) @ ps.matrix(q), atol=1e-8) or I_.frozen() != R_:
            bad("in-place multiplication is not the matrix product in the documented order", a=ps, b=other)
        # round 11 (C14_l): a list operand denotes the product of its items in list order (as cirq.PauliString(list) does), on either side
        o2 = cirq.PauliString({x: rng.choice([cirq.X, cirq.Y, cirq.Z]) for x in rng.sample(q, 2)})
        o3 = cirq.PauliString({x: rng.choice([cirq.X, cirq.Y, cirq.Z]) for x in rng.sample(q, 1)})
        for lst in ([other, o2], [other, o2, o3]):
            cases += 1
            prod = np.eye(2 ** len(q), dtype=complex)
            for o_ in lst:
                prod = prod @ o_.matrix(q)
            Ll = ps.mutable_copy().inplace_left_multiply_by(list(lst)).frozen()
            Rl = ps.mutable_copy().inplace_right_multiply_by(list(lst)).frozen()
            Il = ps.mutable_copy()
            Il *= list(lst)
            if (not np.allclose(Ll.matrix(q), ps.matrix(q) @ prod, atol=1e-8) or not np.allclose(Rl.matrix(q), prod @ ps.matrix(q), atol=1e-8) or Il.frozen() != Rl
                    or not np.allclose(cirq.PauliString(list(lst)).matrix(q), prod, atol=1e-8)):
                bad("in-place multiplication by a list is not the product of its items in list order", a=ps, items=[str(o_) for o_ in lst])
        m2 = ps.mutable_copy()
        m2[q[0]] = cirq.Y
        del_target = used[0]
        m3 = ps.mutable_copy()
        del m3[del_target]
        want2 = dict(ps.items())
        want2[q[0]] = cirq.Y
        want3 = {k: v for k, v in ps.items() if k != del_target}
        if dict(m2.items()) != want2 or dict(m3.items()) != want3 or m2.coefficient != ps.coefficient or dict(ps.items()) != dict(fz.items()):
            bad("setting / deleting a factor of the mutable form changes anything else (or the string it was copied from)", string=ps)
        perm = dict(zip(q, rng.sample(q, 3)))
        tq = ps.mutable_copy().transform_qubits(lambda x: perm[x]).frozen()
        if tq != ps.map_qubits(perm) or not np.allclose(tq.matrix([perm[x] for x in order]), M, atol=1e-9):
            bad("transform_qubits / map_qubits do not relabel the string", string=ps, map=perm)
        if len(fails) >= 4:
            break
    seen, uniq = set(), []
    for f_ in fails:
        if f_["failed"] not in seen:
            seen.add(f_["failed"])
            uniq.append(f_)
    return dict(function="cirq-core/cirq/ops/pauli_string.py:PauliString[sparse matrix, decomposition, powers, exponentials, mutable form]", case="string-views",
                bound="seeded strings on <= 3 qubits x 6 unit coefficients x random qubit orders; powers 0.5, 2, 3, -0.5, 0.25; 4 exponentials; in-place products with a string and with 2- / 3-item lists on either side", cases=cases, distinct=cases, failures=len(uniq), exhaustive=False, _fails=uniq[:4])
standin_string_views.prop = "C14"


STANDINS = [standin_string_views, standin_algebra, standin_conjugation, standin_expectation_and_phasor, standin_pauli_sums, standin_combination_powers, standin_simulated_expectations, standin_operand_independence]

NOT_COVERED = [
    "PauliString.__mul__/_imul_helper as a whole (loop over the factors), DensePauliString.__mul__/__pow__, _calc_conjugation, PauliSum algebra: bounded only",
    "PauliSumExponential, simulate_expectation_values(_sweep): bounded only (seeded circuits / a fixed list of sums)",
]
ASSUMPTIONS = ["np.sum(dtype=uint8) is the sum modulo 256", "in-place multiply names are specified through the immutable product they implement (upstream tests pin this)"]
EXPLANATION = ("C14: the two phase/sign kernels (_imul_atom_helper, _vectorized_pauli_mul_phase) are decided on their full finite domains "
               "(+ a z3 lemma for the uint8 wrap-around); the algebra laws are compared with matrices exhaustively on 2 qubits and seeded on 3. ")
