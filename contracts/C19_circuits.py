"""C19 — bounded stand-ins (NOT counted as proved): whole circuits through `Circuit.to_qasm`, read by the independent reader.

standin_unitary_circuits: random circuits over the gate library (gates with a QASM form, gates that must be decomposed, random
and special one-/two-qubit matrices, three-qubit gates), random qubit kinds and qubit_order, both language versions, several
precisions: the text must parse with the standard library only and denote circuit.unitary(qubit_order) up to global phase
within the rounding error of the requested precision.
standin_measure_control: circuits with measurements (invert masks, keys that are / are not valid identifiers) and classical
controls: exact branch enumeration of the OpenQASM program vs the reference semantics of the circuit (contracts/refsim.py):
same joint distribution of register contents and same conditional final states.
standin_registers: exhaustive-small register generation (qubit ids, creg ids and sizes)."""
import itertools
import random
import re
import warnings

import numpy as np

from contracts import qasm_reader as qr
from contracts import refsim

F = "cirq-core/cirq/circuits/qasm_output.py"


def _special_unitaries(rng):
    import cirq

    u2 = [np.eye(2), cirq.unitary(cirq.X), cirq.unitary(cirq.H), cirq.unitary(cirq.S), cirq.unitary(cirq.Y) * 1j, cirq.unitary(cirq.Z ** 0.5) * np.exp(0.3j),
          cirq.testing.random_unitary(2, random_state=rng.randrange(10 ** 6)), np.array([[0, 1j], [1j, 0]]), cirq.unitary(cirq.X ** 1e-9)]
    u4 = [np.eye(4), cirq.unitary(cirq.CNOT), cirq.unitary(cirq.SWAP), cirq.unitary(cirq.ISWAP), cirq.unitary(cirq.CZ ** 0.5), cirq.unitary(cirq.SQRT_ISWAP),
          np.kron(cirq.unitary(cirq.H), cirq.unitary(cirq.T)), cirq.testing.random_unitary(4, random_state=rng.randrange(10 ** 6)),
          cirq.unitary(cirq.FSimGate(np.pi / 2, np.pi)), cirq.unitary(cirq.XX ** 0.5) @ np.kron(cirq.unitary(cirq.Y ** 0.3), np.eye(2)), cirq.unitary(cirq.SWAP) * 1j,
          cirq.unitary(cirq.ZZ ** 0.25), cirq.unitary(cirq.CZ ** 1e-9)]
    u4 += [cirq.unitary(cirq.givens(0.3)), cirq.unitary(cirq.SQRT_ISWAP_INV), cirq.unitary(cirq.FSimGate(np.pi / 2, np.pi / 6)), cirq.unitary(cirq.PhasedISwapPowGate(phase_exponent=0.3, exponent=0.7)),
           np.kron(cirq.unitary(cirq.Z), cirq.unitary(cirq.S)), np.kron(cirq.unitary(cirq.T), cirq.unitary(cirq.rx(0.4))), np.diag(np.exp(1j * np.array([0.1, 0.7, -0.4, 1.3]))),
           cirq.unitary(cirq.CNOT)[np.ix_([0, 2, 1, 3], [0, 2, 1, 3])], cirq.unitary(cirq.ISWAP ** 0.5) @ np.kron(cirq.unitary(cirq.S), cirq.unitary(cirq.Z ** 0.3))]
    return u2, u4


class _OnlyUnitary:
    """a user gate that defines nothing but its matrix: the exporter has to fall back to its matrix decompositions"""

    def __new__(cls, m):
        import cirq

        class G(cirq.Gate):
            def __init__(self, m):
                self._m = np.array(m)

            def _num_qubits_(self):
                return int(np.log2(self._m.shape[0]))

            def _unitary_(self):
                return self._m

            def __repr__(self):
                return f"OnlyUnitaryGate({self._m.tolist()!r})"

        return G(m)


def _op_makers(rng):
    import cirq

    e = rng.choice([1, 0.5, -0.5, 0.25, -0.25, 0.37, 2, 1.5, -1, 3, 0, 1e-7, 0.123456789012, 1.000004, 0.999996, -2.999995, 2.000003, 0.5000004])   # incl. values a tolerance would round to a special case
    s = rng.choice([0, 0, 0, -0.5, 0.25])
    u2, u4 = _special_unitaries(rng)
    one = [lambda q: cirq.XPowGate(exponent=e, global_shift=s)(q[0]), lambda q: cirq.YPowGate(exponent=e, global_shift=s)(q[0]),
           lambda q: cirq.ZPowGate(exponent=e, global_shift=s)(q[0]), lambda q: cirq.HPowGate(exponent=e, global_shift=s)(q[0]),
           lambda q: cirq.rx(e * 2.1)(q[0]), lambda q: cirq.ry(e)(q[0]), lambda q: cirq.rz(-e)(q[0]), lambda q: cirq.I(q[0]),
           lambda q: cirq.PhasedXPowGate(phase_exponent=rng.choice([0, 0.3, 0.5, -0.7, 1.9]), exponent=e)(q[0]),
           lambda q: cirq.PhasedXZGate(x_exponent=e, z_exponent=rng.choice([0, 0.3, -1.2]), axis_phase_exponent=rng.choice([0, 0.2, 0.5, -0.9]))(q[0]),
           lambda q: cirq.MatrixGate(rng.choice(u2))(q[0]), lambda q: cirq.S(q[0]), lambda q: cirq.T(q[0]) ** -1,
           lambda q: cirq.GlobalPhaseGate(1j).on(), lambda q: cirq.circuits.qasm_output.QasmUGate(e, 0.3, -0.4)(q[0]), lambda q: _OnlyUnitary(rng.choice(u2))(q[0])]
    two = [lambda q: cirq.CZPowGate(exponent=e, global_shift=s)(q[0], q[1]), lambda q: cirq.CXPowGate(exponent=e, global_shift=s)(q[0], q[1]),
           lambda q: cirq.SWAP(q[0], q[1]) ** e, lambda q: cirq.ISWAP(q[0], q[1]) ** e, lambda q: cirq.XX(q[0], q[1]) ** e, lambda q: cirq.YY(q[0], q[1]) ** e,
           lambda q: cirq.ZZ(q[0], q[1]) ** e, lambda q: cirq.FSimGate(0.4, 0.3)(q[0], q[1]), lambda q: cirq.PhasedISwapPowGate(phase_exponent=0.2, exponent=e)(q[0], q[1]),
           lambda q: cirq.MatrixGate(rng.choice(u4))(q[0], q[1]), lambda q: cirq.ControlledGate(cirq.Y ** e)(q[0], q[1]), lambda q: cirq.CNOT(q[0], q[1]),
           lambda q: cirq.ControlledOperation([q[0]], cirq.XPowGate(exponent=1, global_shift=s)(q[1])), lambda q: cirq.ControlledOperation([q[0]], cirq.H(q[1])),
           lambda q: cirq.ControlledOperation([q[0]], cirq.Z(q[1]), control_values=[0]), lambda q: cirq.IdentityGate(2)(q[0], q[1]),
           lambda q: cirq.CZ(q[0], q[1]), lambda q: cirq.givens(0.3)(q[0], q[1]), lambda q: cirq.TwoQubitDiagonalGate([0.1, 0.2, 0.3, 0.5])(q[0], q[1]),
           lambda q: cirq.ParallelGate(cirq.X ** e, 2)(q[0], q[1]), lambda q: cirq.DensePauliString("XZ", coefficient=-1)(q[0], q[1]),
           lambda q: _OnlyUnitary(rng.choice(u4))(q[0], q[1]), lambda q: _OnlyUnitary(rng.choice(u4))(q[0], q[1]), lambda q: _OnlyUnitary(rng.choice(u4))(q[1], q[0])]
    three = [lambda q: cirq.CCZ(*q[:3]) ** e, lambda q: cirq.CCX(*q[:3]) ** e, lambda q: cirq.CSWAP(*q[:3]), lambda q: cirq.CCZ(*q[:3]), lambda q: cirq.TOFFOLI(*q[:3]),
             lambda q: cirq.ThreeQubitDiagonalGate([0.1 * k for k in range(8)])(*q[:3]), lambda q: cirq.QuantumFourierTransformGate(3)(*q[:3]),
             lambda q: cirq.ControlledGate(cirq.ISWAP ** 0.5)(*q[:3]), lambda q: cirq.ControlledGate(cirq.X, num_controls=2, control_values=[0, 1])(*q[:3]),
             lambda q: cirq.QubitPermutationGate([2, 0, 1])(*q[:3]), lambda q: cirq.CircuitOperation(cirq.FrozenCircuit(cirq.H(q[0]), cirq.CZ(q[0], q[2]) ** 0.5))]
    return one, two, three


def _qubits(rng, n):
    import cirq

    kind = rng.randrange(4)
    if kind == 0:
        return cirq.LineQubit.range(n)
    if kind == 1:
        return [cirq.GridQubit(i // 2, i % 2) for i in range(n)]
    if kind == 2:
        return [cirq.NamedQubit(nm) for nm in ["b", "a", "q", "zz", "a10", "a9"][:n]]
    return [cirq.LineQubit(3 * i + 1) for i in range(n)]


def _rand_unitary_circuit(rng):
    import cirq

    n = rng.choice([1, 2, 2, 3, 3, 4])
    qs = _qubits(rng, n)
    ops = []
    for _ in range(rng.randrange(1, 7)):
        one, two, three = _op_makers(rng)
        pool = one + (two if n >= 2 else []) + (three if n >= 3 else [])
        mk = rng.choice(pool)
        perm = rng.sample(qs, n)
        try:
            op = mk(perm)
        except Exception:
            continue
        ops.append(op)
    order = rng.sample(qs, n)
    return cirq.Circuit(ops, strategy=rng.choice([cirq.InsertStrategy.EARLIEST, cirq.InsertStrategy.NEW])), order


def standin_unitary_circuits(tier, seed):
    import cirq

    warnings.filterwarnings("ignore", message="OpenQASM 2.0 does not support global phase")
    rng = random.Random(seed)
    n_cases = 220 if tier == "quick" else 2500
    cases, fails, distinct = 0, [], set()
    for _ in range(n_cases):
        c, order = _rand_unitary_circuit(rng)
        if not len(c):
            continue
        version = rng.choice(["2.0", "3.0"])
        precision = rng.choice([10, 10, 6, 4])
        cases += 1
        distinct.add((repr(c), version, precision, tuple(order)))
        args = dict(circuit=repr(c), qubit_order=repr(order), version=version, precision=precision)
        try:
            text = c.to_qasm(qubit_order=order, version=version, precision=precision)
        except Exception as ex:
            fails.append(dict(args=args, failed="to_qasm-raised", clause=f"to_qasm raised {ex!r} for a circuit of unitary library gates"))
            continue
        # the other entry points write the same program: the file writer, the frozen circuit, the protocol function
        if _ % 4 == 0:
            import inspect
            import os
            import tempfile

            others = {}
            try:
                fd, path = tempfile.mkstemp(suffix=".qasm")
                os.close(fd)
                try:
                    kw = dict(version=version) if "version" in inspect.signature(c.save_qasm).parameters else {}
                    if kw or version == "2.0":
                        for label, cc in (("Circuit.save_qasm", c), ("FrozenCircuit.save_qasm", c.freeze())):
                            cc.save_qasm(path, qubit_order=order, precision=precision, **kw)
                            with open(path) as fh:
                                others[label] = fh.read()
                finally:
                    os.unlink(path)
                others["FrozenCircuit.to_qasm"] = c.freeze().to_qasm(qubit_order=order, version=version, precision=precision)
                others["cirq.qasm(circuit, args)"] = cirq.qasm(c, args=cirq.QasmArgs(precision=precision, version=version), qubits=None) if tuple(order) == tuple(sorted(c.all_qubits())) else text
            except Exception as ex:
                fails.append(dict(args=args, failed="to_qasm-raised", clause=f"another OpenQASM entry point raised {ex!r} where to_qasm did not"))
                others = {}
            for label, t_ in others.items():
                if t_ != text:
                    fails.append(dict(args=dict(args, qasm=text, other=t_), failed="entry-points-differ", clause=f"{label} writes a different program than to_qasm for the same circuit, qubit order, version and precision"))
                    break
        try:
            prog = qr.parse(text)
            U = qr.unitary(prog)
        except qr.QasmError as ex:
            fails.append(dict(args=dict(args, qasm=text), failed="reader-rejects", clause=f"a standard OpenQASM {version} reader rejects the text: {ex}"))
            continue
        if prog.num_qubits != len(order):
            fails.append(dict(args=dict(args, qasm=text), failed="register-size", clause="declared quantum register size differs from the number of qubits"))
            continue
        want = c.unitary(qubit_order=order)
        nparams = sum(len(o["params"]) for o in prog.ops if o["kind"] == "gate") + 1
        tol = max(1e-6, 4 * nparams * 10.0 ** -precision)
        if not qr.proportional(U, want, atol=tol):
            fails.append(dict(args=dict(args, qasm=text), failed="different-unitary",
                              clause=f"the OpenQASM text denotes a unitary that differs from circuit.unitary(qubit_order) beyond a global phase (tolerance {tol:g})"))
        if len({f["failed"] for f in fails}) >= 3:
            break
    return dict(function=F + ":QasmOutput[to_qasm of unitary circuits]", case="unitary-circuits",
                bound=f"{n_cases} seeded circuits: 1-4 qubits (line/grid/named/gapped), <= 6 operations from ~50 gate makers incl. special and random matrices, "
                      "random qubit_order, versions 2.0/3.0, precision 10/6/4", cases=cases, distinct=len(distinct), failures=len(fails), exhaustive=False, _fails=_uniq(fails))
standin_unitary_circuits.prop = "C19"


def _uniq(fails, k=3):
    seen, out = set(), []
    for f in fails:
        if f["failed"] not in seen:
            seen.add(f["failed"])
            out.append(f)
    return out[:k]


KEYS = ["a", "b", "Bad Key", "0", "m_a", "c_1", "0:a", "1:a", "p:q:b"]  # keys with a path (as unrolled sub-circuits produce) next to their bare names


def _creg_names(text, keys):
    """key -> creg identifier, read from the text alone: m_<key> when that is declared, else the register whose declaration carries
    the comment `// Measurement: <key>`"""
    decl = {}
    for m in re.finditer(r"^(?:creg (\w+)\[(\d+)\];|bit\[(\d+)\] (\w+);)(?:\s*// Measurement: (.*))?$", text, re.M):
        name = m.group(1) or m.group(4)
        decl[name] = m.group(5)
    out = {}
    for k in keys:
        byc = [n for n, c in decl.items() if c is not None and c == k]
        if byc:
            out[k] = byc[0]
        elif f"m_{k}" in decl and decl[f"m_{k}"] is None:
            out[k] = f"m_{k}"
    return out


def _K(key, obj=False):
    """a key string as the measurement key it denotes ('0:a' is the key a with the path ('0',))"""
    import cirq

    return cirq.MeasurementKey.parse_serialized(key) if (":" in key or obj) else key


def _rand_measured_circuit(rng, version):
    import cirq
    import sympy

    n = rng.choice([2, 2, 3])
    qs = _qubits(rng, n)
    ops, measured = [], {}
    keys = rng.sample(KEYS, 3)
    for step in range(rng.randrange(3, 9)):
        r = rng.random()
        if r < 0.08 and measured:
            # the same key measured again (the register is overwritten; Cirq keeps both records and conditions test the latest by default)
            key = rng.choice(list(measured))
            mq = rng.sample(qs, measured[key])
            ops.append(cirq.measure(*mq, key=_K(key)))
            continue
        if r < 0.3 and len(measured) < len(keys):
            key = next(k for k in keys if k not in measured)
            mq = rng.sample(qs, rng.choice([1, 1, 2]) if n >= 2 else 1)
            mask = tuple(rng.random() < 0.4 for _ in range(rng.randrange(0, len(mq) + 1)))
            ops.append(cirq.measure(*mq, key=_K(key), invert_mask=mask))
            measured[key] = len(mq)
            continue
        one, two, three = _op_makers(rng)
        mk = rng.choice(one[:10] + two[:4] + [two[9], two[11]])
        try:
            op = mk(rng.sample(qs, n))
        except Exception:
            continue
        if not op.qubits:
            continue
        if measured and r > 0.55:
            key = rng.choice(list(measured))
            if measured[key] == 1 and rng.random() < 0.6:
                conds = [key]
                if version == "3.0" and rng.random() < 0.3:
                    others = [k for k in measured if k != key and measured[k] == 1]
                    conds += others[:1]
                if rng.random() < 0.2:
                    # an explicit record index: -1 is the default (latest); an earlier record cannot be expressed once the register is overwritten
                    conds = [cirq.KeyCondition(_K(key, True), index=rng.choice([-1, 0, 0, -2]))]
                op = cirq.If(conds if len(conds) > 1 else conds[0], op) if rng.random() < 0.25 else op.with_classical_controls(*conds)
            elif re.fullmatch(r"[a-z][a-zA-Z0-9_]*", key):
                val = rng.randrange(0, 2 ** measured[key])
                op = op.with_classical_controls(sympy.Eq(sympy.Symbol(key), val))
        elif rng.random() < 0.1:
            ops.append(cirq.ResetChannel().on(rng.choice(qs)))
        ops.append(op)
    if not measured:
        ops.append(cirq.measure(qs[0], key=_K(keys[0])))
    ops.insert(0, cirq.H(qs[0]))
    ops.insert(1, cirq.X(qs[-1]) ** 0.5)
    return cirq.Circuit(ops, strategy=cirq.InsertStrategy.NEW), list(qs)


def compare_measured(c, order, version, precision=10, ref=None):
    """None if the program and the circuit agree, else (failed, clause, text); `ref` is a flat circuit written by hand that states
    what `c` means when `c` holds composite operations"""
    import cirq

    try:
        text = c.to_qasm(qubit_order=order, version=version, precision=precision)
    except ValueError as ex:
        return ("refused", f"to_qasm refused: {ex}", None)
    except Exception as ex:
        return ("to_qasm-raised", f"to_qasm raised {ex!r}", None)
    try:
        prog = qr.parse(text)
        qb = qr.branches(prog)
    except qr.QasmError as ex:
        return ("reader-rejects", f"a standard OpenQASM {version} reader rejects the text: {ex}", text)
    try:
        rb = refsim.ref_branches(c if ref is None else ref, order)
    except refsim.ControlBeforeMeasurement:
        return None
    keys = sorted({k for _, rec, _ in rb for k in rec} | {str(k) for k in cirq.measurement_key_names(c if ref is None else ref)})
    names = _creg_names(text, keys)
    missing = [k for k in keys if k not in names]
    if missing:
        return ("no-register-for-key", f"no classical register can be attributed to measurement key(s) {missing} from the text", text)
    sizes = dict(prog.cregs)
    want = {}
    for p, rec, psi in rb:
        cr = {name: [0] * size for name, size in prog.cregs}
        bad = None
        for k, recs in rec.items():
            bits = [d for d, _ in recs[-1]]
            if len(bits) > sizes[names[k]]:
                bad = k
                break
            for i, b in enumerate(bits):
                cr[names[k]][i] = b
        if bad:
            return ("register-too-small", f"register {names[bad]} is smaller than the measurement of key {bad!r}", text)
        key = tuple(sorted((n, tuple(b)) for n, b in cr.items()))
        want[key] = want.get(key, 0) + p * np.outer(psi, psi.conj())
    got = qr.conditional_densities(qb)
    tol = max(1e-6, 40 * 10.0 ** -precision)
    for key in set(want) | set(got):
        a, b = want.get(key), got.get(key)
        if a is None or b is None:
            pr = float(np.trace(a if a is not None else b).real)
            if pr > tol:
                who = "the circuit" if b is None else "the OpenQASM program"
                return ("different-distribution", f"register contents {dict(key)} occur with probability {pr:.4f} only in {who}", text)
            continue
        if not np.allclose(a, b, atol=tol):
            if abs(np.trace(a) - np.trace(b)) > tol:
                return ("different-distribution", f"register contents {dict(key)}: probability {np.trace(a).real:.4f} in the circuit, {np.trace(b).real:.4f} in the OpenQASM program", text)
            return ("different-conditional-state", f"final state given register contents {dict(key)} differs between the circuit and the OpenQASM program", text)
    return None


def standin_measure_control(tier, seed):
    rng = random.Random(seed + 1)
    n_cases = 160 if tier == "quick" else 2000
    cases, fails, refused, distinct = 0, [], 0, set()
    for _ in range(n_cases):
        version = rng.choice(["2.0", "3.0"])
        try:
            c, order = _rand_measured_circuit(rng, version)
        except Exception:
            continue
        cases += 1
        distinct.add((repr(c), version))
        r = compare_measured(c, order, version)
        if r is None:
            continue
        failed, clause, text = r
        if failed == "refused":
            refused += 1
            continue
        fails.append(dict(args=dict(circuit=repr(c), qubit_order=repr(order), version=version, qasm=text), failed=failed, clause=clause))
        if len({f["failed"] for f in fails}) >= 3:
            break
    # measurements inside composite operations (written out by decomposition): each needs its register, and later controls read it
    import cirq
    for _ in range(n_cases // 8):
        version = rng.choice(["2.0", "3.0"])
        qs = _qubits(rng, 2)
        key = rng.choice(["a", "b", "Bad Key", "m_a"])
        ctl = lambda k: cirq.X(qs[1]).with_classical_controls(cirq.MeasurementKey.parse_serialized(k) if ":" in k else k)
        kind = rng.choice(["pauli", "pauli2", "sub", "sub-repeated", "sub-mapped"])
        if kind in ("pauli", "pauli2"):
            ps = cirq.PauliString({qs[0]: rng.choice([cirq.X, cirq.Y, cirq.Z])} if kind == "pauli" else {qs[0]: rng.choice([cirq.X, cirq.Y, cirq.Z]), qs[1]: rng.choice([cirq.X, cirq.Y, cirq.Z])},
                                  coefficient=rng.choice([1, -1]))
            head = [cirq.H(qs[0]), cirq.T(qs[0]), cirq.X(qs[1]) ** 0.5, cirq.measure_single_paulistring(ps, key=key)]
            c = cirq.Circuit(head + [ctl(key)], strategy=cirq.InsertStrategy.NEW)
            ref = c  # the reference semantics know Pauli measurements directly
        else:
            body = [cirq.H(qs[0]), cirq.measure(qs[0], key=key), cirq.X(qs[1]).with_classical_controls(key)]
            sub = cirq.CircuitOperation(cirq.FrozenCircuit(body))
            if kind == "sub":
                c, flat = cirq.Circuit(sub, ctl(key), strategy=cirq.InsertStrategy.NEW), body + [ctl(key)]
            elif kind == "sub-mapped":
                c = cirq.Circuit(sub.with_measurement_key_mapping({key: "z"}), ctl("z"), strategy=cirq.InsertStrategy.NEW)
                flat = [cirq.H(qs[0]), cirq.measure(qs[0], key="z"), ctl("z"), ctl("z")]
            else:
                c = cirq.Circuit(sub.repeat(2, use_repetition_ids=True), ctl("1:" + key), strategy=cirq.InsertStrategy.NEW)
                flat = []
                for rid in ("0", "1"):
                    mk = cirq.MeasurementKey(key, path=(rid,))
                    flat += [cirq.H(qs[0]), cirq.measure(qs[0], key=mk), cirq.X(qs[1]).with_classical_controls(mk)]
                flat.append(ctl("1:" + key))
            ref = cirq.Circuit(flat, strategy=cirq.InsertStrategy.NEW)
        cases += 1
        distinct.add((repr(c), version))
        r = compare_measured(c, qs, version, ref=ref)
        if r is None:
            continue
        failed, clause, text = r
        if failed == "refused":
            refused += 1
            continue
        fails.append(dict(args=dict(circuit=repr(c), qubit_order=repr(qs), version=version, qasm=text, composite=kind), failed=failed, clause=clause))
    return dict(function=F + ":QasmOutput[measurements and classical control]", case="measure-control",
                bound=f"{n_cases} seeded circuits: 2-3 qubits, <= 8 operations, <= 3 measurement keys (valid and invalid identifiers, 1-2 bits, invert masks), "
                      f"re-measured keys, keys with paths, key (also with explicit record index) / sympy-equality conditions, resets; Pauli-string measurements and (repeated / key-mapped) sub-circuits holding measurements, against flat circuits written by hand; exact branch enumeration on both sides ({refused} circuits refused by to_qasm with ValueError)",
                cases=cases, distinct=len(distinct), failures=len(fails), exhaustive=False, _fails=_uniq(fails))
standin_measure_control.prop = "C19"


def standin_registers(tier, seed):
    """exhaustive-small: measurement statements address the right bits for every invert mask, both versions"""
    import cirq

    cases, fails = 0, []
    for n in (1, 2, 3):
        qs = cirq.LineQubit.range(n)
        for perm in itertools.permutations(qs):
            for k in range(1, n + 1):
                for mask in itertools.product([False, True], repeat=k):
                    for version in ("2.0", "3.0"):
                        for key in ("a", "x y"):
                            c = cirq.Circuit([cirq.X(q) ** 0.5 for q in qs], cirq.measure(*perm[:k], key=key, invert_mask=mask))
                            cases += 1
                            r = compare_measured(c, list(qs), version)
                            if r is not None:
                                fails.append(dict(args=dict(circuit=repr(c), version=version), failed=r[0], clause=r[1]))
    # OpenQASM has only qubits: a circuit on qudits must be refused, not exported with the qubit statements of the same gate classes
    qt, qb2 = cirq.LineQid(0, dimension=3), cirq.LineQubit(1)
    for ops_ in ([cirq.XPowGate(dimension=3).on(qt)], [cirq.ZPowGate(dimension=3, exponent=0.5).on(qt)], [cirq.IdentityGate(qid_shape=(3,)).on(qt)], [cirq.X(qb2), cirq.XPowGate(dimension=3).on(qt)],
                 [cirq.ResetChannel(dimension=3).on(qt)], [cirq.MatrixGate(np.roll(np.eye(3), 1, axis=0), qid_shape=(3,)).on(qt)], [cirq.X(qb2).controlled_by(qt, control_values=[2])]):
        for version in ("2.0", "3.0"):
            cases += 1
            c = cirq.Circuit(ops_)
            try:
                text = c.to_qasm(version=version)
            except ValueError:
                continue
            except Exception as ex:
                fails.append(dict(args=dict(circuit=repr(c), version=version), failed="to_qasm-raised", clause=f"to_qasm raised {ex!r} on a qudit circuit (a ValueError refusal is expected)"))
                continue
            fails.append(dict(args=dict(circuit=repr(c), version=version, qasm=text), failed="qudit-exported", clause="a circuit on qudits was exported as an OpenQASM program on qubits (a different computation); it must be refused"))
    return dict(function="cirq-core/cirq/ops/measurement_gate.py:MeasurementGate._qasm_ + QasmOutput._generate_cregs", case="registers",
                bound="all measurements of 1..3 of <= 3 qubits in every order, every invert mask, a valid and an invalid key, both versions; 7 qudit circuits must be refused", cases=cases,
                distinct=cases, failures=len(fails), exhaustive=True, _fails=_uniq(fails))
standin_registers.prop = "C19"

STANDINS = [standin_unitary_circuits, standin_measure_control, standin_registers]
NOT_COVERED = [
               "header text and comment placement"]
EXPLANATION = "whole-circuit export (decomposition fallbacks, numeric matrix gates, registers, measurements, classical control) is a bounded stand-in. "
