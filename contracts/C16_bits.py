"""C16 — bit packing of measurement results (cirq_google/api/v2/results.py) for ANY number of repetitions.

The real pack_bits / unpack_bits are interpreted by pyvc over symbolic-length arrays.  numpy is not verified: each numpy call used
is replaced by an ASSUMED contract stating its documented meaning on a 1-D / (rows x 8) array (np.pad with zeros, reshape, column
reversal, packbits/unpackbits MSB-first along axis 1, tobytes/frombuffer, astype(bool), slicing).  With those, the obligations are:
byte j of pack_bits(b) is sum_k b[8j+k] * 2**k (zero padded), the length is ceil(n/8), and unpack_bits(pack_bits(b), n) == b."""
import numpy as np
import z3

from pyvc import sym, paths
from pyvc.api import Contract, Case, spec, at
from pyvc.sym import SSeq, SInt, wrap, OutOfReach

F = "cirq-google/cirq_google/api/v2/results.py"


class A1(sym.Sym):
    """1-D array: length term n, element getter i -> Int term (0/1 for bits, 0..255 for bytes)"""

    def __init__(self, n, get, kind):
        self.n, self.get, self.kind = n, get, kind

    def length(self):
        return wrap(self.n)

    def reshape(self, shape):
        if isinstance(shape, tuple) and len(shape) == 2 and shape[0] == -1 and shape[1] == 8:
            p = paths.current()
            if not p.valid(self.n % 8 == 0):
                raise ValueError("cannot reshape array into shape (-1, 8)")
            return A2(self.n / 8, 8, lambda r, c: self.get(r * 8 + c), self.kind)
        if isinstance(shape, tuple) and len(shape) == 2 and shape[1] == 1:
            return A2(sym.as_int_term(shape[0]), 1, lambda r, c: self.get(r), self.kind)
        if shape == -1 or shape == (-1,):
            return self
        raise OutOfReach(f"reshape{shape}")

    def tobytes(self):
        if self.kind != "uint8":
            raise OutOfReach("tobytes of non-uint8")
        j = z3.Int(sym.fresh_name("j"))
        return SSeq(z3.simplify(self.n), z3.Lambda([j], self.get(j)), sym.INT, bytes)

    def astype(self, t):
        return A1(self.n, self.get, "bool") if t is bool else self

    def __getitem__(self, idx):
        if isinstance(idx, slice) and idx.start is None and idx.step is None:
            stop = sym.as_int_term(idx.stop)
            m = z3.If(stop < 0, z3.If(self.n + stop < 0, 0, self.n + stop), z3.If(stop < self.n, stop, self.n))
            return A1(z3.simplify(m), self.get, self.kind)
        raise OutOfReach(f"1-D index {idx!r}")


class A2(sym.Sym):
    """2-D array rows x cols (cols concrete)"""

    def __init__(self, rows, cols, get, kind):
        self.rows, self.cols, self.get, self.kind = rows, cols, get, kind

    def __getitem__(self, idx):
        if idx == (slice(None), slice(None, None, -1)):
            return A2(self.rows, self.cols, lambda r, c: self.get(r, (self.cols - 1) - c), self.kind)
        raise OutOfReach(f"2-D index {idx!r}")

    def reshape(self, shape):
        if shape == -1 or shape == (-1,):
            c = self.cols
            return A1(self.rows * c, lambda i: self.get(i / c, i % c), self.kind)
        raise OutOfReach(f"reshape{shape}")


def _m_pad(interp, args, kwargs):
    a, (lo, hi), mode = args[0], args[1], args[2]
    if not isinstance(a, A1) or lo != 0 or mode != "constant":
        return NotImplemented
    n = a.n
    return A1(n + sym.as_int_term(hi), lambda i: z3.If(i < n, a.get(i), 0), a.kind)


def _m_packbits(interp, args, kwargs):
    a = args[0]
    if not isinstance(a, A2) or kwargs.get("axis") != 1 or a.cols != 8:
        return NotImplemented
    # numpy.packbits: bit order 'big' — column 0 is the most significant bit
    return A2(a.rows, 1, lambda r, c: sum(a.get(r, k) * (2 ** (7 - k)) for k in range(8)), "uint8")


def _m_unpackbits(interp, args, kwargs):
    a = args[0]
    if not isinstance(a, A2) or kwargs.get("axis") != 1 or a.cols != 1:
        return NotImplemented
    return A2(a.rows, 8, lambda r, c: (a.get(r, 0) / (2 ** (7 - c))) % 2 if isinstance(c, int) else _bit_msb(a.get(r, 0), c), "uint8")


def _bit_msb(byte, c):
    # c symbolic column: (byte // 2**(7-c)) % 2 written as an ite chain over the 8 columns
    t = z3.IntVal(0)
    for k in range(8):
        t = z3.If(c == k, (byte / (2 ** (7 - k))) % 2, t)
    return t


def _m_frombuffer(interp, args, kwargs):
    s = sym.seq_of(args[0])
    if s is None:
        return NotImplemented
    return A1(s.n, lambda i: sym.select(s.a, i), "uint8")


def _m_len(interp, args, kwargs):
    return NotImplemented


MODELS = {("numpy", "pad"): _m_pad, ("numpy", "packbits"): _m_packbits, ("numpy", "unpackbits"): _m_unpackbits, ("numpy", "frombuffer"): _m_frombuffer}


def bit(arr, i):
    """i-th element of an A1 / SSeq as 0/1 int (0 outside the array)"""
    if isinstance(arr, A1):
        ti = sym.as_int_term(i)
        return wrap(z3.If(z3.And(ti >= 0, ti < arr.n), arr.get(ti), 0))
    raise TypeError


def alen(arr):
    return wrap(arr.n)


def p2(k):
    """2**k for 0 <= k <= 7 as an if-chain (keeps the obligation linear)"""
    tk = sym.as_int_term(k)
    t = z3.IntVal(1)
    for j in range(1, 8):
        t = z3.If(tk == j, 2 ** j, t)
    return wrap(t)


p2._pyvc_native_ok = True


bit._pyvc_native_ok = True
alen._pyvc_native_ok = True


def _bits(name):
    n = z3.Int(sym.fresh_name("n"))
    a = z3.Const(sym.fresh_name("bits"), z3.ArraySort(z3.IntSort(), z3.IntSort()))
    p = paths.current()
    p.assume(n >= 0)
    return A1(n, lambda i: _b01(z3.Select(a, i)), "bool")


def _b01(t):
    return z3.If(t != 0, 1, 0)


Contract(
    F + ":pack_bits", "C16",
    params={"bits": _bits},
    ensures=[
        "len(result) == (alen(bits) + 7) // 8",
        "all(result[j] == bit(bits, 8*j) + 2*bit(bits, 8*j+1) + 4*bit(bits, 8*j+2) + 8*bit(bits, 8*j+3) + 16*bit(bits, 8*j+4) + 32*bit(bits, 8*j+5)"
        " + 64*bit(bits, 8*j+6) + 128*bit(bits, 8*j+7) for j in range(len(result)))",
    ],
    env={"bit": bit, "alen": alen}, models=MODELS, result=None,
    notes="numpy calls replaced by assumed contracts (pad, reshape, [:, ::-1], packbits axis=1 MSB-first, tobytes)",
)


def _data(name):
    s = SSeq.fresh(sym.INT, "data", bytes)
    s.elem_pred = lambda t: z3.And(t >= 0, t <= 255)
    return s


Contract(
    F + ":unpack_bits", "C16",
    params={"data": _data, "repetitions": "nat"},
    requires=["repetitions <= 8 * len(data)"],
    ensures=[
        "alen(result) == repetitions",
        "forall('int', lambda i: implies(0 <= i and i < repetitions, bit(result, i) == (at(data, i // 8) // p2(i % 8)) % 2))",
    ],
    env={"bit": bit, "alen": alen, "at": at, "p2": p2}, models=MODELS,
    notes="numpy calls replaced by assumed contracts (frombuffer, reshape, unpackbits axis=1 MSB-first, [:, ::-1], astype(bool), [:n])",
)

CANARIES = [
    dict(name="pack_bits forgets the per-byte bit reversal", file=F, function=F + ":pack_bits",
         find="    bits = bits.reshape((-1, 8))[:, ::-1]\n    byte_arr = np.packbits(bits, axis=1).reshape(-1)", replace="    bits = bits.reshape((-1, 8))\n    byte_arr = np.packbits(bits, axis=1).reshape(-1)"),
    dict(name="pad computed with the wrong modulus", file=F, function=F + ":pack_bits", find="    pad = -len(bits) % 8\n", replace="    pad = len(bits) % 8\n"),
    dict(name="unpack_bits forgets the bit reversal", file=F, function=F + ":unpack_bits",
         find="np.unpackbits(byte_arr, axis=1)[:, ::-1].reshape(-1).astype(bool)", replace="np.unpackbits(byte_arr, axis=1).reshape(-1).astype(bool)"),
]
