"""C05 — cache-invalidation frame obligations for cirq.Circuit (frameflow) and the bounded history driver.

frameflow proves, for every method of Circuit and every normal exit: an object whose `_moments` was written has had its
derived caches invalidated (`_mutated()`), and its append-placement cache dropped or rebuilt.  The history driver is
the bounded stand-in: it replays call sequences on real circuits and compares every observation with a freshly rebuilt
equal circuit; it is also how a failed frame obligation is turned into a concrete failing history."""
import random

import numpy as np

from pyvc import frameflow

F = "cirq-core/cirq/circuits/circuit.py"

SPEC = frameflow.FrameSpec(
    "C05", F, "Circuit", "_moments", "_mutated", "preserve_placement_cache", "_placement_cache",
    cache_fields=["_all_qubits", "_frozen", "_is_measurement", "_is_parameterized", "_parameter_names"],
    fresh_methods=["copy"], base_classes=["AbstractCircuit"],
    exempt={
        "insert": {"P": "semantic: insert keeps the placement cache only for EARLIEST appends and updates it per op "
                        "(_PlacementCache.append contract); consistency is checked by the bounded history driver"},
        "_load_contents_with_earliest_strategy": {"P": "semantic (same as insert)", "C": "only called from __init__ on a fresh object (checked)"},
        "__init__": {"P": "semantic (constructor establishes the cache for its contents)"},
        "_insert_latest": {"C": "value-dependent guard `max_latest_index != -1`; bounded history driver", "P": "same"},
    },
    identity_summaries={"insert": {"P": "see exempt"}, "append": {"P": "= insert"},
                        "_insert_latest": {"C": "see exempt", "P": "see exempt"}},
    only_called_from={"_load_contents_with_earliest_strategy": {"__init__"}},
)


def frame_check():
    return [frameflow.check(SPEC)]


ENGINE_CHECKS = [frame_check]


# ---------------------------------------------------------------------------------------------------------------------
def _declared():
    """alphabet operation -> (measurement keys, control keys) as written in its construction (not asked from the protocols)"""
    import cirq
    import sympy

    a, b, c = cirq.LineQubit.range(3)
    gated_body = cirq.CircuitOperation(cirq.FrozenCircuit(cirq.X(b).with_classical_controls("m")))            # body on b reads the OUTER key m (measured on c)
    measuring_body = cirq.CircuitOperation(cirq.FrozenCircuit(cirq.measure(a, key="k"), cirq.X(a).with_classical_controls("k")))  # measures k and reads its own k
    table = [
        (cirq.X(a), (), ()), (cirq.Y(b), (), ()), (cirq.CZ(a, b), (), ()),
        (cirq.measure(a, key="k"), ("k",), ()), (cirq.measure(b, key="k"), ("k",), ()), (cirq.measure(c, key="m"), ("m",), ()),
        (cirq.X(b).with_classical_controls("k"), (), ("k",)), (cirq.X(c).with_classical_controls("k", "m"), (), ("k", "m")),
        (cirq.Z(c), (), ()), (cirq.CZ(b, c), (), ()), (cirq.H(a), (), ()), (cirq.Z(b), (), ()),
        (cirq.X(a) ** sympy.Symbol("s"), (), ()), (cirq.rz(sympy.Symbol("t")).on(c), (), ()), (cirq.CZ(a, c) ** sympy.Symbol("s"), (), ()),
        (cirq.Z(b).with_classical_controls(sympy.Symbol("k") + sympy.Symbol("m") > 0), (), ("k", "m")),
        (cirq.Y(b).with_classical_controls("m").with_tags("t"), (), ("m",)),
        (cirq.Z(a).with_classical_controls(sympy.And(sympy.Eq(sympy.IndexedBase("k")[0], 1), sympy.Symbol("m") > 0)), (), ("k", "m")),   # a digit of one key AND the value of another
        (cirq.Y(c).with_classical_controls(sympy.Symbol("m") + sympy.IndexedBase("k")[0] > 0), (), ("k", "m")),
        (gated_body, (), ("m",)),
        (gated_body.with_tags("t"), (), ("m",)),                                         # a tag around a sub-circuit that reads an outer key
        (cirq.CircuitOperation(cirq.FrozenCircuit(cirq.Z(a).with_classical_controls("k").with_tags("inner"))).with_tags("t", "u"), (), ("k",)),
        (gated_body.with_classical_controls("k"), (), ("k", "m")),                      # a control around an operation that has control keys of its own
        (measuring_body, ("k",), ()),
        (cirq.measure_single_paulistring(cirq.X(a) * cirq.Z(b), key="m"), ("m",), ()),
        (-cirq.PauliString(), (), ()), (cirq.global_phase_operation(1j), (), ()),          # operations on no qubit at all (the first one is a sized container of length 0)
        (cirq.X(a) * cirq.Z(c), (), ()),                                                     # a Pauli string used as an operation
    ]
    table += [(g.on(q_), mk, ()) for g, q_, mk in _custom_recorders(a, b, c)]
    if hasattr(cirq, "If"):
        table += [
            (cirq.If("k", cirq.X(c)), (), ("k",)),
            (cirq.If("k", gated_body), (), ("k", "m")),                                  # the body reads a further key of its own
            (cirq.If("m", cirq.Y(a).with_classical_controls("k").with_tags("t")), (), ("k", "m")),   # a tagged controlled operation as the body
            (cirq.If("m", cirq.X(a), cirq.Z(b).with_classical_controls("k")), (), ("k", "m")),       # a multi-operation body with a nested control
        ]
    return {op: (frozenset(cirq.MeasurementKey(k) for k in mk), frozenset(cirq.MeasurementKey(k) for k in ck)) for op, mk, ck in table}


def _custom_recorders(a, b, c):
    """user-defined gates that declare the keys they record through each of the protocol's alternative methods (string / object, one / several)"""
    import cirq

    global _RECORDERS
    if _RECORDERS is None:
        class _Rec(cirq.Gate):
            def __init__(self, label):
                self.label = label

            def _num_qubits_(self):
                return 1

            def _is_measurement_(self):
                return True

            def __eq__(self, other):
                return type(other) is type(self) and other.label == self.label

            def __hash__(self):
                return hash((type(self).__name__, self.label))

            def __repr__(self):
                return f"{type(self).__name__}({self.label!r})"

        class NamesRecorder(_Rec):
            def _measurement_key_names_(self):
                return frozenset(["k", "m"])

        class NameRecorder(_Rec):
            def _measurement_key_name_(self):
                return "m"

        class ObjRecorder(_Rec):
            def _measurement_key_obj_(self):
                return cirq.MeasurementKey("k")

        class ObjsRecorder(_Rec):
            def _measurement_key_objs_(self):
                return frozenset([cirq.MeasurementKey("k"), cirq.MeasurementKey("m")])

        _RECORDERS = (NamesRecorder("names"), NameRecorder("name"), ObjRecorder("obj"), ObjsRecorder("objs"))
    n_, n1, o1, o_ = _RECORDERS
    return [(n_, a, ("k", "m")), (n1, b, ("m",)), (o1, c, ("k",)), (o_, b, ("k", "m"))]


_RECORDERS = None


def _alphabet():
    return list(_declared())


def _keys_of(op):
    import cirq

    d = _DECL.get(op) if _DECL else None
    if d is None:
        _DECL.update(_declared())
        d = _DECL.get(op)
    if d is not None:
        return set(d[0]), set(d[1])
    return set(cirq.measurement_key_objs(op)), set(cirq.control_keys(op))  # derived operations (renamed keys, ...) outside the table


_DECL: dict = {}


def _conflict(o1, o2):
    (mk1, ck1), (mk2, ck2) = _keys_of(o1), _keys_of(o2)
    return bool(set(o1.qubits) & set(o2.qubits) or mk1 & mk2 or mk1 & ck2 or ck1 & mk2)


def _observe(c):
    import cirq

    return dict(qubits=c.all_qubits(), mkeys=c.all_measurement_key_objs(), par=cirq.is_parameterized(c),
                meas=cirq.is_measurement(c), frozen=c.freeze().moments, names=cirq.parameter_names(c), n=len(c))


def moment_incoherent(m):
    """None if every cached summary of the moment equals what a moment rebuilt from its operations reports"""
    import cirq

    fresh = cirq.Moment(m.operations)
    if set(cirq.measurement_key_objs(m)) != set(cirq.measurement_key_objs(fresh)):
        return f"moment's cached measurement keys {sorted(map(str, cirq.measurement_key_objs(m)))} differ from those of its operations {sorted(map(str, cirq.measurement_key_objs(fresh)))}"
    if set(cirq.control_keys(m)) != set(cirq.control_keys(fresh)):
        return f"moment's cached control keys {sorted(map(str, cirq.control_keys(m)))} differ from those of its operations {sorted(map(str, cirq.control_keys(fresh)))}"
    if m.qubits != fresh.qubits or any(m.operation_at(q) != fresh.operation_at(q) for q in fresh.qubits):
        return "moment's qubit index differs from its operations"
    if cirq.is_measurement(m) != cirq.is_measurement(fresh) or not (m == fresh) or hash(m) != hash(fresh):
        return "moment differs from (or hashes differently than) a moment rebuilt from its operations"
    return None


def standin_moment_caches(tier, seed):
    """exhaustive-small: every Moment-producing method x every way of passing the operations (bare, list, nested, generator)"""
    import itertools

    import cirq

    a, b, c = cirq.LineQubit.range(3)
    base_ops = [cirq.X(a), cirq.measure(a, key="k"), cirq.X(a).with_classical_controls("m")]
    new_ops = [cirq.Z(b), cirq.measure(b, key="k2"), cirq.X(b).with_classical_controls("k"), cirq.measure(b, c, key="k3"), cirq.CZ(b, c).with_classical_controls("k", "m")]
    shapes = {"bare": lambda o: (o,), "list": lambda o: ([o],), "nested": lambda o: ([[o]],), "generator": lambda o: ((x for x in [o]),), "mixed": lambda o: ([], [o], ()),
              "tuple-in-list": lambda o: ([(o,)],)}
    cases, fails = 0, []

    def check(m, **args):
        nonlocal cases
        cases += 1
        why = moment_incoherent(m)
        if why:
            fails.append(dict(args={k: repr(v)[:300] for k, v in args.items()}, failed="moment-cache", clause=why))

    for bo, no, (sh, f) in itertools.product(base_ops, new_ops, shapes.items()):
        m0 = cirq.Moment(bo)
        check(m0.with_operations(*f(no)), method="with_operations", base=bo, new=no, shape=sh)
        check(m0.with_operation(no), method="with_operation", base=bo, new=no)
        check(m0 + f(no)[0] if sh != "mixed" else m0 + [no], method="__add__", base=bo, new=no, shape=sh)
        m1 = cirq.Moment(bo, no)
        check(m1, method="Moment(...)", ops=(bo, no))
        check(m1.without_operations_touching([b]), method="without_operations_touching", ops=(bo, no))
        check(m1 - no, method="__sub__", ops=(bo, no))
        check(m1[[b]] if hasattr(m1, "__getitem__") else m1, method="__getitem__", ops=(bo, no))
        check(cirq.with_measurement_key_mapping(m1, {"k": "z", "k2": "z2", "m": "mm"}), method="with_measurement_key_mapping", ops=(bo, no))
        check(cirq.with_key_path_prefix(m1, ("p",)), method="with_key_path_prefix", ops=(bo, no))
        check(m1.transform_qubits({a: b, b: a}), method="transform_qubits", ops=(bo, no))
        check(m1.with_tags("t") if hasattr(m1, "with_tags") else m1, method="with_tags", ops=(bo, no))
        cc = cirq.Circuit(cirq.Moment(bo))
        cc.batch_insert_into([(0, list(f(no)))])
        check(cc[0], method="Circuit.batch_insert_into", base=bo, new=no, shape=sh)
        c2 = cirq.Circuit(cirq.Moment(bo), *f(no))
        for mm in c2:
            check(mm, method="Circuit(Moment, ops...)", base=bo, new=no, shape=sh)
    seen, uniq = set(), []
    for x in fails:
        k = (x["args"].get("method"), x["args"].get("shape"))
        if k not in seen:
            seen.add(k)
            uniq.append(x)
    return dict(function="cirq-core/cirq/circuits/moment.py:Moment[cached key and qubit summaries]", case="moment-caches",
                bound="3 base operations x 5 new operations (gate / measurement / classically controlled) x 6 ways of passing them x 13 Moment-producing methods", cases=cases, distinct=cases,
                failures=len(fails), exhaustive=True, _fails=uniq[:4])
standin_moment_caches.prop = "C05"


def _check_state(c, hist):
    """Every query answers as a freshly rebuilt equal circuit would (incl. how later appends are placed)."""
    import cirq

    rebuilt = cirq.Circuit(c.moments, tags=c.tags)
    if not (c == rebuilt):
        return "circuit != circuit rebuilt from its own moments"
    o1, o2 = _observe(c), _observe(rebuilt)
    if o1 != o2:
        bad = [k for k in o1 if o1[k] != o2[k]]
        return f"cached query differs from a freshly rebuilt equal circuit: {bad}"
    for m in c.moments:
        qs = [q for op in m.operations for q in op.qubits]
        if len(qs) != len(set(qs)):
            return "moment with overlapping qubits"
        why = moment_incoherent(m)
        if why:
            return why
    return _frozen_views(c)


def _frozen_views(c):
    """The frozen view and the views derived from it (tagged, tagged again, untagged) answer as frozen circuits rebuilt from the same
    moments and tags would — also after the source view has already answered (and cached) every query."""
    import cirq
    import sympy

    def obs(f):
        return dict(qubits=f.all_qubits(), mkeys=f.all_measurement_key_objs(), mnames=f.all_measurement_key_names(), par=cirq.is_parameterized(f), names=cirq.parameter_names(f),
                    meas=cirq.is_measurement(f), ckeys=cirq.control_keys(f), n=len(f), tags=f.tags, ops=tuple(f.all_operations()), has_u=cirq.has_unitary(f), unfrozen=f.unfreeze(), h=hash(f))

    fz = c.freeze()
    chain = [("freeze()", fz)]
    obs(fz)  # the source view answers everything first
    t1 = fz.with_tags(sympy.Symbol("theta_tag"))
    chain.append(("freeze().with_tags(Symbol)", t1))
    obs(t1)
    t2 = t1.with_tags("plain")
    chain += [("...with_tags(Symbol).with_tags('plain')", t2), ("...untagged", t2.untagged), ("freeze().with_tags('plain')", fz.with_tags("plain"))]
    for name, f in chain:
        rebuilt = cirq.FrozenCircuit(f.moments, tags=f.tags)
        o1, o2 = obs(f), obs(rebuilt)
        if o1 != o2 or not (f == rebuilt):
            bad = [k for k in o1 if o1[k] != o2[k]] or ["=="]
            return f"frozen view {name}: {bad} differ from a frozen circuit rebuilt from the same moments and tags ({ {k: (o1[k], o2[k]) for k in bad if k in o1} })"
    return None


def _append_probe(c):
    """Appending to the actual object (not a copy: a copy drops the placement cache) must equal appending to a rebuild."""
    import cirq

    problems = []
    for probe in _alphabet()[:10]:
        rebuilt = cirq.Circuit(c.moments, tags=c.tags)
        before = list(c.moments)
        rebuilt.append(probe)
        try:
            c.append(probe)
        except Exception as ex:
            return f"append({probe!r}) raised {ex!r} although appending to a freshly rebuilt equal circuit succeeds"
        same = c == rebuilt
        # undo on the actual object without going through public mutators that reset caches: rebuild instead
        if not same:
            problems.append(f"append({probe!r}) placed the op differently from a freshly rebuilt equal circuit: "
                            f"{[i for i, m in enumerate(c.moments) if probe in m.operations]} vs "
                            f"{[i for i, m in enumerate(rebuilt.moments) if probe in m.operations]}")
            break
        # restore moments for the next probe, keeping the *same kind* of cache state as a rebuild would have
        c._moments[:] = before
        c._mutated()
    return problems[0] if problems else None


def _ops_bag(c):
    from collections import Counter

    return Counter(op for m in c.moments for op in m.operations)


def _order_ok(before_moments, c, inserted, k, strategy_is_not_earliest=True):
    """Conflicting ops keep their order: existing among themselves; inserted after everything before the insertion point."""
    pos = {}
    for i, m in enumerate(c.moments):
        for op in m.operations:
            pos.setdefault(op, []).append(i)
    old = [(i, op) for i, m in enumerate(before_moments) for op in m.operations]
    # existing ones among themselves (only meaningful when each op occurs once)
    single = [x for x in old if sum(1 for y in old if y[1] == x[1]) == 1 and x[1] not in inserted]
    for (i1, o1) in single:
        for (i2, o2) in single:
            if i1 < i2 and _conflict(o1, o2) and not (pos[o1][0] < pos[o2][0]):
                return f"existing conflicting ops {o1!r} (moment {i1}) and {o2!r} (moment {i2}) lost their order"
    if k is None:
        return None
    # inserted ones: among themselves, after every conflicting operation before the insertion point, before every one after it
    L = len(before_moments)
    k = max(min(k if k >= 0 else L + k, L), 0)
    count = {}
    for op in inserted:
        count[op] = count.get(op, 0) + 1
    uniq_new = [op for op in inserted if count[op] == 1 and len(pos.get(op, ())) == 1]
    for a_ in range(len(uniq_new)):
        for b_ in range(a_ + 1, len(uniq_new)):
            o1, o2 = uniq_new[a_], uniq_new[b_]
            if _conflict(o1, o2) and not (pos[o1][0] < pos[o2][0]):
                return f"inserted conflicting ops {o1!r} and {o2!r} lost the order in which they were given"
    for o in uniq_new:
        for (i, e) in single:
            if not _conflict(o, e):
                continue
            if i < k and not (pos[e][0] < pos[o][0]):
                return f"inserted {o!r} landed in moment {pos[o][0]}, not after the conflicting {e!r} (moment {pos[e][0]}) that was before the insertion point {k}"
            if i >= k and not (pos[o][0] < pos[e][0]) and (len(inserted) == 1 or strategy_is_not_earliest):
                return f"inserted {o!r} landed in moment {pos[o][0]}, not before the conflicting {e!r} (moment {pos[e][0]}) that was at or after the insertion point {k}"
    return None


METHODS = ["append", "insert", "insert_into_range", "batch_insert", "batch_remove", "batch_replace", "batch_insert_into",
           "setitem", "delitem", "clear_operations_touching", "with_tags", "copy", "add", "radd", "imul", "iadd",
           "insert_latest", "unfreeze", "from_moments"]


def _step(c, rng, method, ops):
    """Apply one call; returns (new circuit object to continue with, description, error-or-None)."""
    import cirq

    S = cirq.InsertStrategy
    strategies = [S.EARLIEST, S.NEW, S.INLINE, S.NEW_THEN_INLINE, S.LATEST]
    pick = lambda n=2: rng.choices(ops, k=rng.randrange(1, n + 1))
    L = len(c)
    bag0 = _ops_bag(c)
    before = list(c.moments)
    err = None
    if method == "append":
        new, st = pick(3), rng.choice(strategies)
        c.append(new, strategy=st)
        desc = f"append({new!r}, {st})"
        if _ops_bag(c) != bag0 + _ops_bag(cirq.Circuit(cirq.Moment([o]) for o in new)):
            err = "operations lost or duplicated"
        err = err or _order_ok(before, c, new, L, st is not S.EARLIEST)
    elif method == "insert" or method == "insert_latest":
        new, st, k = pick(3), (S.LATEST if method == "insert_latest" else rng.choice(strategies)), rng.randrange(-1, L + 2)
        c.insert(k, new, strategy=st)
        desc = f"insert({k}, {new!r}, {st})"
        if _ops_bag(c) != bag0 + _ops_bag(cirq.Circuit(cirq.Moment([o]) for o in new)):
            err = "operations lost or duplicated"
        err = err or _order_ok(before, c, new, k, st is not S.EARLIEST)
    elif method == "insert_into_range":
        if L == 0:
            return c, "skip", None
        s = rng.randrange(0, L)
        e = rng.randrange(s, L + 1)
        new = pick(4)
        try:
            c.insert_into_range(new, s, e)
            desc = f"insert_into_range({new!r}, {s}, {e})"
            if _ops_bag(c) != bag0 + _ops_bag(cirq.Circuit(cirq.Moment([o]) for o in new)):
                err = "operations lost or duplicated"
        except ValueError as ex:
            desc = f"insert_into_range({new!r}, {s}, {e}) raised {ex}"
            err = f"insert_into_range raised {ex!r} on operations that fit the circuit"
    elif method == "batch_insert":
        items = [(rng.randrange(0, L + 1), rng.choice(ops)) for _ in range(rng.randrange(1, 3))]
        c.batch_insert(items)
        desc = f"batch_insert({items!r})"
    elif method == "batch_remove":
        present = [(i, op) for i, m in enumerate(c.moments) for op in m.operations]
        if not present:
            return c, "skip", None
        items = rng.sample(present, k=min(len(present), rng.randrange(1, 3)))
        if rng.random() < 0.3:
            items.append((0, cirq.X(cirq.LineQubit(7))))  # not present: must raise and leave the circuit untouched
        try:
            c.batch_remove(items)
            desc = f"batch_remove({items!r})"
        except (ValueError, IndexError):
            desc = f"batch_remove({items!r}) raised"
            if list(c.moments) != before:
                err = "batch_remove raised but modified the circuit"
    elif method == "batch_replace":
        present = [(i, op) for i, m in enumerate(c.moments) for op in m.operations if len(op.qubits) == 1 and not cirq.is_measurement(op) and not cirq.control_keys(op)]
        if not present:
            return c, "skip", None
        i, op = rng.choice(present)
        new = cirq.Y(op.qubits[0])
        c.batch_replace([(i, op, new)])
        desc = f"batch_replace([({i}, {op!r}, {new!r})])"
    elif method == "batch_insert_into":
        if L == 0:
            return c, "skip", None
        i = rng.randrange(0, L)
        free = [o for o in ops if not c[i].operates_on(o.qubits)]
        if not free:
            return c, "skip", None
        op = rng.choice(free)
        c.batch_insert_into([(i, op)])
        desc = f"batch_insert_into([({i}, {op!r})])"
    elif method == "setitem":
        if L == 0:
            return c, "skip", None
        i = rng.randrange(0, L)
        m = cirq.Moment(rng.choice(ops))
        c[i] = m
        desc = f"c[{i}] = {m!r}"
    elif method == "delitem":
        if L == 0:
            return c, "skip", None
        i = rng.randrange(0, L)
        del c[i]
        desc = f"del c[{i}]"
    elif method == "clear_operations_touching":
        q = rng.choice(cirq.LineQubit.range(3))
        idx = [rng.randrange(0, L + 1)] if L else [0]
        c.clear_operations_touching([q], idx)
        desc = f"clear_operations_touching([{q!r}], {idx})"
    elif method == "with_tags":
        c = c.with_tags("t%d" % rng.randrange(3))
        desc = "c = c.with_tags(..)"
    elif method == "copy":
        c = c.copy()
        desc = "c = c.copy()"
    elif method == "add":
        new = pick(2)
        c = c + cirq.Circuit(new)
        desc = f"c = c + Circuit({new!r})"
    elif method == "radd":
        new = pick(2)
        c = new + c
        desc = f"c = {new!r} + c"
    elif method == "imul":
        r = rng.randrange(0, 3)
        c *= r
        desc = f"c *= {r}"
    elif method == "iadd":
        new = pick(2)
        c += new
        desc = f"c += {new!r}"
    elif method == "unfreeze":
        c = c.freeze().unfreeze(copy=rng.random() < 0.5)
        desc = "c = c.freeze().unfreeze(..)"
    elif method == "from_moments":
        c = cirq.Circuit.from_moments(*c.moments)
        desc = "c = Circuit.from_moments(*c.moments)"
    else:
        raise AssertionError(method)
    return c, desc, err


def run_histories(n, seed, max_len, focus=None):
    import cirq

    rng = random.Random(seed)
    ops = _alphabet()
    cases, distinct, fails = 0, set(), []
    for h in range(n):
        start = rng.choices(ops, k=rng.randrange(0, 4))
        c = cirq.Circuit(start) if rng.random() < 0.7 else cirq.Circuit(cirq.Moment([o]) for o in start)
        hist = [f"c = Circuit({start!r})"]
        for step in range(rng.randrange(1, max_len + 1)):
            method = focus if (focus and rng.random() < 0.4) else rng.choice(METHODS)
            if rng.random() < 0.3:
                _observe(c)  # populate the caches so that a missing invalidation becomes observable
            try:
                c, desc, err = _step(c, rng, method, ops)
            except Exception as ex:  # an unexpected exception of a public call is an observation too
                desc, err = f"{method} raised {ex!r}", None
                hist.append(desc)
                break
            if desc == "skip":
                continue
            hist.append(desc)
            cases += 1
            err = err or _check_state(c, hist) or _append_probe(c)
            if err:
                fails.append(dict(args=dict(history=list(hist)), failed="history", clause=err))
                break
        distinct.add(tuple(hist))
        if len(fails) >= 3:
            break
    return cases, len(distinct), fails


def standin_history(tier, seed):
    n = 150 if tier == "quick" else 4000
    cases, distinct, fails = run_histories(n, seed, 6 if tier == "quick" else 10)
    return dict(function=F + ":Circuit[public mutators and queries]", case="history-driver",
                bound=f"{n} seeded histories of <= {6 if tier == 'quick' else 10} public calls over a 12-op alphabet (3 qubits, 2 keys, classical controls); "
                      "after every call: equality and cached queries vs a freshly rebuilt equal circuit, bag preservation, order of "
                      "conflicting existing ops, and placement of 10 probe appends vs the rebuilt circuit",
                cases=cases, distinct=distinct, failures=len(fails), exhaustive=False, _fails=fails)
standin_history.prop = "C05"


def standin_placement_small(tier, seed):
    """EVERY ordered pair (and, thorough: triple) of alphabet operations through every insertion entry point: the new operation lands
    where the strategy says — for EARLIEST and the constructor exactly one moment after the last operation it conflicts with (conflict
    taken from the keys written in the operations' construction, not from the protocols)."""
    import itertools
    import cirq

    S = cirq.InsertStrategy
    ops = _alphabet()
    cases, fails = 0, []

    def where(c, op):
        return [i for i, m in enumerate(c.moments) if op in m.operations]

    def expect_earliest(c_before, o):
        last = -1
        for i, m in enumerate(c_before.moments):
            if any(_conflict(e, o) for e in m.operations):
                last = i
        return last + 1

    def bad(desc, clause):
        if len(fails) < 4:
            fails.append(dict(args=dict(calls=desc), failed="placement", clause=clause))

    prefixes = [(e,) for e in ops]
    prefixes += [(e1, e2) for e1, e2 in itertools.product(ops, repeat=2) if e1 != e2]
    for pre in prefixes:
        base = cirq.Circuit(pre)
        for o in ops:
            if o in pre:
                continue
            want = expect_earliest(base, o)
            # constructor and append(EARLIEST)
            for desc, c in ((f"Circuit({list(pre) + [o]!r})", cirq.Circuit(list(pre) + [o])), (f"Circuit({list(pre)!r}).append({o!r})", _appended(base, o, S.EARLIEST))):
                cases += 1
                got = where(c, o)
                if got != [want]:
                    bad(desc, f"{o!r} landed in moment(s) {got}; the earliest moment after every conflicting operation is {want}")
            # the other strategies at the end of the circuit: after every conflicting operation; NEW always opens a moment
            for st in (S.NEW, S.INLINE, S.NEW_THEN_INLINE, S.LATEST):
                cases += 1
                c = _appended(base, o, st)
                got = where(c, o)
                last_conflict = want - 1
                if len(got) != 1 or got[0] <= last_conflict:
                    bad(f"Circuit({list(pre)!r}).append({o!r}, {st})", f"{o!r} landed in moment(s) {got}, not after the conflicting operation in moment {last_conflict}")
                elif st is S.NEW and got[0] != len(base):
                    bad(f"Circuit({list(pre)!r}).append({o!r}, {st})", f"NEW must open moment {len(base)}; landed in {got}")
                elif st is S.INLINE and got[0] != (len(base) - 1 if last_conflict < len(base) - 1 else len(base)):
                    bad(f"Circuit({list(pre)!r}).append({o!r}, {st})", f"INLINE must use the last moment iff it has no conflict; landed in {got}")
            # insert at the front: before every conflicting operation
            for st in (S.EARLIEST, S.NEW, S.INLINE):
                cases += 1
                c = base.copy()
                c.insert(0, o, strategy=st)
                got = where(c, o)
                firsts = [i for i, m in enumerate(c.moments) for e in m.operations if e in pre and _conflict(e, o)]
                if len(got) != 1 or (firsts and got[0] >= min(firsts)):
                    bad(f"Circuit({list(pre)!r}).insert(0, {o!r}, {st})", f"{o!r} landed in moment(s) {got}, not before the conflicting operation in moment {min(firsts) if firsts else None}")
    return dict(function=F + ":Circuit[placement of one more operation]", case="placement-small",
                bound=f"every prefix of 1-2 distinct operations x every further operation of a {len(ops)}-operation alphabet (classical controls incl. sympy conditions, tagged, "
                      "a control around a sub-circuit that reads an outer key, measuring sub-circuit, Pauli measurement) x constructor / append with 5 strategies / insert at 0 with 3",
                cases=cases, distinct=cases, failures=len(fails), exhaustive=True, _fails=fails[:4])
standin_placement_small.prop = "C05"


def _appended(base, o, st):
    c = base.copy()
    c.append(o, strategy=st)
    return c


def standin_structural_ops(tier, seed):
    """whole-circuit operations against an independent model of the moment structure: inversion, zipping, qubit remapping (also twice,
    also through sub-circuit operations that already carry a qubit map), concatenation, repetition, ragged concatenation, slicing, freezing"""
    import cirq
    from contracts import refsim

    rng = random.Random(seed + 41)
    cases, fails = 0, []
    pool = [cirq.LineQubit(i) for i in range(4)] + [cirq.NamedQubit("n"), cirq.GridQubit(0, 1)]

    def bad(what, **kw):
        if sum(1 for f in fails if f["failed"] == what) < 2:
            fails.append(dict(args={k: repr(v) for k, v in kw.items()}, failed=what, clause=what))

    def rand_circuit(qs, with_subcircuit=True):
        moments = []
        for _ in range(rng.randrange(1, 5)):
            free, mops = rng.sample(qs, len(qs)), []
            while free:
                r = rng.random()
                if r < 0.3 and len(free) >= 2:
                    mops.append(rng.choice([cirq.CNOT, cirq.CZ ** 0.5, cirq.ISWAP ** 0.5])(free.pop(), free.pop()))
                elif r < 0.4 and len(free) >= 2 and with_subcircuit:
                    x, y = free.pop(), free.pop()
                    sub = cirq.CircuitOperation(cirq.FrozenCircuit(cirq.H(x), cirq.CNOT(x, y), cirq.T(y)))
                    if rng.random() < 0.6:
                        sub = sub.with_qubit_mapping({x: y, y: x})  # the operation already carries a qubit map
                    mops.append(sub)
                elif r < 0.8:
                    mops.append(rng.choice([cirq.H, cirq.T, cirq.X ** 0.5, cirq.Y ** 0.25, cirq.S])(free.pop()))
                else:
                    free.pop()
            moments.append(cirq.Moment(mops))
        return cirq.Circuit(moments)

    def U(c, order):
        return refsim.ref_unitary(cirq.Circuit(cirq.decompose(c, keep=lambda o: not isinstance(o.untagged, cirq.CircuitOperation))), order)

    for it in range(60 if tier == "quick" else 800):
        qs = rng.sample(pool, rng.choice([2, 3, 3, 4]))
        c = rand_circuit(qs)
        order = list(qs)
        u = U(c, order)
        # inversion: moments reversed, every operation inverted
        cases += 1
        inv = cirq.inverse(c)
        if len(inv) != len(c) or any(sorted(map(repr, inv[i].qubits)) != sorted(map(repr, c[len(c) - 1 - i].qubits)) for i in range(len(c))):
            bad("inverse(circuit) does not keep the moment structure reversed", circuit=c)
        elif not np.allclose(U(inv, order), u.conj().T, atol=1e-7) or not np.allclose(U(c ** -1, order), u.conj().T, atol=1e-7):
            bad("inverse(circuit) is not the adjoint", circuit=c)
        # qubit remapping: a permutation, applied once and twice (the second one undoing or composing with the first)
        cases += 1
        perm = dict(zip(qs, rng.sample(qs, len(qs))))
        extra = [x for x in pool if x not in qs]
        if extra and rng.random() < 0.5:
            perm[qs[0]], perm_inv_fix = extra[0], None  # onto a new qubit (no longer a permutation of qs: rebuild as injective map)
            used = set()
            for k_ in qs:
                if perm[k_] in used:
                    perm[k_] = next(x for x in qs + extra if x not in used and x not in perm.values())
                used.add(perm[k_])
        try:
            t1 = c.transform_qubits(perm)
            back_ = {v: k_ for k_, v in perm.items()}
            t1.transform_qubits(back_)
        except Exception as ex:
            bad(f"transform_qubits with an injective qubit map raised {type(ex).__name__}", circuit=c, qubit_map=perm, error=str(ex)[:160])
            continue
        want_q = {perm[x] for x in c.all_qubits()}
        if set(t1.all_qubits()) != want_q:
            bad("transform_qubits: the remapped circuit acts on the wrong set of qubits", circuit=c, qubit_map=perm, got=sorted(map(repr, t1.all_qubits())))
        elif not np.allclose(U(t1, [perm[x] for x in order]), u, atol=1e-7):
            bad("transform_qubits: the remapped circuit is not the original with its qubits renamed", circuit=c, qubit_map=perm)
        else:
            back = {v: k_ for k_, v in perm.items()}
            t2 = t1.transform_qubits(back)
            if set(t2.all_qubits()) != set(c.all_qubits()) or not np.allclose(U(t2, order), u, atol=1e-7):
                bad("transform_qubits twice (a map, then its inverse) does not give back the original circuit's action", circuit=c, qubit_map=perm)
            elif t2 != c:
                bad("transform_qubits twice (a map, then its inverse) is not equal to the original circuit", circuit=c, qubit_map=perm)
            second = dict(zip(list(perm.values()), rng.sample(list(perm.values()), len(perm))))
            t3 = t1.transform_qubits(second)
            comp = {k_: second[v] for k_, v in perm.items()}
            if not np.allclose(U(t3, [comp[x] for x in order]), u, atol=1e-7) or t3 != c.transform_qubits(comp):
                bad("transform_qubits twice differs from remapping once with the composition", circuit=c, first=perm, second=second)
        # zip: moment i of the result is the union of the operands' moments i; overlapping qubits are refused
        cases += 1
        others = [x for x in pool if x not in qs][:2]
        if others:
            d = rand_circuit(others, with_subcircuit=False)
            z = cirq.Circuit.zip(c, d)
            L = max(len(c), len(d))
            ok = len(z) == L and all(set(z[i].operations) == set((c[i].operations if i < len(c) else ()) + (d[i].operations if i < len(d) else ())) for i in range(L))
            if not ok:
                bad("Circuit.zip: moment i is not the union of the operands' moments i", a=c, b=d)
        try:
            cirq.Circuit.zip(c, c)
            if len(c.all_qubits()) and any(len(m) for m in c):
                bad("Circuit.zip accepted two circuits with overlapping qubits in the same moment", a=c)
        except ValueError:
            pass
        # concatenation, repetition, slicing, freezing
        cases += 1
        d = rand_circuit(qs)
        if list((c + d).moments) != list(c.moments) + list(d.moments):
            bad("c + d is not the concatenation of the moments", a=c, b=d)
        if list((c * 3).moments) != list(c.moments) * 3:
            bad("c * 3 is not the moments repeated", a=c)
        i, j = sorted((rng.randrange(0, len(c) + 1), rng.randrange(0, len(c) + 1)))
        if list(c[i:j].moments) != list(c.moments)[i:j]:
            bad("c[i:j] is not the slice of the moments", a=c, i=i, j=j)
        fz = c.freeze()
        if fz.unfreeze() != c or list(fz.moments) != list(c.moments) or hash(fz) != hash(cirq.FrozenCircuit(c.moments)) or fz != cirq.FrozenCircuit(c.moments):
            bad("freeze / unfreeze changes the circuit (or equal frozen circuits hash differently)", a=c)
        # the frozen view's answers do not depend on what a caller did with an earlier answer
        u_own = cirq.unitary(cirq.FrozenCircuit(c.moments))
        u_first = cirq.unitary(fz)
        u_first *= 2
        if not np.allclose(cirq.unitary(fz), u_own, atol=1e-7) or (len(fz.all_qubits()) and not np.allclose(cirq.unitary(cirq.CircuitOperation(fz)), u_own, atol=1e-7)):
            bad("the unitary of a frozen circuit changes after a caller modified the array returned earlier", a=c)
        # ragged concatenation: same action, nothing lost, each qubit's operations in order
        cases += 1
        cr = cirq.Circuit.concat_ragged(c, d)
        if sorted(map(repr, cr.all_operations())) != sorted(map(repr, list(c.all_operations()) + list(d.all_operations()))):
            bad("concat_ragged lost or duplicated operations", a=c, b=d)
        elif not np.allclose(U(cr, order), U(d, order) @ u, atol=1e-7):
            bad("concat_ragged changed the action of c followed by d", a=c, b=d)
        # ragged concatenation of circuits over the declared-key alphabet: operations of the two circuits that conflict (qubit or key) keep their order
        alpha = _alphabet()
        ca = cirq.Circuit(rng.sample(alpha, rng.randrange(1, 4)), strategy=rng.choice([cirq.InsertStrategy.EARLIEST, cirq.InsertStrategy.NEW]))
        da = cirq.Circuit(rng.sample(alpha, rng.randrange(1, 4)), strategy=rng.choice([cirq.InsertStrategy.EARLIEST, cirq.InsertStrategy.NEW]))
        for align in (cirq.Alignment.LEFT, cirq.Alignment.RIGHT, cirq.Alignment.FIRST):
            cases += 1
            try:
                cra = cirq.Circuit.concat_ragged(ca, da, align=align)
            except Exception as ex:
                bad(f"concat_ragged raised {type(ex).__name__}", a=ca, b=da, align=align)
                continue
            pos = {}
            for i_, m_ in enumerate(cra.moments):
                for o_ in m_.operations:
                    pos.setdefault(o_, []).append(i_)
            for o1 in ca.all_operations():
                for o2 in da.all_operations():
                    if o1 != o2 and len(pos.get(o1, ())) == 1 and len(pos.get(o2, ())) == 1 and _conflict(o1, o2) and not pos[o1][0] < pos[o2][0]:
                        bad("concat_ragged: an operation of the second circuit does not come after a conflicting operation of the first", a=ca, b=da, align=align, first=o1, second=o2)
        if len(fails) >= 6:
            break
    return dict(function=F + ":Circuit[inverse, zip, transform_qubits, +, *, slices, freeze, concat_ragged]", case="structural-ops",
                bound="seeded circuits of 1-4 moments on 2-4 qubits (line / named / grid) with sub-circuit operations that already carry qubit maps; permutations and maps onto new qubits, applied once, undone, and composed",
                cases=cases, distinct=cases, failures=len(fails), exhaustive=False, _fails=fails[:4])
standin_structural_ops.prop = "C05"


STANDINS = [standin_history, standin_moment_caches, standin_placement_small, standin_structural_ops]


def _replay_frame(ob, seed):
    """A failed frame obligation names a method: search histories biased towards it for a concrete failing history."""
    focus = {"__iadd__": "iadd", "__radd__": "radd", "__imul__": "imul", "__setitem__": "setitem", "__delitem__": "delitem",
             "__add__": "add", "_insert_latest": "insert_latest", "_from_moments": "from_moments"}.get(ob.case, ob.case)
    if focus not in METHODS:
        focus = None
    for s in range(3):
        _, _, fails = run_histories(1500, seed + 1000 + s, 8, focus=focus)
        if fails:
            return fails[0]
    return None


REPLAYERS = {F + ":Circuit[frame": _replay_frame}

CANARIES = [
    dict(name="insert_into_range: _mutated() only on the early-return path (stale placement cache on overflow)", file=F, engine_check=0,
         find="            op_index += 1\n        self._mutated()\n\n        if op_index >= len(flat_ops):\n            return end\n",
         replace="            op_index += 1\n\n        if op_index >= len(flat_ops):\n            self._mutated()\n            return end\n"),
    dict(name="__delitem__ forgets _mutated()", file=F, engine_check=0,
         find="        del self._moments[key]\n        self._mutated()", replace="        del self._moments[key]"),
    dict(name="copy keeps the fresh placement cache", file=F, engine_check=0,
         find="        copied_circuit._placement_cache = None\n", replace=""),
]
