"""An independent reader for the OpenQASM subset Cirq emits (2.0 with qelib1.inc, 3.0 with stdgates.inc).

Nothing here imports cirq.  Gate meanings come from the text of the standard library below (the definitions of qelib1.inc,
in terms of the built-in U(theta, phi, lambda) and CX), parsed by the same parser.  A gate name that the included library
does not define is an error, as it is for any OpenQASM reader.

Arithmetic is pluggable: numeric (floats / numpy) or exact (pyvc.trigpoly Angle / TrigPoly), so the same definitions give the
matrix of `rx($0) q[0];` for a symbolic angle $0.

Conventions: the flattened qubit order is declaration order, q[0] first = most significant (big-endian), which is how
`cirq.Circuit.unitary(qubit_order=...)` orders its matrix; creg c: bit c[0] is the least significant bit of the integer
value of c (OpenQASM 2.0 section 3.2: `if(c==n)` compares the register as an integer, c[0] lowest)."""
from __future__ import annotations

import itertools
import math
import re
from fractions import Fraction

import numpy as np


class QasmError(Exception):
    pass


# The standard library.  qelib1.inc as distributed with the OpenQASM 2.0 tool chains (the paper's file plus the later additions
# sx, sxdg, swap, cswap, p, u, cp, crx, cry that every current reader ships).
QELIB1 = r"""
gate u3(theta,phi,lambda) q { U(theta,phi,lambda) q; }
gate u2(phi,lambda) q { U(pi/2,phi,lambda) q; }
gate u1(lambda) q { U(0,0,lambda) q; }
gate cx c,t { CX c,t; }
gate id a { U(0,0,0) a; }
gate u0(gamma) q { U(0,0,0) q; }
gate u(theta,phi,lambda) q { U(theta,phi,lambda) q; }
gate p(lambda) q { U(0,0,lambda) q; }
gate x a { u3(pi,0,pi) a; }
gate y a { u3(pi,pi/2,pi/2) a; }
gate z a { u1(pi) a; }
gate h a { u2(0,pi) a; }
gate s a { u1(pi/2) a; }
gate sdg a { u1(-pi/2) a; }
gate t a { u1(pi/4) a; }
gate tdg a { u1(-pi/4) a; }
gate rx(theta) a { u3(theta,-pi/2,pi/2) a; }
gate ry(theta) a { u3(theta,0,0) a; }
gate rz(phi) a { u1(phi) a; }
gate sx a { sdg a; h a; sdg a; }
gate sxdg a { s a; h a; s a; }
gate cz a,b { h b; cx a,b; h b; }
gate cy a,b { sdg b; cx a,b; s b; }
gate swap a,b { cx a,b; cx b,a; cx a,b; }
gate ch a,b { h b; sdg b; cx a,b; h b; t b; cx a,b; t b; h b; s b; x b; s a; }
gate ccx a,b,c { h c; cx b,c; tdg c; cx a,c; t c; cx b,c; tdg c; cx a,c; t b; t c; h c; cx a,b; t a; tdg b; cx a,b; }
gate cswap a,b,c { cx c,b; ccx a,b,c; cx c,b; }
gate crx(lambda) a,b { u1(pi/2) b; cx a,b; u3(-lambda/2,0,0) b; cx a,b; u3(lambda/2,-pi/2,0) b; }
gate cry(lambda) a,b { ry(lambda/2) b; cx a,b; ry(-lambda/2) b; cx a,b; }
gate crz(lambda) a,b { rz(lambda/2) b; cx a,b; rz(-lambda/2) b; cx a,b; }
gate cu1(lambda) a,b { u1(lambda/2) a; cx a,b; u1(-lambda/2) b; cx a,b; u1(lambda/2) b; }
gate cp(lambda) a,b { p(lambda/2) a; cx a,b; p(-lambda/2) b; cx a,b; p(lambda/2) b; }
gate cu3(theta,phi,lambda) c,t { u1((lambda+phi)/2) c; u1((lambda-phi)/2) t; cx c,t; u3(-theta/2,0,-(phi+lambda)/2) t; cx c,t; u3(theta/2,phi,0) t; }
"""

# stdgates.inc of OpenQASM 3.0 defines exactly these names (spec, "Standard library"); their matrices agree with the qelib1
# definitions above up to a global phase (3.0 writes the phases out with gphase), so the same bodies are used for them.
STDGATES_NAMES = ("p x y z h s sdg t tdg sx rx ry rz cx cy cz cp crx cry crz ch swap ccx cswap cu CX phase cphase id u1 u2 u3").split()
STDGATES_EXTRA = r"""
gate phase(lambda) q { U(0,0,lambda) q; }
gate cphase(lambda) a,b { cp(lambda) a,b; }
"""

_TOKEN = re.compile(r"\s*(?:(//[^\n]*)|(\d+\.\d*(?:[eE][+-]?\d+)?|\.\d+(?:[eE][+-]?\d+)?|\d+(?:[eE][+-]?\d+)?)|([A-Za-z_][A-Za-z0-9_]*)|(\$\d+)|(\"[^\"]*\")|(->|==|!=|&&|\|\||[()\[\]{},;+\-*/^=<>!]))")


def tokenize(text):
    pos, out = 0, []
    text = text.rstrip()
    while pos < len(text):
        m = _TOKEN.match(text, pos)
        if not m:
            if text[pos:].strip() == "":
                break
            raise QasmError(f"cannot tokenize at {text[pos:pos + 30]!r}")
        pos = m.end()
        if m.group(1) is not None:
            out.append(("comment", m.group(1)))
        elif m.group(2) is not None:
            out.append(("num", m.group(2)))
        elif m.group(3) is not None:
            out.append(("id", m.group(3)))
        elif m.group(4) is not None:
            out.append(("ph", m.group(4)))
        elif m.group(5) is not None:
            out.append(("str", m.group(5)[1:-1]))
        else:
            out.append(("sym", m.group(6)))
    return out


class _P:
    def __init__(self, toks):
        self.t = [x for x in toks if x[0] != "comment"]
        self.i = 0

    def peek(self, k=0):
        return self.t[self.i + k] if self.i + k < len(self.t) else ("eof", "")

    def next(self):
        x = self.peek()
        self.i += 1
        return x

    def accept(self, val):
        if self.peek()[1] == val and self.peek()[0] in ("sym", "id"):
            self.i += 1
            return True
        return False

    def expect(self, val):
        if not self.accept(val):
            raise QasmError(f"expected {val!r}, found {self.peek()[1]!r}")

    def ident(self):
        k, v = self.next()
        if k != "id":
            raise QasmError(f"expected identifier, found {v!r}")
        return v

    def integer(self):
        k, v = self.next()
        if k != "num" or not v.isdigit():
            raise QasmError(f"expected integer, found {v!r}")
        return int(v)

    # expressions: + - * / ^ unary-, numbers, pi, identifiers (gate parameters), placeholders, parentheses
    def expr(self):
        e = self.term()
        while self.peek()[1] in ("+", "-") and self.peek()[0] == "sym":
            op = self.next()[1]
            e = (op, e, self.term())
        return e

    def term(self):
        e = self.factor()
        while self.peek()[1] in ("*", "/") and self.peek()[0] == "sym":
            op = self.next()[1]
            e = (op, e, self.factor())
        return e

    def factor(self):
        if self.peek() == ("sym", "-"):
            self.next()
            return ("neg", self.factor())
        if self.peek() == ("sym", "+"):
            self.next()
            return self.factor()
        k, v = self.next()
        if k == "num":
            return ("num", v)
        if k == "ph":
            return ("ph", v)
        if k == "id":
            return ("pi",) if v in ("pi", "π") else ("var", v)
        if (k, v) == ("sym", "("):
            e = self.expr()
            self.expect(")")
            return e
        raise QasmError(f"unexpected {v!r} in expression")

    def arg(self):
        name = self.ident()
        if self.accept("["):
            i = self.integer()
            self.expect("]")
            return (name, i)
        return (name, None)

    def arglist(self):
        out = [self.arg()]
        while self.accept(","):
            out.append(self.arg())
        return out


class Numeric:
    """float arithmetic"""
    exact = False
    pi = math.pi

    def num(self, s):
        return float(s)

    def placeholder(self, name):
        raise QasmError(f"placeholder {name} in a numeric program")

    def U(self, th, ph, lm):
        c, s = math.cos(th / 2), math.sin(th / 2)
        return np.array([[c, -np.exp(1j * lm) * s], [np.exp(1j * ph) * s, np.exp(1j * (ph + lm)) * c]], dtype=complex)

    def eye(self, n):
        return np.eye(n, dtype=complex)


def ev(e, env, alg):
    k = e[0]
    if k == "num":
        return alg.num(e[1])
    if k == "pi":
        return alg.pi
    if k == "ph":
        return alg.placeholder(e[1])
    if k == "var":
        if e[1] not in env:
            raise QasmError(f"unknown parameter {e[1]!r}")
        return env[e[1]]
    if k == "neg":
        return -ev(e[1], env, alg)
    a, b = ev(e[1], env, alg), ev(e[2], env, alg)
    return a + b if k == "+" else a - b if k == "-" else a * b if k == "*" else a / b


def _parse_gate_defs(text):
    p = _P(tokenize(text))
    defs = {}
    while p.peek()[0] != "eof":
        p.expect("gate")
        name = p.ident()
        params = []
        if p.accept("("):
            if not p.accept(")"):
                params.append(p.ident())
                while p.accept(","):
                    params.append(p.ident())
                p.expect(")")
        qargs = [p.ident()]
        while p.accept(","):
            qargs.append(p.ident())
        p.expect("{")
        body = []
        while not p.accept("}"):
            g = p.ident()
            exprs = []
            if p.accept("("):
                if not p.accept(")"):
                    exprs.append(p.expr())
                    while p.accept(","):
                        exprs.append(p.expr())
                    p.expect(")")
            qs = [p.ident()]
            while p.accept(","):
                qs.append(p.ident())
            p.expect(";")
            body.append((g, exprs, qs))
        defs[name] = (params, qargs, body)
    return defs


_LIB2 = _parse_gate_defs(QELIB1)
_LIB3 = {k: v for k, v in {**_LIB2, **_parse_gate_defs(STDGATES_EXTRA)}.items() if k in STDGATES_NAMES}
for _k in ("u3", "u2", "u1", "id", "x", "rx", "ry", "h", "s", "sdg", "t", "tdg", "z", "y", "p", "cx", "rz"):
    assert _k in _LIB3


class Program:
    def __init__(self):
        self.version = None
        self.includes = []
        self.qregs = []  # (name, size) in declaration order
        self.cregs = []  # (name, size)
        self.ops = []  # dict(kind=gate|measure|reset, ...; cond=[(creg, op, int)] or None)
        self.comments = []
        self.lib = {}

    def qindex(self, arg):
        name, i = arg
        off = 0
        for n, size in self.qregs:
            if n == name:
                if i is None:
                    if size != 1:
                        raise QasmError(f"whole-register argument {name} (size {size}) not supported here")
                    i = 0
                if not 0 <= i < size:
                    raise QasmError(f"qubit index {name}[{i}] out of range")
                return off + i
            off += size
        raise QasmError(f"undeclared quantum register {name!r}")

    @property
    def num_qubits(self):
        return sum(s for _, s in self.qregs)

    def cbit(self, arg):
        name, i = arg
        for n, size in self.cregs:
            if n == name:
                if i is None:
                    if size != 1:
                        raise QasmError(f"whole-register classical argument {name}")
                    i = 0
                if not 0 <= i < size:
                    raise QasmError(f"classical bit {name}[{i}] out of range (creg {name}[{size}])")
                return (name, i)
        raise QasmError(f"undeclared classical register {name!r}")


def parse(text) -> Program:
    toks = tokenize(text)
    prog = Program()
    prog.comments = [v for k, v in toks if k == "comment"]
    p = _P(toks)
    p.expect("OPENQASM")
    k, v = p.next()
    prog.version = v
    p.expect(";")
    if prog.version not in ("2.0", "3.0", "3"):
        raise QasmError(f"unsupported version {prog.version}")
    v3 = prog.version != "2.0"

    def cond_atom():
        name = p.ident()
        if p.accept("["):
            raise QasmError("conditions on single bits are not emitted by Cirq")
        k, op = p.next()
        if op not in ("==", "!="):
            raise QasmError(f"unsupported comparison {op!r}")
        if op == "!=" and not v3:
            raise QasmError("OpenQASM 2.0 has no != comparison")
        val = p.integer()
        if not any(n == name for n, _ in prog.cregs):
            raise QasmError(f"condition on undeclared classical register {name!r}")
        return (name, op, val)

    def statement(cond=None):
        k, v = p.peek()
        if v == "if" and k == "id":
            p.next()
            p.expect("(")
            conds = [cond_atom()]
            while p.accept("&&"):
                if not v3:
                    raise QasmError("OpenQASM 2.0 allows a single creg==int condition")
                conds.append(cond_atom())
            p.expect(")")
            if cond is not None:
                raise QasmError("nested if")
            return statement(conds)
        if v == "measure" and k == "id":
            p.next()
            q = p.arg()
            p.expect("->")
            c = p.arg()
            p.expect(";")
            if v3:
                raise QasmError("OpenQASM 3 measurement is written `c = measure q;`")
            prog.ops.append(dict(kind="measure", q=prog.qindex(q), c=prog.cbit(c), cond=cond))
            return
        if v == "reset" and k == "id":
            p.next()
            q = p.arg()
            p.expect(";")
            prog.ops.append(dict(kind="reset", q=prog.qindex(q), cond=cond))
            return
        if v == "barrier" and k == "id":
            p.next()
            p.arglist()
            p.expect(";")
            return
        if k == "id" and v3 and (p.peek(1)[1] in ("[", "=")) and any(n == v for n, _ in prog.cregs):
            c = p.arg()
            p.expect("=")
            p.expect("measure")
            q = p.arg()
            p.expect(";")
            prog.ops.append(dict(kind="measure", q=prog.qindex(q), c=prog.cbit(c), cond=cond))
            return
        name = p.ident()
        exprs = []
        if p.accept("("):
            if not p.accept(")"):
                exprs.append(p.expr())
                while p.accept(","):
                    exprs.append(p.expr())
                p.expect(")")
        qs = p.arglist()
        p.expect(";")
        if name not in prog.lib and name not in ("U", "CX"):
            raise QasmError(f"gate {name!r} is not defined by the included library {prog.includes}")
        idx = [prog.qindex(a) for a in qs]
        if len(set(idx)) != len(idx):
            raise QasmError(f"gate {name} applied to repeated qubits {qs}")
        prog.ops.append(dict(kind="gate", name=name, params=exprs, qubits=idx, cond=cond))

    while p.peek()[0] != "eof":
        k, v = p.peek()
        if v == "include" and k == "id":
            p.next()
            kk, f = p.next()
            p.expect(";")
            prog.includes.append(f)
            if f == "qelib1.inc" and not v3:
                prog.lib.update(_LIB2)
            elif f == "stdgates.inc" and v3:
                prog.lib.update(_LIB3)
            else:
                raise QasmError(f"include {f!r} is not the standard library of OpenQASM {prog.version}")
        elif v == "qreg" and k == "id" and not v3:
            p.next()
            n, i = p.arg()
            p.expect(";")
            prog.qregs.append((n, i))
        elif v == "creg" and k == "id" and not v3:
            p.next()
            n, i = p.arg()
            p.expect(";")
            prog.cregs.append((n, i))
        elif v in ("qubit", "bit") and k == "id" and v3:
            p.next()
            size = 1
            if p.accept("["):
                size = p.integer()
                p.expect("]")
            n = p.ident()
            p.expect(";")
            (prog.qregs if v == "qubit" else prog.cregs).append((n, size))
        else:
            statement()
    names = [n for n, _ in prog.qregs + prog.cregs]
    if len(set(names)) != len(names):
        raise QasmError(f"register declared twice: {names}")
    return prog


# ---- semantics ----------------------------------------------------------------------------------------------------------
def expand(prog, name, params, qubits, alg, depth=0):
    """-> list of (matrix, qubits) over the primitives U and CX"""
    if name == "U":
        if len(params) != 3 or len(qubits) != 1:
            raise QasmError("U takes 3 parameters and one qubit")
        return [(alg.U(*params), list(qubits))]
    if name == "CX":
        if params or len(qubits) != 2:
            raise QasmError("CX takes two qubits")
        return [("CX", list(qubits))]
    if name not in prog.lib:
        raise QasmError(f"gate {name!r} is not defined")
    pnames, qnames, body = prog.lib[name]
    if len(pnames) != len(params) or len(qnames) != len(qubits):
        raise QasmError(f"gate {name} expects {len(pnames)} parameters and {len(qnames)} qubits, got {len(params)} and {len(qubits)}")
    env = dict(zip(pnames, params))
    qenv = dict(zip(qnames, qubits))
    out = []
    for g, exprs, qs in body:
        out.extend(expand(prog, g, [ev(e, env, alg) for e in exprs], [qenv[q] for q in qs], alg, depth + 1))
    return out


def _apply_prim(M, n, mat, qs):
    """left-multiply the (2^n x 2^n) matrix M by the primitive acting on qubits qs (big-endian)"""
    T = M.reshape([2] * n + [M.shape[1]])
    if isinstance(mat, str):  # CX
        c, t = qs
        T = T.copy()
        sl1 = [slice(None)] * (n + 1)
        sl1[c] = 1
        sub = T[tuple(sl1)]
        ax = t if t < c else t - 1
        T[tuple(sl1)] = np.flip(sub, axis=ax)
        return T.reshape(M.shape)
    q = qs[0]
    T = np.moveaxis(np.tensordot(mat, T, axes=([1], [q])), 0, q)
    return T.reshape(M.shape)


def gate_ops(prog, alg=None):
    return [o for o in prog.ops if o["kind"] == "gate"]


def unitary(prog, alg=None, ops=None):
    """matrix of the gate statements (no measurement/reset/if allowed), big-endian in declaration order"""
    alg = alg or Numeric()
    n = prog.num_qubits
    M = alg.eye(2 ** n)
    for o in (prog.ops if ops is None else ops):
        if o["kind"] != "gate" or o["cond"] is not None:
            raise QasmError(f"not a unitary program: {o['kind']}")
        params = [ev(e, {}, alg) for e in o["params"]]
        for mat, qs in expand(prog, o["name"], params, o["qubits"], alg):
            M = _apply_prim(M, n, mat, qs)
    return M


def creg_int(bits):
    return sum(b << i for i, b in enumerate(bits))


def branches(prog, initial=None):
    """exact enumeration: list of (prob, {creg: tuple(bits)}, state vector) at the end of the program"""
    alg = Numeric()
    n = prog.num_qubits
    psi0 = np.zeros(2 ** n, dtype=complex)
    psi0[0] = 1
    if initial is not None:
        psi0 = np.asarray(initial, dtype=complex)
    cur = [(1.0, {name: (0,) * size for name, size in prog.cregs}, psi0)]
    for o in prog.ops:
        new = []
        for p, cr, psi in cur:
            if o["cond"] is not None:
                ok = True
                for name, op, val in o["cond"]:
                    v = creg_int(cr[name])
                    ok = ok and ((v == val) if op == "==" else (v != val))
                if not ok:
                    new.append((p, cr, psi))
                    continue
            if o["kind"] == "gate":
                M = psi.reshape(-1, 1)
                params = [ev(e, {}, alg) for e in o["params"]]
                for mat, qs in expand(prog, o["name"], params, o["qubits"], alg):
                    M = _apply_prim(M, n, mat, qs)
                new.append((p, cr, M.reshape(-1)))
            elif o["kind"] in ("measure", "reset"):
                t = psi.reshape([2] * n)
                for v in (0, 1):
                    sl = [slice(None)] * n
                    sl[o["q"]] = v
                    part = t[tuple(sl)]
                    pr = float(np.vdot(part, part).real)
                    if pr < 1e-14:
                        continue
                    post = np.zeros_like(t)
                    if o["kind"] == "measure":
                        post[tuple(sl)] = part / math.sqrt(pr)
                        name, i = o["c"]
                        bits = list(cr[name])
                        bits[i] = v
                        cr2 = dict(cr)
                        cr2[name] = tuple(bits)
                    else:
                        sl0 = list(sl)
                        sl0[o["q"]] = 0
                        post[tuple(sl0)] = part / math.sqrt(pr)
                        cr2 = cr
                    new.append((p * pr, cr2, post.reshape(-1)))
        cur = new
        if len(cur) > 8192:
            raise QasmError("too many branches")
    return cur


def conditional_densities(brs):
    """{classical outcome: sum p |psi><psi|}"""
    out = {}
    for p, cr, psi in brs:
        key = tuple(sorted(cr.items())) if isinstance(cr, dict) else cr
        rho = p * np.outer(psi, psi.conj())
        out[key] = out.get(key, 0) + rho
    return out


def proportional(A, B, atol=1e-7):
    """A == phase * B for some unit phase"""
    A, B = np.asarray(A, dtype=complex), np.asarray(B, dtype=complex)
    if A.shape != B.shape:
        return False
    k = np.unravel_index(np.argmax(np.abs(B)), B.shape)
    if abs(B[k]) < atol or abs(A[k]) < atol:
        return np.allclose(A, B, atol=atol)
    ph = A[k] / B[k]
    return abs(abs(ph) - 1) < max(1e-6, 10 * atol) and np.allclose(A, ph * B, atol=atol)


def self_test():
    """the library text gives the textbook matrices (up to global phase) — guards the reader itself"""
    s2 = 1 / math.sqrt(2)
    X = np.array([[0, 1], [1, 0]], dtype=complex)
    Y = np.array([[0, -1j], [1j, 0]])
    Z = np.diag([1, -1]).astype(complex)
    H = np.array([[s2, s2], [s2, -s2]], dtype=complex)

    def ctl(U, nc=1):
        d = len(U)
        out = np.eye(d * 2 ** nc, dtype=complex)
        out[-d:, -d:] = U
        return out

    import scipy.linalg as sl
    SWAP = np.eye(4)[[0, 2, 1, 3]].astype(complex)
    want = {"x": X, "y": Y, "z": Z, "h": H, "s": np.diag([1, 1j]), "sdg": np.diag([1, -1j]), "t": np.diag([1, np.exp(0.25j * np.pi)]),
            "tdg": np.diag([1, np.exp(-0.25j * np.pi)]), "sx": sl.sqrtm(X), "sxdg": np.linalg.inv(sl.sqrtm(X)), "id": np.eye(2),
            "cx": ctl(X), "cy": ctl(Y), "cz": ctl(Z), "ch": ctl(H), "swap": SWAP, "ccx": ctl(X, 2), "cswap": ctl(SWAP)}
    bad = []
    for name, W in want.items():
        n = int(math.log2(len(W)))
        for ver, inc in (("2.0", "qelib1.inc"), ("3.0", "stdgates.inc")):
            if ver == "3.0" and name not in STDGATES_NAMES:
                continue
            decl = f"qreg q[{n}];" if ver == "2.0" else f"qubit[{n}] q;"
            txt = f'OPENQASM {ver};\ninclude "{inc}";\n{decl}\n{name} {",".join(f"q[{i}]" for i in range(n))};\n'
            if not proportional(unitary(parse(txt)), W):
                bad.append((name, ver))
    for th in (0.3, -1.1, 2.5):
        for name, G in (("rx", X), ("ry", Y), ("rz", Z)):
            txt = f'OPENQASM 2.0;\ninclude "qelib1.inc";\nqreg q[1];\n{name}({th}) q[0];\n'
            if not proportional(unitary(parse(txt)), sl.expm(-0.5j * th * G)):
                bad.append((name, th))
    return bad
