"""C17 — vendor payloads and results (IonQ / AQT).

Deductive: QPUResult.ordered_results — for any register width, any stored big-endian value and any target positions (1..3
targets, symbolic), bit (len(targets)-1-j) of each emitted integer equals bit (num_qubits-1-t_j) of the stored value, i.e. qubit
t_j's outcome, big-endian over the key's targets; each value is repeated `count` times.  Payload semantics are bounded
(independent interpreter of the IonQ JSON / AQT operation list)."""
import z3

from pyvc import sym
from pyvc.api import Contract, Case
from pyvc.interp import SRec
from pyvc.sym import fresh_int

F = "cirq-ionq/cirq_ionq/results.py"


def _mk(k):
    def setup(interp):
        import cirq_ionq
        from pyvc import paths

        p = paths.current()
        n = fresh_int("num_qubits")
        v = fresh_int("value")
        ts = [fresh_int(f"t{j}") for j in range(k)]
        p.assume(n.e >= 1)
        p.assume(v.e >= 0)
        for t in ts:
            p.assume(z3.And(t.e >= 0, t.e < n.e))
        self_ = SRec(cirq_ionq.QPUResult, {"_counts": {v: 2}, "_num_qubits": n, "_measurement_dict": {"k": ts}})
        return {"self": self_, "key": "k", "V": v, "N": n, "T": ts}
    return setup


def _ens(k):
    out = ["len(result) == 2", "result[0] == result[1]", f"0 <= result[0] < {2 ** k}"]
    for j in range(k):
        out.append(f"(result[0] // {2 ** (k - 1 - j)}) % 2 == (V // 2 ** (N - 1 - T[{j}])) % 2")
    return out


Contract(
    F + ":QPUResult.ordered_results", "C17",
    cases=[Case(f"{k} targets", {}, setup=_mk(k), ensures=_ens(k)) for k in (1, 2, 3)],
    inline=[F + ":QPUResult.num_qubits"],
    notes="one stored value with count 2; 1..3 symbolic target positions; register width and value unbounded",
)

CANARIES = [
    dict(name="targets read little-endian", file=F, function=F + ":QPUResult.ordered_results",
         find="            bits = [(value >> (self.num_qubits() - target - 1)) & 1 for target in targets]\n            bit_value = sum(bit * (1 << i) for i, bit in enumerate(bits[::-1]))\n            result.extend([bit_value] * count)",
         replace="            bits = [(value >> target) & 1 for target in targets]\n            bit_value = sum(bit * (1 << i) for i, bit in enumerate(bits[::-1]))\n            result.extend([bit_value] * count)"),
    dict(name="key bits assembled in reverse", file=F, function=F + ":QPUResult.ordered_results",
         find="            bit_value = sum(bit * (1 << i) for i, bit in enumerate(bits[::-1]))\n            result.extend([bit_value] * count)",
         replace="            bit_value = sum(bit * (1 << i) for i, bit in enumerate(bits))\n            result.extend([bit_value] * count)"),
]
