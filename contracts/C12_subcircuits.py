"""C12 — bounded stand-in (NOT counted as proved): a CircuitOperation behaves like the flat circuit it stands for."""
import itertools
import random

import numpy as np

from contracts import refsim

F = "cirq-core/cirq/circuits/circuit_operation.py"


def _inner(rng, qs, allow_control=True):
    import cirq

    ops = []
    measured = []
    for _ in range(rng.randrange(1, 5)):
        r = rng.random()
        q = rng.sample(qs, 2)
        if r < 0.3:
            key = rng.choice(["a", "b"])
            m_ = cirq.measure(q[0], key=key)
            ops.append(m_.with_tags("t") if rng.random() < 0.3 else m_)   # a tag must not hide the key from scoping
            measured.append(key)
        elif r < 0.5 and measured and allow_control:
            c_ = cirq.X(q[0]).with_classical_controls(rng.choice(measured))
            ops.append(c_.with_tags("t") if rng.random() < 0.3 else c_)
        elif r < 0.7:
            ops.append(cirq.CNOT(*q))
        else:
            ops.append(rng.choice([cirq.H, cirq.X ** 0.5, cirq.T, cirq.Y ** 0.25])(q[0]))
    return cirq.FrozenCircuit(ops)


def _wrap(rng, inner, qs, depth):
    import cirq

    op = cirq.CircuitOperation(inner)
    if rng.random() < 0.5:
        reps = rng.choice([0, 1, 2, 3])
        op = op.repeat(reps, use_repetition_ids=rng.random() < 0.7) if reps != 1 or rng.random() < 0.3 else op
    if rng.random() < 0.4:
        perm = rng.sample(qs, len(qs))
        op = op.with_qubit_mapping(dict(zip(qs, perm)))
    if rng.random() < 0.4:
        # a key map that sends 'a' onto a key the sub-circuit also measures is a user error (collision), not a case of the property
        import re as _re
        present = set(_re.findall(r"MeasurementKey\(name='(\w+)'", repr(op)))  # every key name anywhere inside, whatever the repetition count
        targets = [t for t in ["a", "c", "b"] if t == "a" or t not in present]
        op = op.with_measurement_key_mapping({"a": rng.choice(targets)}) if rng.random() < 0.5 else op.with_key_path(("p",))
    if depth > 0 and rng.random() < 0.5:
        outer_ops = [op]
        if rng.random() < 0.5:
            outer_ops.insert(0, cirq.Moment(cirq.measure(qs[0], key="a")))
        if rng.random() < 0.5:
            outer_ops.append(cirq.Moment(cirq.H(qs[1])))
        return _wrap(rng, cirq.FrozenCircuit(outer_ops), qs, depth - 1)
    return op


def _controlled_subcircuit(rng, qs):
    """a classically controlled sub-circuit that itself contains classical controls, inside a repeated / prefixed / key-mapped
    scope; returns the wrapped operation AND the flat circuit it stands for, written out by hand (independent of the code)"""
    import cirq

    k1, k2 = rng.choice([("a", "a"), ("a", "b"), ("b", "a"), ("b", "b")])
    g1, g2 = rng.choice([cirq.X, cirq.Y ** 0.5]), rng.choice([cirq.H, cirq.T])
    with_c = rng.random() < 0.5
    # the form of each condition: plain key, an explicit record index, masked comparisons (one of them the NEGATION of "bit set")
    f1, f2 = rng.choice(["plain", "plain", "first", "mask", "not-mask"]), rng.choice(["plain", "plain", "first", "mask", "not-mask"])
    twice = "first" in (f1, f2)  # key a is then measured twice, so that "the first record" differs from "the latest"
    use_if = hasattr(cirq, "If") and rng.random() < 0.4  # the same controlled body written as cirq.If(condition, op, op) (a multi-operation body with a nested control)

    def cond(form, key):
        key = key if isinstance(key, cirq.MeasurementKey) else cirq.MeasurementKey(key)
        if form == "first":
            return cirq.KeyCondition(key, index=0)
        if form == "mask":
            return cirq.BitMaskKeyCondition(key, bitmask=1, target_value=1, equal_target=True)
        if form == "not-mask":
            return cirq.BitMaskKeyCondition(key, bitmask=1, target_value=1, equal_target=False)
        return cirq.KeyCondition(key)

    # the measurement of b carries every other field a measurement can have (noisy readout, inversion): they stay with it under its new key
    mb_kw = rng.choice([{}, {}, dict(confusion_map={(0,): np.array([[0.8, 0.2], [0.3, 0.7]])}), dict(invert_mask=(True,)), dict(invert_mask=(True,), confusion_map={(0,): np.array([[0.9, 0.1], [0.0, 1.0]])})])
    again = [cirq.Moment(cirq.X(qs[0]) ** 0.5), cirq.Moment(cirq.measure(qs[0], key="a"))] if twice else []
    inner = cirq.FrozenCircuit(g1(qs[1]).with_classical_controls(cond(f1, k1)), g2(qs[2]))
    body_ops = [cirq.Moment(cirq.X(qs[0]) ** 0.5), cirq.Moment(cirq.measure(qs[0], key="a")), *again, cirq.Moment(cirq.X(qs[2]) ** 0.5), cirq.Moment(cirq.measure(qs[2], key="b", **mb_kw)),
                cirq.If(cond(f2, k2), g1(qs[1]).with_classical_controls(cond(f1, k1)), g2(qs[2])) if use_if else cirq.CircuitOperation(inner).with_classical_controls(cond(f2, k2))]
    if with_c:
        body_ops.append(cirq.Moment(cirq.measure(qs[1], key="c")))
    # an operation at the START of the body that reads key a BEFORE the body measures a itself: it sees the enclosing scope's a
    # (in every repetition), never the body's own later measurement
    early = rng.random() < 0.3
    if early:
        body_ops.insert(0, cirq.Moment(g2(qs[2]).with_classical_controls(cond("plain", "a"))))
    op = cirq.CircuitOperation(cirq.FrozenCircuit(body_ops))
    r = rng.random()
    prefixes, kmap = [None], {}
    if r < 0.35:
        op, prefixes = op.repeat(2, use_repetition_ids=True), ["0", "1"]
    elif r < 0.6:
        op, prefixes = op.with_key_path(("p",)), ["p"]
    elif r < 0.85 and not early:
        kmap = rng.choice([{"a": "z"}, {"b": "y"}, {"a": "z", "b": "y"}, {"a": "b", "b": "a"}])
        op = op.with_measurement_key_mapping(kmap)
    flat = []
    for pre in prefixes:
        K = lambda x: cirq.MeasurementKey(name=kmap.get(x, x), path=(pre,) if pre else ())
        if early:
            flat.append(g2(qs[2]).with_classical_controls(cond("plain", cirq.MeasurementKey("a"))))
        flat += [cirq.X(qs[0]) ** 0.5, cirq.measure(qs[0], key=K("a"))] + ([cirq.X(qs[0]) ** 0.5, cirq.measure(qs[0], key=K("a"))] if twice else [])
        flat += [cirq.X(qs[2]) ** 0.5, cirq.measure(qs[2], key=K("b"), **mb_kw),
                 g1(qs[1]).with_classical_controls(cond(f1, K(k1)), cond(f2, K(k2))), g2(qs[2]).with_classical_controls(cond(f2, K(k2)))]
        if with_c:
            flat.append(cirq.measure(qs[1], key=K("c")))
    if early:
        outer = [cirq.X(qs[1]) ** 0.5, cirq.measure(qs[1], key="a")]   # the enclosing scope's a
        return outer + [op], cirq.Circuit(outer + flat, strategy=cirq.InsertStrategy.NEW)
    return op, cirq.Circuit(flat, strategy=cirq.InsertStrategy.NEW)


def standin_subcircuits(tier, seed):
    import cirq

    rng = random.Random(seed)
    cases, fails, distinct = 0, [], set()
    qs = list(cirq.LineQubit.range(3))
    for it in range(300 if tier == "quick" else 2500):
        inner = _inner(rng, qs)
        try:
            expected_flat = None
            if it % 4 == 3:
                op, expected_flat = _controlled_subcircuit(rng, qs)
            else:
                op = _wrap(rng, inner, qs, depth=2)
            c = cirq.Circuit(cirq.Moment(cirq.H(qs[0])), op)
        except ValueError:
            continue  # a rejected construction (e.g. key collision) is not a wrong answer
        flat_variants = {}
        try:
            pre_ops, sub_op = (op[:-1], op[-1]) if isinstance(op, list) else ([], op)
            flat_variants["mapped_circuit(deep=True)"] = cirq.Circuit(cirq.Moment(cirq.H(qs[0])), pre_ops, sub_op.mapped_circuit(deep=True))
            flat_variants["unroll_circuit_op(deep=True)"] = cirq.unroll_circuit_op(c, deep=True, tags_to_check=None)
            flat_variants["decompose"] = cirq.Circuit(cirq.decompose(c, keep=lambda o: not isinstance(o.untagged, cirq.CircuitOperation)))
        except ValueError:
            continue
        cases += 1
        distinct.add(repr(c))
        if expected_flat is not None:
            flat_variants = {"hand-written flat circuit": cirq.Circuit(cirq.Moment(cirq.H(qs[0])), expected_flat), **flat_variants}
        want = None
        for ref_name, ref in list(flat_variants.items()):
            try:
                want = refsim.ref_distribution(ref, qs)
                break
            except RuntimeError:
                break  # more measurement branches than the reference enumerates: outside the bound
            except NotImplementedError:
                flat_variants.pop(ref_name)  # this flattening leaves a controlled sub-circuit in place: not a flat circuit
            except refsim.ControlBeforeMeasurement:
                break
        if want is None:
            continue
        # (1) all flattenings agree with each other
        for name, fc in flat_variants.items():
            try:
                d = refsim.ref_distribution(fc, qs)
            except (NotImplementedError, RuntimeError):
                continue
            except refsim.ControlBeforeMeasurement as ex:
                fails.append(dict(args=dict(circuit=repr(c), flattening=name), failed="invalid-flat-circuit", clause=f"{name}: {ex}"))
                continue
            if not refsim.dist_close(d, want):
                fails.append(dict(args=dict(circuit=repr(c), flattening=name), failed="flattenings-disagree", clause=f"{name} and {ref_name} give different record distributions"))
        # (2) declared keys / qubits of the wrapped op equal those of the flat circuit
        if cirq.measurement_key_objs(c) != cirq.measurement_key_objs(ref):
            fails.append(dict(args=dict(circuit=repr(c)), failed="measurement-keys", clause=f"wrapped keys {sorted(map(str, cirq.measurement_key_objs(c)))} != unrolled {sorted(map(str, cirq.measurement_key_objs(ref)))}"))
        if cirq.control_keys(c) != cirq.control_keys(ref):
            fails.append(dict(args=dict(circuit=repr(c)), failed="control-keys", clause=f"wrapped control keys {sorted(map(str, cirq.control_keys(c)))} != unrolled {sorted(map(str, cirq.control_keys(ref)))}"))
        # (3) simulating the wrapped circuit gives the flat circuit's exact distribution (scripted random source)
        from contracts.scripted_rng import enumerate_branches
        from contracts.C02_born import _canon_records
        try:
            got = {}
            for p_, rec in enumerate_branches(lambda r: _canon_records(cirq.Simulator(seed=r).run(c, repetitions=1))):
                got[rec] = got.get(rec, 0.0) + p_
            if not refsim.dist_close(got, want, atol=1e-5):
                bad = [k for k in set(got) | set(want) if abs(got.get(k, 0) - want.get(k, 0)) > 1e-5][:2]
                fails.append(dict(args=dict(circuit=repr(c)), failed="simulate-wrapped-vs-unrolled",
                                  clause=f"Simulator on the wrapped circuit differs from the unrolled circuit's distribution, e.g. {[(k, round(got.get(k,0),4), round(want.get(k,0),4)) for k in bad]}"))
        except (RuntimeError, NotImplementedError):
            pass
        except ValueError as ex:
            if 'no measurements' not in str(ex):
                fails.append(dict(args=dict(circuit=repr(c)), failed='simulate-raised', clause=f'Simulator raised {ex!r} on a circuit whose unrolled form is valid'))
        # keep one witness per failure kind and go on exploring (a known finding must not hide other kinds)
        seen_kinds, uniq = set(), []
        for f_ in fails:
            if f_["failed"] not in seen_kinds:
                seen_kinds.add(f_["failed"])
                uniq.append(f_)
        fails = uniq
    return dict(function=F + "[wrapped vs unrolled]", case="subcircuits",
                bound="seeded nestings of depth <= 3 over 3 qubits: repetitions {0,1,2,3} with/without repetition ids, qubit permutations, key maps, "
                      "parent paths, shadowed keys a/b, classical controls inside and across scopes",
                cases=cases, distinct=len(distinct), failures=len(fails), exhaustive=False, _fails=fails[:4])
standin_subcircuits.prop = "C12"


def standin_key_algebra(tier, seed):
    """composition laws of key-path / key-map / qubit-map operations (exhaustive over a small alphabet)"""
    import cirq

    cases, fails = 0, []
    names, comps = ["a", "b"], ["p", "q"]
    keys = [cirq.MeasurementKey(n, path=p) for n in names for p in [(), ("p",), ("p", "q")]]
    for k in keys:
        for p1, p2 in itertools.product([(), ("x",), ("x", "y")], repeat=2):
            cases += 1
            if cirq.with_key_path_prefix(cirq.with_key_path_prefix(k, p1), p2) != cirq.with_key_path_prefix(k, p2 + p1):
                fails.append(dict(args=dict(key=repr(k), p1=p1, p2=p2), failed="prefix-composition", clause="prefixing by p1 then p2 != prefixing by p2+p1"))
            if k.with_key_path_prefix(*p1).path != p1 + k.path or k.with_key_path_prefix(*p1).name != k.name:
                fails.append(dict(args=dict(key=repr(k), p1=p1), failed="prefix", clause="with_key_path_prefix is not path' = prefix + path"))
        for m in ({"a": "c"}, {"b": "a"}, {"a": "b", "b": "a"}):
            cases += 1
            r = cirq.with_measurement_key_mapping(k, m)
            if r.name != m.get(k.name, k.name) or r.path != k.path:
                fails.append(dict(args=dict(key=repr(k), key_map=m), failed="key-mapping", clause="mapping must rename the name only, keeping the path"))
        if cirq.MeasurementKey.parse_serialized(str(k)) != k:
            fails.append(dict(args=dict(key=repr(k)), failed="parse", clause="parse_serialized(str(k)) != k"))
    # every kind of operation that WRITES a key follows the key's own laws (the key it declares is the mapped / prefixed key)
    q = cirq.LineQubit.range(3)
    writers = {
        "measure": lambda k: cirq.measure(q[0], key=k),
        "measure-tagged": lambda k: cirq.measure(q[0], key=k).with_tags("t"),
        "pauli-measure": lambda k: cirq.measure_single_paulistring(cirq.X(q[0]) * cirq.Z(q[1]), key=k),
        "kraus-channel": lambda k: cirq.KrausChannel.from_channel(cirq.bit_flip(0.5), key=k).on(q[0]),
        "mixed-unitary-channel": lambda k: cirq.MixedUnitaryChannel.from_mixture(cirq.bit_flip(0.5), key=k).on(q[0]),
        "sub-circuit": lambda k: cirq.CircuitOperation(cirq.FrozenCircuit(cirq.measure(q[0], key=k))),
    }
    for (kind, mk), k in itertools.product(writers.items(), keys):
        try:
            op = mk(k)
        except (ValueError, TypeError):
            continue
        declared = lambda o: {str(x) for x in cirq.measurement_key_objs(o)}
        if declared(op) != {str(k)}:
            continue  # this writer does not accept keys with a path at construction
        # variants of the measurement (bits flipped, another observable) keep the key, path included
        g_ = op.untagged.gate
        for vname, mkv in (("with_bits_flipped", lambda: g_.with_bits_flipped(0)), ("with_observable", lambda: g_.with_observable([cirq.Z, cirq.X]))):
            if hasattr(g_, vname):
                cases += 1
                try:
                    if mkv().mkey != k:
                        fails.append(dict(args=dict(writer=kind, key=repr(k), variant=vname), failed="writer-variant-key", clause=f"{vname} changed the key to {mkv().mkey!r}"))
                except Exception as ex:
                    fails.append(dict(args=dict(writer=kind, key=repr(k), variant=vname), failed="writer-variant-key", clause=f"{vname} raised {type(ex).__name__}: {ex} for a key that carries a path"))
        for m in ({"a": "c"}, {"b": "a"}, {"a": "b", "b": "a"}, {"zz": "a"}):
            cases += 1
            want = {str(cirq.with_measurement_key_mapping(k, m))}
            got = declared(cirq.with_measurement_key_mapping(op, m))
            if got != want:
                fails.append(dict(args=dict(writer=kind, key=repr(k), key_map=m, got=sorted(got)), failed="writer-key-mapping", clause=f"the mapped operation declares {sorted(got)}, the mapped key is {sorted(want)}"))
        for p1 in [("x",), ("x", "y")]:
            cases += 1
            want = {str(cirq.with_key_path_prefix(k, p1))}
            got = declared(cirq.with_key_path_prefix(op, p1))
            if got != want:
                fails.append(dict(args=dict(writer=kind, key=repr(k), prefix=p1, got=sorted(got)), failed="writer-key-prefix", clause=f"the prefixed operation declares {sorted(got)}, the prefixed key is {sorted(want)}"))
    # ... and every kind of operation that READS a key (all its control keys are mapped / prefixed, nested ones included)
    import sympy
    readers = {
        "control": lambda k: cirq.X(q[0]).with_classical_controls(k),
        "control-tagged": lambda k: cirq.X(q[0]).with_classical_controls(k).with_tags("t"),
        "mask-control": lambda k: cirq.X(q[0]).with_classical_controls(cirq.BitMaskKeyCondition(k, bitmask=1, target_value=1)),
        "controlled-sub-circuit": lambda k: cirq.CircuitOperation(cirq.FrozenCircuit(cirq.X(q[0]), cirq.H(q[1]))).with_classical_controls(k),
        "sub-circuit-with-control": lambda k: cirq.CircuitOperation(cirq.FrozenCircuit(cirq.X(q[0]).with_classical_controls(k), cirq.H(q[1]))),
    }
    if hasattr(cirq, "If"):
        readers["if"] = lambda k: cirq.If(k, cirq.X(q[0]))
        readers["if-nested-control"] = lambda k: cirq.If(cirq.MeasurementKey("other"), cirq.X(q[0]).with_classical_controls(k), cirq.H(q[1]))
        readers["if-body"] = lambda k: cirq.If(k, cirq.X(q[0]), cirq.H(q[1]))
    for (kind, mk), k in itertools.product(readers.items(), keys):
        try:
            op = mk(k)
        except (ValueError, TypeError):
            continue
        reads = lambda o: {str(x) for x in cirq.control_keys(o)}
        extra = {"other"} if kind == "if-nested-control" else set()
        if reads(op) != {str(k)} | extra:
            continue
        for m in ({"a": "c"}, {"b": "a"}, {"a": "b", "b": "a"}):
            cases += 1
            want = {str(cirq.with_measurement_key_mapping(k, m))} | extra
            got = reads(cirq.with_measurement_key_mapping(op, m))
            if got != want:
                fails.append(dict(args=dict(reader=kind, key=repr(k), key_map=m, got=sorted(got)), failed="reader-key-mapping", clause=f"the mapped operation reads {sorted(got)}, the mapped keys are {sorted(want)}"))
        # (a sub-circuit only records the prefix as its own location; keys it reads from outside are resolved against the enclosing
        #  scopes when it is unrolled — compared by distributions in standin_subcircuits — so the prefix law is not stated for it)
        for p1 in [("x",), ("x", "y")] if kind not in ("sub-circuit-with-control", "if-nested-control") else []:
            cases += 1
            want = {str(cirq.with_key_path_prefix(k, p1))} | {str(cirq.with_key_path_prefix(cirq.MeasurementKey(e), p1)) for e in extra}
            got = reads(cirq.with_key_path_prefix(op, p1))
            if got != want:
                fails.append(dict(args=dict(reader=kind, key=repr(k), prefix=p1, got=sorted(got)), failed="reader-key-prefix", clause=f"the prefixed operation reads {sorted(got)}, the prefixed keys are {sorted(want)}"))
    # repeating a repeated operation: the ids are the documented product (new ids x existing ids, the new ones outermost), the
    # repetitions multiply, and the unrolled circuit measures under those ids in that order
    rep_base = cirq.CircuitOperation(cirq.FrozenCircuit(cirq.X(q[0]) ** 0.5, cirq.measure(q[0], key="a")))
    for ids1, ids2 in ((["i", "j"], ["x", "y"]), (["i"], ["x", "y", "z"]), (["i", "j", "k"], ["x"])):
        cases += 1
        twice = rep_base.repeat(len(ids1), ids1).repeat(len(ids2), ids2)
        want_ids = [f"{o}-{i}" for o in ids2 for i in ids1]
        got_keys = [str(cirq.measurement_key_name(o)) for o in twice.mapped_circuit().all_operations() if cirq.is_measurement(o)]
        if list(twice.repetition_ids or []) != want_ids or twice.repetitions != len(want_ids) or got_keys != [f"{r}:a" for r in want_ids]:
            fails.append(dict(args=dict(first_ids=ids1, second_ids=ids2, repetition_ids=list(twice.repetition_ids or []), unrolled_keys=got_keys), failed="repeat-of-repeat",
                              clause=f"repeat(ids1).repeat(ids2): ids {list(twice.repetition_ids or [])}, unrolled keys {got_keys}; documented product (new ids outermost): {want_ids}"))
        nested = cirq.CircuitOperation(cirq.FrozenCircuit(rep_base.repeat(len(ids1), ids1))).repeat(len(ids2), ids2)
        nested_keys = [str(cirq.measurement_key_name(o)) for o in nested.mapped_circuit(deep=True).all_operations() if cirq.is_measurement(o)]
        if nested_keys != [f"{o}:{i}:a" for o in ids2 for i in ids1]:
            fails.append(dict(args=dict(first_ids=ids1, second_ids=ids2, unrolled_keys=nested_keys), failed="repeat-of-repeat", clause="a repeated sub-circuit inside a repeated sub-circuit: keys are not outer:inner:key in execution order"))
    base = cirq.CircuitOperation(cirq.FrozenCircuit(cirq.CNOT(q[0], q[1]), cirq.measure(q[2], key="a")))
    perms = [dict(zip(q, p)) for p in itertools.permutations(q)]
    for f, g in itertools.product(perms, repeat=2):
        cases += 1
        lhs = base.with_qubit_mapping(f).with_qubit_mapping(g)
        rhs = base.with_qubit_mapping({x: g[f[x]] for x in q})
        if lhs.mapped_circuit() != rhs.mapped_circuit():
            fails.append(dict(args=dict(f=repr(f), g=repr(g)), failed="qubit-map-composition", clause="mapping twice != mapping once with the composition"))
    return dict(function="cirq-core/cirq/value/measurement_key.py + circuit_operation.py[composition laws]", case="key-algebra",
                bound="6 keys x 9 prefix pairs x 3 key maps; 6 kinds of key-writing and 8 kinds of key-reading operations x 6 keys x (key maps + prefixes); all 36 pairs of qubit permutations on 3 qubits (exhaustive)", cases=cases, distinct=cases,
                failures=len(fails), exhaustive=True, _fails=fails[:4])
standin_key_algebra.prop = "C12"


def standin_params_and_loops(tier, seed):
    """bound parameters (with_params compositions, nesting, outer resolution) and repeat-until loops (deterministic iteration counts,
    key maps / paths / nesting) against flat circuits written out by hand"""
    import cirq
    import sympy
    from contracts.scripted_rng import enumerate_branches
    from contracts.C02_born import _canon_records

    rng = random.Random(seed + 17)
    cases, fails = 0, []
    a, b, c = sympy.symbols("a b c")
    q = cirq.LineQubit.range(3)

    def bad(kind, clause, **kw):
        if sum(1 for f in fails if f["failed"] == kind) < 2:
            fails.append(dict(args={k: repr(v) for k, v in kw.items()}, failed=kind, clause=clause))

    # ---- bound parameters ----------------------------------------------------------------------------------------------------
    exprs = [a, b, a + b, 2 * a, a * b, a - c / 2, 0.25, c]
    for it in range(40 if tier == "quick" else 400):
        e1, e2, e3 = (rng.choice(exprs) for _ in range(3))
        body = lambda x1, x2, x3: [cirq.X(q[0]) ** x1, cirq.CZ(q[0], q[1]) ** x2, cirq.rz(x3 if not isinstance(x3, float) else x3).on(q[1]), cirq.H(q[2])]
        op = cirq.CircuitOperation(cirq.FrozenCircuit(body(e1, e2, e3)))
        maps = [{rng.choice([a, b, c]): rng.choice([0.5, -0.25, b, c + 1, 2 * a, a]) for _ in range(rng.randrange(1, 3))} for _ in range(rng.randrange(1, 4))]
        sub = lambda e, m: (e.subs(m, simultaneous=True) if isinstance(e, sympy.Basic) else e)
        f1, f2, f3 = e1, e2, e3
        wrapped = op
        for m in maps:
            wrapped = wrapped.with_params(m)
            f1, f2, f3 = sub(f1, m), sub(f2, m), sub(f3, m)
        if rng.random() < 0.4:
            wrapped = cirq.CircuitOperation(cirq.FrozenCircuit(wrapped, cirq.Y(q[2]) ** a)).repeat(2)
            flat_ops = lambda v: (body(*v) + [cirq.Y(q[2]) ** float(sub(a, final))]) * 2
        else:
            flat_ops = lambda v: body(*v)
        final = {s_: rng.choice([0.3, -0.7, 1.25, 0.5]) for s_ in (a, b, c)}
        vals = []
        for f in (f1, f2, f3):
            v = sub(f, final)
            vals.append(float(v) if isinstance(v, sympy.Basic) else v)
        cases += 1
        try:
            got = cirq.unitary(cirq.resolve_parameters(cirq.Circuit(wrapped), final))
            got2 = cirq.unitary(cirq.resolve_parameters(cirq.Circuit(wrapped.mapped_circuit(deep=True) if hasattr(wrapped, "mapped_circuit") else wrapped), final))
        except Exception as ex:
            bad("bound-parameters-raised", f"{type(ex).__name__}: {str(ex)[:160]}", body=(e1, e2, e3), with_params=maps, final=final)
            continue
        want = cirq.unitary(cirq.Circuit(flat_ops(vals)))
        want = refsim.embed(want, sorted(cirq.Circuit(flat_ops(vals)).all_qubits()), list(q)) if want.shape[0] != 8 else want
        if got.shape == want.shape and not np.allclose(got, want, atol=1e-7):
            bad("bound-parameters", "resolving the wrapped operation differs from substituting the maps, in order, into the body by hand", body=(e1, e2, e3), with_params=maps, final=final)
        if got2.shape == want.shape and not np.allclose(got2, want, atol=1e-7):
            bad("bound-parameters-mapped-circuit", "mapped_circuit(deep=True) then resolving differs from substituting the maps by hand", body=(e1, e2, e3), with_params=maps, final=final)

    # ---- repeat-until loops with a known number of iterations -----------------------------------------------------------------
    def loop_case(n_iter_kind, wrap_kind, cond_kind):
        # body toggles: iteration 1 leaves m = 0, iteration 2 leaves m = 1 (two iterations), or m = 1 at once (one iteration)
        if n_iter_kind == 2:
            body = [cirq.CNOT(q[0], q[1]), cirq.X(q[0]), cirq.measure(q[1], key="m")]
            iters = 2
        else:
            body = [cirq.X(q[1]), cirq.measure(q[1], key="m")]
            iters = 1
        extra = [cirq.H(q[2]), cirq.measure(q[2], key="k")]  # a random bit per iteration: every iteration's record must be kept
        key = cirq.MeasurementKey("m")
        cond = {"key": cirq.KeyCondition(key), "sympy": cirq.SympyCondition(sympy.Eq(sympy.Symbol("m"), 1)),
                "mask": cirq.BitMaskKeyCondition("m", bitmask=1, target_value=1, equal_target=True)}[cond_kind]
        op = cirq.CircuitOperation(cirq.FrozenCircuit(body + extra), use_repetition_ids=False, repeat_until=cond)
        K = lambda name: cirq.MeasurementKey(name)
        if wrap_kind == "keymap":
            op = op.with_measurement_key_mapping({"m": "z"})
            K = lambda name: cirq.MeasurementKey({"m": "z"}.get(name, name))
        elif wrap_kind == "path":
            op = op.with_key_path(("p",))
            K = lambda name: cirq.MeasurementKey(name, path=("p",))
        elif wrap_kind == "nested":
            op = cirq.CircuitOperation(cirq.FrozenCircuit(op)).repeat(2, use_repetition_ids=True)
        flat = []
        outer = ["0", "1"] if wrap_kind == "nested" else [None]
        for pre in outer:
            KK = (lambda name, pre=pre: cirq.MeasurementKey(name, path=(pre,))) if pre is not None else K
            # the second outer repetition starts from the state the first one left: q0, q1 are toggled again
            for i in range(iters if pre in (None, "0") else None or iters):
                for o in body + extra:
                    flat.append(cirq.with_measurement_key_mapping(o, {}) if not cirq.is_measurement(o) else cirq.measure(*o.qubits, key=KK(cirq.measurement_key_name(o))))
        return op, flat, iters

    combos = [(n, w, cnd) for n in (1, 2) for w in ("plain", "keymap", "path", "nested") for cnd in ("key", "sympy", "mask")]
    for n, w, cnd in combos:
        if w == "nested" and n == 2:
            continue  # the second outer pass starts from a different state: its iteration count differs; keep to the cases written out by hand
        op, flat, iters = loop_case(n, w, cnd)
        circ = cirq.Circuit(op)
        cases += 1
        try:
            want = refsim.ref_distribution(cirq.Circuit(flat, strategy=cirq.InsertStrategy.NEW), list(q))
        except Exception as ex:
            continue
        for name, mk in (("Simulator", lambda s_: cirq.Simulator(seed=s_)), ("DensityMatrixSimulator", lambda s_: cirq.DensityMatrixSimulator(seed=s_))):
            try:
                got = {}
                for p_, rec in enumerate_branches(lambda r: _canon_records(mk(r).run(circ, repetitions=1))):
                    got[rec] = got.get(rec, 0.0) + p_
            except RuntimeError:
                continue
            except Exception as ex:
                bad("repeat-until-raised", f"{name}: {type(ex).__name__}: {str(ex)[:160]}", circuit=circ)
                continue
            if not refsim.dist_close(got, want, atol=1e-5):
                badk = [k_ for k_ in set(got) | set(want) if abs(got.get(k_, 0) - want.get(k_, 0)) > 1e-5][:2]
                bad("repeat-until", f"{name}: records of the loop differ from the body written out {iters} time(s): {[(k_, round(got.get(k_, 0), 4), round(want.get(k_, 0), 4)) for k_ in badk]} (got, expected)",
                    circuit=circ, iterations=iters)
    # a loop nested in a repeated (key-scoped) sub-circuit whose condition compares its own key with a key of the ENCLOSING scope, with a
    # decoy measurement of the same name at top level
    for decoy in (False, True):
        for outer_reps in (2, 3):
            loop = cirq.CircuitOperation(cirq.FrozenCircuit(cirq.X(q[1]), cirq.measure(q[1], key="b")), use_repetition_ids=False,
                                         repeat_until=cirq.SympyCondition(sympy.Eq(sympy.Symbol("a"), sympy.Symbol("b"))))
            outer = cirq.CircuitOperation(cirq.FrozenCircuit(cirq.X(q[0]), cirq.measure(q[0], key="a"), loop)).repeat(outer_reps, use_repetition_ids=True)
            top = ([cirq.measure(q[2], key="a")] if decoy else [])
            circ = cirq.Circuit(top, outer)
            flat = list(top)
            for i in range(outer_reps):
                pre = (str(i),)
                # pass i: a = 1, 0, ... and q1 toggles once per iteration: the loop stops after exactly one iteration each time
                flat += [cirq.X(q[0]), cirq.measure(q[0], key=cirq.MeasurementKey("a", path=pre)), cirq.X(q[1]), cirq.measure(q[1], key=cirq.MeasurementKey("b", path=pre))]
            cases += 1
            want = refsim.ref_distribution(cirq.Circuit(flat, strategy=cirq.InsertStrategy.NEW), list(q))
            for name, mk in (("Simulator", lambda s_: cirq.Simulator(seed=s_)), ("DensityMatrixSimulator", lambda s_: cirq.DensityMatrixSimulator(seed=s_))):
                try:
                    got = {}
                    for p_, rec in enumerate_branches(lambda r: _canon_records(mk(r).run(circ, repetitions=1))):
                        got[rec] = got.get(rec, 0.0) + p_
                except RuntimeError:
                    continue
                except Exception as ex:
                    bad("nested-repeat-until-raised", f"{name}: {type(ex).__name__}: {str(ex)[:160]}", circuit=circ)
                    continue
                if not refsim.dist_close(got, want, atol=1e-5):
                    bad("nested-repeat-until", f"{name}: a loop whose condition reads a key of the enclosing repetition does not match its unrolled form: got {sorted(got)[:2]}, expected {sorted(want)[:2]}", circuit=circ)
            want_ck = {str(cirq.MeasurementKey("a", path=(str(i),))) for i in range(outer_reps)}
            flat_keys = {str(k) for k in cirq.measurement_key_objs(cirq.Circuit(flat))}
            if {str(k) for k in cirq.measurement_key_objs(circ)} != flat_keys:
                bad("nested-repeat-until-keys", "measurement keys of the nested loop differ from the unrolled circuit's", circuit=circ)
    return dict(function=F + "[bound parameters, repeat-until]", case="params-and-loops",
                bound="seeded bodies with 3 parameterized gates x 1-3 composed with_params maps (symbols onto symbols / expressions / numbers) x optional nesting, resolved at random values; "
                      "repeat-until loops with 1 or 2 deterministic iterations x {plain, key map, key path, nested in a repeated sub-circuit} x {key, sympy, bit-mask} conditions x 2 simulators",
                cases=cases, distinct=cases, failures=len(fails), exhaustive=False, _fails=fails[:4])
standin_params_and_loops.prop = "C12"
def standin_unrolled(tier, seed):
    """a sub-circuit and its unrolled form (the three unrolling transformers; shared with C06) give the same records, also when the sub-circuit
    only reads a key that the enclosing circuit measures before and again after it"""
    from contracts.C06_transformers import standin_unroll_dependencies as f

    r = dict(f(tier, seed))
    r["case"] = "unrolled"
    return r
standin_unrolled.prop = "C12"

def standin_tagged_twins(tier, seed):
    """a tag changes nothing about keys: a sub-circuit whose body holds TAGGED key readers / writers (a tagged controlled operation, a tagged nested
    sub-circuit reading an outer key, a tagged measurement) under every kind of scoping (repetition ids, key path, nesting, key map) has the same
    measurement and control keys, the same unrolled circuit up to the tags, and the same record distribution as its twin without the tags"""
    import cirq

    q = cirq.LineQubit.range(3)
    cases, fails = 0, []

    def bodies(tag):
        t = (lambda o: o.with_tags("t")) if tag else (lambda o: o)
        inner_reader = cirq.CircuitOperation(cirq.FrozenCircuit(cirq.X(q[2]).with_classical_controls("a")))
        return {
            "tagged controlled operation": cirq.FrozenCircuit(cirq.H(q[0]), cirq.measure(q[0], key="a"), t(cirq.X(q[1]).with_classical_controls("a")), cirq.measure(q[1], key="b")),
            "tagged nested sub-circuit reading the enclosing key": cirq.FrozenCircuit(cirq.H(q[0]), cirq.measure(q[0], key="a"), t(inner_reader), cirq.measure(q[2], key="b")),
            "tagged measurement feeding a control": cirq.FrozenCircuit(cirq.H(q[0]), t(cirq.measure(q[0], key="a")), cirq.X(q[1]).with_classical_controls("a"), cirq.measure(q[1], key="b")),
            "tagged sympy-controlled operation": cirq.FrozenCircuit(cirq.H(q[0]), cirq.measure(q[0], q[2], key="a"), t(cirq.X(q[1]).with_classical_controls(cirq.SympyCondition(__import__("sympy").Symbol("a") > 1))), cirq.measure(q[1], key="b")),
        }

    wrappers = {
        "repeated twice with repetition ids": lambda fc: cirq.CircuitOperation(fc, repetitions=2, use_repetition_ids=True),
        "repeated twice without ids": lambda fc: cirq.CircuitOperation(fc, repetitions=2, use_repetition_ids=False),
        "under a key path": lambda fc: cirq.CircuitOperation(fc).with_key_path(("p",)),
        "nested in a repeated outer sub-circuit": lambda fc: cirq.CircuitOperation(cirq.FrozenCircuit(cirq.CircuitOperation(fc, repetitions=2, use_repetition_ids=True)), repetitions=2, use_repetition_ids=True),
        "with the key renamed": lambda fc: cirq.CircuitOperation(fc, measurement_key_map={"a": "z"}),
    }

    def untag(circ):
        return cirq.Circuit(cirq.Moment(op.untagged for op in m) for m in circ)

    tagged, plain = bodies(True), bodies(False)
    for (bname, fc_t), (wname, wrap) in itertools.product(tagged.items(), wrappers.items()):
        cases += 1
        op_t, op_p = wrap(fc_t), wrap(plain[bname])
        args = dict(body=bname, scoping=wname)
        try:
            if cirq.measurement_key_objs(op_t) != cirq.measurement_key_objs(op_p) or cirq.control_keys(op_t) != cirq.control_keys(op_p):
                fails.append(dict(args=args, failed="tagged-twin-keys", clause=f"keys differ from the untagged twin: measures {sorted(map(str, cirq.measurement_key_objs(op_t)))} vs {sorted(map(str, cirq.measurement_key_objs(op_p)))}, reads {sorted(map(str, cirq.control_keys(op_t)))} vs {sorted(map(str, cirq.control_keys(op_p)))}"))
                continue
            full = lambda o_: cirq.Circuit(cirq.decompose(cirq.Circuit(o_), keep=lambda o: not isinstance(o.untagged, cirq.CircuitOperation), on_stuck_raise=None))
            flat_t, flat_p = full(op_t), full(op_p)     # (mapped_circuit(deep=True) leaves a TAGGED nested sub-circuit in place; decomposition unrolls it)
            if untag(flat_t) != untag(flat_p):
                fails.append(dict(args=dict(args, unrolled=repr(flat_t)[:900]), failed="tagged-twin-unrolled", clause="the unrolled sub-circuit differs from the untagged twin's beyond the tags"))
                continue
            want = refsim.ref_distribution(cirq.Circuit(flat_p), list(q))
            got = refsim.ref_distribution(untag(cirq.Circuit(cirq.decompose(cirq.Circuit(op_t), keep=lambda o: not isinstance(o.untagged, cirq.CircuitOperation), on_stuck_raise=None))), list(q))
            if not refsim.dist_close(got, want, atol=1e-7):
                fails.append(dict(args=args, failed="tagged-twin-records", clause="the record distribution differs from the untagged twin's"))
        except refsim.ControlBeforeMeasurement as ex:
            fails.append(dict(args=args, failed="tagged-twin-records", clause=f"the decomposed tagged form is not a valid program: {ex}"))
        except Exception as ex:
            fails.append(dict(args=args, failed="tagged-twin-raised", clause=f"{ex!r}"))
    return dict(function="cirq-core/cirq/ops/raw_types.py:TaggedOperation[key protocols] + circuits/circuit_operation.py", case="tagged-twins", bound="4 bodies with a tagged key reader / writer x 5 kinds of scoping, against the untagged twin",
                cases=cases, distinct=cases, failures=len(fails), exhaustive=True, _fails=fails[:4])
standin_tagged_twins.prop = "C12"


def standin_prefixed_circuits(tier, seed):
    """cirq.with_key_path_prefix on whole circuits and moments whose controls read keys measured INSIDE them: every operation's measured and read
    keys get the prefix (measurement, control, tagged control, sympy and bit-mask conditions; sub-circuits reading enclosing keys are resolved when unrolled and are not part of this law), the result equals the unrolled
    sub-circuit with that parent path, prefix-then-wrap equals wrap-then-prefix, and the records keep their distribution under the renamed keys"""
    import cirq
    import sympy

    q = cirq.LineQubit.range(3)
    cases, fails = 0, []
    bodies = {
        "measure, control": cirq.Circuit(cirq.X(q[0]), cirq.measure(q[0], key="m"), cirq.X(q[1]).with_classical_controls("m"), cirq.measure(q[1], key="out")),
        "measure, tagged control, sympy control": cirq.Circuit(cirq.H(q[0]), cirq.measure(q[0], q[2], key="m"), cirq.X(q[1]).with_classical_controls("m").with_tags("t"),
                                                               cirq.Z(q[2]).with_classical_controls(sympy.Symbol("m") > 1), cirq.measure(q[1], key="out")),
        "control in the moment after its measurement, bit-mask": cirq.Circuit(cirq.Moment(cirq.X(q[0])), cirq.Moment(cirq.measure(q[0], q[1], key="m")), cirq.Moment(cirq.X(q[2]).with_classical_controls(cirq.BitMaskKeyCondition("m", bitmask=2))), cirq.Moment(cirq.measure(q[2], key="out"))),
    }
    for (bname, body), path in itertools.product(bodies.items(), (("a",), ("a", "b"))):
        cases += 1
        args = dict(body=bname, prefix=list(path))
        try:
            pre = cirq.with_key_path_prefix(body, path)
            per_moment = cirq.Circuit(cirq.with_key_path_prefix(m, path) for m in body)
            problem = None
            for op0, op1 in zip(body.all_operations(), pre.all_operations()):
                want_m = {k.with_key_path_prefix(*path) for k in cirq.measurement_key_objs(op0)}
                want_c = {k.with_key_path_prefix(*path) for k in cirq.control_keys(op0)}
                if set(cirq.measurement_key_objs(op1)) != want_m or set(cirq.control_keys(op1)) != want_c:
                    problem = f"after prefixing, {op0!r} measures {sorted(map(str, cirq.measurement_key_objs(op1)))} and reads {sorted(map(str, cirq.control_keys(op1)))}; expected {sorted(map(str, want_m))} / {sorted(map(str, want_c))}"
                    break
            if problem is None and per_moment != pre:
                problem = "prefixing the circuit differs from prefixing its moments one by one"
            if problem is None:
                unrolled = cirq.CircuitOperation(body.freeze(), parent_path=path).mapped_circuit(deep=True)
                flat = lambda c_: cirq.Circuit(cirq.decompose(c_, keep=lambda o: not isinstance(o.untagged, cirq.CircuitOperation), on_stuck_raise=None))
                if flat(pre) != flat(unrolled):
                    problem = "the prefixed circuit differs from the unrolled sub-circuit carrying the same parent path"
            if problem is None:
                got = refsim.ref_distribution(cirq.Circuit(o.untagged for o in cirq.decompose(pre, keep=lambda o: not isinstance(o.untagged, cirq.CircuitOperation), on_stuck_raise=None)), list(q))
                want = refsim.ref_distribution(cirq.Circuit(o.untagged for o in cirq.decompose(body, keep=lambda o: not isinstance(o.untagged, cirq.CircuitOperation), on_stuck_raise=None)), list(q))
                ren = lambda d_: {tuple(sorted((k.split(":")[-1], v) for k, v in key)): p_ for key, p_ in d_.items()}
                if not refsim.dist_close(ren(got), ren(want), atol=1e-7):
                    problem = "the records of the prefixed circuit do not have the distribution of the original's (keys compared by their last component)"
            if problem:
                fails.append(dict(args=args, failed="prefixed-circuit", clause=problem))
        except refsim.ControlBeforeMeasurement as ex:
            fails.append(dict(args=args, failed="prefixed-circuit", clause=f"the prefixed circuit is not a valid program: {ex}"))
        except Exception as ex:
            fails.append(dict(args=args, failed="prefixed-circuit-raised", clause=f"{ex!r}"))
    # key maps that send one key of a condition onto another (swaps, cycles): every key of every condition is renamed at once — a control over two
    # records still reads two records, each the renamed one (deterministic circuit, records differ, so a collapsed condition shows)
    a_, b_ = sympy.Symbol("ka"), sympy.Symbol("kb")
    conds = {"ka > kb": (a_ > b_, lambda ka, kb: ka > kb), "ka[0] == 1 and kb == 0": (sympy.And(sympy.Eq(sympy.IndexedBase("ka")[0], 1), sympy.Eq(b_, 0)), lambda ka, kb: ka == 1 and kb == 0),
             "ka + 2*kb == 2": (sympy.Eq(a_ + 2 * b_, 2), lambda ka, kb: ka + 2 * kb == 2)}
    for (cname, (expr, truth)), (va, vb), kmap in itertools.product(conds.items(), ((0, 1), (1, 0), (1, 1)), ({"ka": "kb", "kb": "ka"}, {"ka": "kb", "kb": "kc"}, {"ka": "x"})):
        cases += 1
        body = cirq.Circuit([cirq.X(q[0])] if va else [], [cirq.X(q[1])] if vb else [], cirq.measure(q[0], key="ka"), cirq.measure(q[1], key="kb"), cirq.X(q[2]).with_classical_controls(expr), cirq.measure(q[2], key="out"))
        try:
            mapped = cirq.with_measurement_key_mapping(body, kmap)
            got = int(cirq.Simulator(seed=1).run(mapped, repetitions=1).measurements["out"][0][0])
            keys_read = {str(k) for op in mapped.all_operations() for k in cirq.control_keys(op)}
        except Exception as ex:
            fails.append(dict(args=dict(condition=cname, key_map=kmap, records=[va, vb]), failed="prefixed-circuit-raised", clause=f"{ex!r}"))
            continue
        want_keys = {kmap.get("ka", "ka"), kmap.get("kb", "kb")}
        if keys_read != want_keys or got != int(bool(truth(va, vb))):
            fails.append(dict(args=dict(condition=cname, key_map=kmap, records=[va, vb]), failed="key-map-condition",
                              clause=f"after with_measurement_key_mapping({kmap}) the control reads {sorted(keys_read)} (expected {sorted(want_keys)}) and was {'applied' if got else 'not applied'}; the condition on the renamed records is {bool(truth(va, vb))}"))
    return dict(function="cirq-core/cirq/circuits/{moment,circuit}.py:_with_key_path_prefix_", case="prefixed-circuits", bound="3 bodies whose controls read keys measured inside them x 2 prefixes, circuit-level and moment-level; 3 two-key conditions x 3 records x 3 key maps (swap, chain, plain)",
                cases=cases, distinct=cases, failures=len(fails), exhaustive=True, _fails=fails[:4])
standin_prefixed_circuits.prop = "C12"


STANDINS = [standin_subcircuits, standin_key_algebra, standin_params_and_loops, standin_unrolled, standin_tagged_twins, standin_prefixed_circuits]


def _replay_scoping(ob, seed):
    r = standin_subcircuits("thorough", seed)
    return r["_fails"][0] if r["_fails"] else None


REPLAYERS = {"cirq-core/cirq/value/condition.py:Condition._with_rescoped_keys_": _replay_scoping}
NOT_COVERED = [
    "CircuitOperation.with_qubit_mapping / with_measurement_key_mapping / repeat / _with_rescoped_keys_, AbstractCircuit._with_rescoped_keys_: bounded only",
    "symbolic repetitions: not exercised; repeat_until and bound parameters: bounded (hand-flattened cases)",
    "Condition._with_rescoped_keys_ is proved for scope paths of length <= 4 only (loop unrolled)",
]
ASSUMPTIONS = ["the bindable set is seen only through membership of the candidate keys (free boolean per prefix length)"]
EXPLANATION = ("C12: lexical rebinding of conditions proved for nesting depth <= 4 and all bindable sets; composition laws exhaustive-small; "
               "wrapped-vs-unrolled equivalence (keys and exact outcome distributions) bounded. ")
