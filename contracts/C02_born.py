"""C02 — bounded stand-in (NOT counted as proved): exact measurement-record distributions of the simulators.

Every random draw of a simulator goes through a scripted random source that enumerates all branches and multiplies
the probabilities the simulator itself passes to the draw; the resulting exact distribution over all records is
compared with the independent reference (contracts/refsim.py: projective measurement with collapse, invert masks,
confusion maps, repeated keys, qudits, classical control)."""
import itertools
import random

import numpy as np

from contracts import refsim
from contracts.scripted_rng import enumerate_branches

F = "cirq-core/cirq/sim"


def _canon_records(result):
    out = []
    for key, arr in result.records.items():
        # arr: (repetitions=1, instances, qubits)
        out.append((key, tuple(tuple(int(x) for x in inst) for inst in arr[0])))
    return tuple(sorted(out))


def _gen_circuit(rng, clifford=False, qudit=False):
    import cirq

    n = rng.choice([1, 2, 2, 3])
    if qudit:
        qs = [cirq.LineQid(i, dimension=rng.choice([2, 3])) for i in range(n)]
    else:
        qs = cirq.LineQubit.range(n)
    ops = []
    keys_used = []
    for _ in range(rng.randrange(2, 8)):
        kind = rng.random()
        q = rng.sample(qs, min(2, n))
        if kind < 0.3:
            mq = rng.sample(qs, rng.randrange(1, n + 1))
            key = rng.choice(["a", "b"])
            kw = {}
            if rng.random() < 0.4:
                kw["invert_mask"] = tuple(rng.random() < 0.5 for _ in range(rng.randrange(1, len(mq) + 1)))
            if not clifford and not qudit and rng.random() < 0.25:
                kw["confusion_map"] = {(0,): np.array([[0.8, 0.2], [0.3, 0.7]])}
            if qudit and rng.random() < 0.35:
                # confusion over one or two measured qudits (possibly of different dimensions): a cyclic shift of the joint value, or a noisy read
                cidx = tuple(range(min(len(mq), rng.choice([1, 2, 2]))))
                D = int(np.prod([mq[i].dimension for i in cidx]))
                if rng.random() < 0.5:
                    M = np.roll(np.eye(D), 1, axis=1)
                else:
                    M = 0.7 * np.eye(D) + 0.3 * np.roll(np.eye(D), rng.randrange(1, D), axis=1)
                kw["confusion_map"] = {cidx: M}
            # repeated keys must keep the same shape
            shape = tuple(x.dimension for x in mq)
            prev = [s for k, s in keys_used if k == key]
            if prev and prev[0] != shape:
                continue
            ops.append(cirq.measure(*mq, key=key, **kw))
            keys_used.append((key, shape))
            continue
        if not qudit and not clifford and kind < 0.42 and n >= 1:
            # Pauli-product (parity) measurement: projects without factorising the measured qubits
            pq = rng.sample(qs, rng.randrange(1, n + 1))
            ps = cirq.PauliString({x: rng.choice([cirq.X, cirq.Y, cirq.Z]) for x in pq}) * rng.choice([1, -1])
            prev = [s_ for k, s_ in keys_used if k == "p"]
            if not prev or prev[0] == (2,):
                ops.append(cirq.measure_single_paulistring(ps, key="p"))
                keys_used.append(("p", (2,)))
            continue
        if qudit:
            d = q[0].dimension
            g = cirq.MatrixGate(np.roll(np.eye(d), 1, axis=0), qid_shape=(d,)) if rng.random() < 0.5 else cirq.MatrixGate(
                np.array([[1, 1, 1], [1, np.exp(2j * np.pi / 3), np.exp(4j * np.pi / 3)], [1, np.exp(4j * np.pi / 3), np.exp(2j * np.pi / 3)]])[:d, :d] / np.sqrt(d)
                if d == 3 else np.array([[1, 1], [1, -1]]) / np.sqrt(2), qid_shape=(d,))
            op = g(q[0])
        elif clifford:
            op = rng.choice([cirq.H(q[0]), cirq.S(q[0]), cirq.X(q[0]), cirq.Y(q[0]) ** 0.5] + ([cirq.CNOT(*q), cirq.CZ(*q), cirq.SWAP(*q)] if n > 1 else []))
        else:
            e = rng.choice([0.5, 0.25, 1.0, 0.37])
            op = rng.choice([cirq.H(q[0]), cirq.X(q[0]) ** e, cirq.Y(q[0]) ** e, cirq.T(q[0])] + ([cirq.CNOT(*q), cirq.CZ(*q) ** e, cirq.ISWAP(*q) ** 0.5] if n > 1 else []))
        if keys_used and rng.random() < 0.25:
            k_, shape_ = rng.choice(keys_used)
            if rng.random() < 0.35 and not clifford:
                # sympy conditions: the key as an integer, by digit, and both in one expression
                import sympy
                sym, idx = sympy.Symbol(k_), sympy.IndexedBase(k_)
                i_ = rng.randrange(len(shape_))
                forms = [sympy.Eq(sym, rng.randrange(0, 3)), sym > 0, sympy.Eq(idx[i_], 1), sympy.Eq(sym, 2) & sympy.Eq(idx[len(shape_) - 1], 0),
                         sympy.Or(sympy.Eq(idx[0], 1), sympy.Eq(sym, 1)), sympy.Eq(idx[0] + sym, 2)]
                if len(shape_) > 1:
                    forms.append(sympy.Xor(sympy.Eq(idx[0], 1), sympy.Eq(idx[1], 1)))
                op = op.with_classical_controls(rng.choice(forms))
            else:
                op = op.with_classical_controls(k_)
        ops.append(op)
    if not any(cirq.is_measurement(o) for o in ops):
        ops.append(cirq.measure(*qs, key="a"))
    return cirq.Circuit(ops), list(qs)


def _rekey_by_hand(c, f):
    """the same circuit with every measurement key k replaced by f(k), REBUILT from the gates' own fields (not through with_key /
    with_measurement_key_mapping): measurement gates keep invert mask, qid shape and confusion map; key conditions test the new key"""
    import cirq

    out = []
    for m in c:
        ops_ = []
        for op in m:
            conds = []
            base = op
            if isinstance(op.untagged, cirq.ClassicallyControlledOperation):
                base = op.untagged.without_classical_controls()
                for cnd in op.untagged.classical_controls:
                    if not isinstance(cnd, cirq.KeyCondition):
                        raise NotImplementedError("only key conditions are rebuilt by hand")
                    conds.append(cirq.KeyCondition(f(cnd.key), cnd.index))
            g = base.gate
            if isinstance(g, cirq.MeasurementGate):
                base = cirq.MeasurementGate(len(base.qubits), key=f(g.mkey), invert_mask=g.invert_mask, qid_shape=g._qid_shape, confusion_map=g.confusion_map).on(*base.qubits)
            elif isinstance(g, cirq.PauliMeasurementGate):
                base = cirq.PauliMeasurementGate(g.observable(), key=f(g.mkey)).on(*base.qubits)
            ops_.append(base.with_classical_controls(*conds) if conds else base)
        out.append(cirq.Moment(ops_))
    return cirq.Circuit(out)


def standin_born(tier, seed):
    import cirq

    rng = random.Random(seed)
    n = 30 if tier == "quick" else 500
    cases, fails, distinct = 0, [], set()
    sims = [
        ("Simulator", lambda s: cirq.Simulator(seed=s), "any"),
        ("Simulator(split_untangled_states=False)", lambda s: cirq.Simulator(seed=s, split_untangled_states=False), "any"),
        ("DensityMatrixSimulator", lambda s: cirq.DensityMatrixSimulator(seed=s), "any"),
        ("CliffordSimulator", lambda s: cirq.CliffordSimulator(seed=s), "clifford"),
        ("CliffordSimulator(split_untangled_states=True)", lambda s: cirq.CliffordSimulator(seed=s, split_untangled_states=True), "clifford"),
        ("StabilizerSampler", lambda s: cirq.StabilizerSampler(seed=s), "clifford"),
    ]
    for i in range(n):
        mode = rng.choice(["plain", "plain", "clifford", "clifford", "qudit"])
        c, qs = _gen_circuit(rng, clifford=(mode == "clifford"), qudit=(mode == "qudit"))
        # every third circuit runs under renamed keys (a key map or a path prefix, as sub-circuits and key-mapping calls do): the reference
        # is the circuit rebuilt by hand under the new keys
        rekey = rng.choice([None, None, "map", "prefix"])
        try:
            if rekey == "map":
                ref_c = _rekey_by_hand(c, lambda k: cirq.MeasurementKey({"a": "z", "b": "y"}.get(k.name, k.name), k.path))
                c = cirq.with_measurement_key_mapping(c, {"a": "z", "b": "y"})
            elif rekey == "prefix":
                ref_c = _rekey_by_hand(c, lambda k: k.with_key_path_prefix("p"))
                c = cirq.with_key_path_prefix(c, ("p",))
            else:
                ref_c = c
            want = refsim.ref_distribution(ref_c, qs)
        except (refsim.ControlBeforeMeasurement, NotImplementedError):
            continue
        for name, mk, needs in sims:
            if needs == "clifford" and mode != "clifford":
                continue
            if mode == "qudit" and ("Clifford" in name or "Stabilizer" in name):
                continue
            try:
                branches = enumerate_branches(lambda r: _canon_records(mk(r).run(c, repetitions=1)))
            except NotImplementedError:
                continue
            got = {}
            for p, rec in branches:
                got[rec] = got.get(rec, 0.0) + p
            cases += 1
            distinct.add((name, repr(c)))
            if not refsim.dist_close(got, want, atol=1e-5):
                bad = [k for k in set(got) | set(want) if abs(got.get(k, 0) - want.get(k, 0)) > 1e-5][:2]
                fails.append(dict(args=dict(simulator=name, circuit=repr(c)), failed="distribution",
                                  clause=f"{name}: exact distribution of records differs from the Born rule, e.g. "
                                         f"{[(k, round(got.get(k, 0), 5), round(want.get(k, 0), 5)) for k in bad]} (got, expected)"))
                if len(fails) >= 3:
                    break
        if len(fails) >= 3:
            break
    # sampling a state never changes it
    for _ in range(10 if tier == "quick" else 100):
        nq = rng.randrange(1, 4)
        v = np.array([complex(rng.gauss(0, 1), rng.gauss(0, 1)) for _ in range(2 ** nq)])
        v /= np.linalg.norm(v)
        v0 = v.copy()
        cirq.sample_state_vector(v, list(range(nq)), repetitions=3, seed=1)
        cirq.measure_state_vector(v, [0], seed=1)
        rho = np.outer(v, v.conj())
        rho0 = rho.copy()
        cirq.sample_density_matrix(rho, list(range(nq)), repetitions=3, seed=1)
        cirq.measure_density_matrix(rho, [0], seed=1)
        cases += 1
        if not (np.array_equal(v, v0) and np.array_equal(rho, rho0)):
            fails.append(dict(args=dict(n_qubits=nq), failed="sampling-mutates-state", clause="sampling / measuring changed the caller's state array"))
    return dict(function=F + "/{sparse_simulator,density_matrix_simulator,clifford}[run -> records]", case="born",
                bound=f"{n} seeded circuits (1-3 qubits/qutrits, <= 7 ops, keys a/b repeated, invert masks, confusion maps, classical controls, "
                      "mid-circuit and terminal measurements) x 4 simulators; all branches enumerated through a scripted random source",
                cases=cases, distinct=len(distinct), failures=len(fails), exhaustive=False, _fails=fails[:3])
standin_born.prop = "C02"


def standin_born_scenarios(tier, seed):
    """Exhaustive template space: entangling preparation x (Pauli-product | plain | repeated-key) measurement x follow-up."""
    import itertools
    import cirq

    a, b, c = cirq.LineQubit.range(3)
    preps = {"product": [cirq.H(a), cirq.X(b) ** 0.5], "bell": [cirq.H(a), cirq.CNOT(a, b)], "ghz": [cirq.H(a), cirq.CNOT(a, b), cirq.CNOT(b, c)],
             "bell+T": [cirq.H(a), cirq.CNOT(a, b), cirq.T(b), cirq.H(b)], "bell, flipped": [cirq.H(a), cirq.CNOT(a, b), cirq.X(a)],
             "ghz, phased": [cirq.H(b), cirq.CNOT(b, a), cirq.CNOT(b, c), cirq.S(b), cirq.X(c)]}
    mids = {
        "ZZ": [cirq.measure_single_paulistring(cirq.Z(a) * cirq.Z(b), key="p")], "XX": [cirq.measure_single_paulistring(cirq.X(a) * cirq.X(b), key="p")],
        "-YZ": [cirq.measure_single_paulistring(-1 * cirq.Y(a) * cirq.Z(c), key="p")], "XZX": [cirq.measure_single_paulistring(cirq.X(a) * cirq.Z(b) * cirq.X(c), key="p")],
        "Za": [cirq.measure_single_paulistring(cirq.Z(a), key="p")], "m(a)": [cirq.measure(a, key="p")], "m(b,a) inv": [cirq.measure(b, a, key="p", invert_mask=(True, False))],
        "m(a);m(a)": [cirq.measure(a, key="p"), cirq.H(a), cirq.measure(a, key="p")], "m(b);m(a)": [cirq.measure(b, key="p"), cirq.measure(a, key="p")],
        "m(c);m(c)": [cirq.measure(c, key="p"), cirq.measure(c, key="p")],
        "XX;ZZ;XX": [cirq.measure_single_paulistring(cirq.X(a) * cirq.X(b), key="p"), cirq.measure_single_paulistring(cirq.Z(a) * cirq.Z(b), key="p"),
                     cirq.measure_single_paulistring(cirq.X(a) * cirq.X(b), key="p")],
    }
    posts = {"measure all": [cirq.measure(a, b, c, key="m")], "feed-forward": [cirq.X(c).with_classical_controls("p"), cirq.measure(c, b, key="m")],
             "cnot then measure": [cirq.CNOT(b, a), cirq.H(b), cirq.measure(a, b, key="m")], "reset": [cirq.reset(a), cirq.measure(a, b, key="m")]}
    sims = [("Simulator", lambda s: cirq.Simulator(seed=s)), ("Simulator(split_untangled_states=False)", lambda s: cirq.Simulator(seed=s, split_untangled_states=False)),
            ("DensityMatrixSimulator", lambda s: cirq.DensityMatrixSimulator(seed=s)),
            ("DensityMatrixSimulator(split_untangled_states=False)", lambda s: cirq.DensityMatrixSimulator(seed=s, split_untangled_states=False)),
            ("CliffordSimulator", lambda s: cirq.CliffordSimulator(seed=s)), ("StabilizerSampler", lambda s: cirq.StabilizerSampler(seed=s))]
    cases, fails, distinct = 0, [], set()
    for (pn, P), (mn, M), (qn, Q) in itertools.product(preps.items(), mids.items(), posts.items()):
        circ = cirq.Circuit(P, M, Q)
        qs = [a, b, c]
        want = refsim.ref_distribution(circ, qs)
        for name, mk in sims:
            got = {}
            stabilizer = name in ("CliffordSimulator", "StabilizerSampler")
            if stabilizer and not cirq.has_stabilizer_effect(cirq.Circuit(P)):
                continue
            try:
                for p_, rec in enumerate_branches(lambda r: _canon_records(mk(r).run(circ, repetitions=1)), max_branches=(256 if tier == "quick" else 4096) if stabilizer else 512):  # the CH form draws one bit per qubit
                    got[rec] = got.get(rec, 0.0) + p_
            except (TypeError, ValueError, NotImplementedError, RuntimeError):
                if not stabilizer:
                    raise
                continue  # an operation the stabilizer back ends refuse (e.g. reset): refusing is not a wrong distribution
            cases += 1
            distinct.add((name, pn, mn, qn))
            if not refsim.dist_close(got, want, atol=1e-5):
                bad = [k for k in set(got) | set(want) if abs(got.get(k, 0) - want.get(k, 0)) > 1e-5][:2]
                fails.append(dict(args=dict(simulator=name, scenario=f"prep={pn} measure={mn} then={qn}", circuit=repr(circ)), failed="distribution",
                                  clause=f"{name}: exact distribution of records differs from the Born rule, e.g. "
                                         f"{[(k, round(got.get(k, 0), 5), round(want.get(k, 0), 5)) for k in bad]} (got, expected)"))
                if len(fails) >= 3:
                    break
        if len(fails) >= 3:
            break
    return dict(function=F + "/{sparse_simulator,density_matrix_simulator}[structured measurement scenarios]", case="born-scenarios",
                bound="exhaustive product of 6 preparations x 11 measurement blocks (Pauli-product, inverted, repeated key) x 4 follow-ups on 3 qubits x 4 simulator configurations + CliffordSimulator and StabilizerSampler on the stabilizer ones they accept",
                cases=cases, distinct=len(distinct), failures=len(fails), exhaustive=True, _fails=fails[:3])
standin_born_scenarios.prop = "C02"


def standin_keyed_channels(tier, seed):
    """channels that carry a measurement key record WHICH operator was applied: the joint distribution of those records and of later measurements
    is p_i = tr(K_i rho K_i^dagger) with the state collapsed accordingly, for every simulator that runs the circuit"""
    import cirq

    q = cirq.LineQubit.range(2)
    cases, fails = 0, []
    ad = cirq.kraus(cirq.amplitude_damp(0.5))
    scen = {
        "amplitude damping of |1>": (cirq.Circuit(cirq.X(q[0]), cirq.KrausChannel(ad, key="k").on(q[0]), cirq.measure(q[0], key="m")),
                                     {(("k", ((0,),)), ("m", ((1,),))): 0.5, (("k", ((1,),)), ("m", ((0,),))): 0.5}),
        "mixed unitary I / X on |0>": (cirq.Circuit(cirq.MixedUnitaryChannel([(0.25, np.eye(2)), (0.75, cirq.unitary(cirq.X))], key="k").on(q[0]), cirq.measure(q[0], key="m")),
                                        {(("k", ((0,),)), ("m", ((0,),))): 0.25, (("k", ((1,),)), ("m", ((1,),))): 0.75}),
        "keyed channel then feed-forward": (cirq.Circuit(cirq.MixedUnitaryChannel([(0.5, np.eye(2)), (0.5, cirq.unitary(cirq.X))], key="k").on(q[0]), cirq.X(q[1]).with_classical_controls("k"), cirq.measure(q[0], q[1], key="m")),
                                             {(("k", ((0,),)), ("m", ((0, 0),))): 0.5, (("k", ((1,),)), ("m", ((1, 1),))): 0.5}),
    }
    for label, (circ, want) in scen.items():
        for name, mk in (("Simulator", lambda s_: cirq.Simulator(seed=s_)), ("DensityMatrixSimulator", lambda s_: cirq.DensityMatrixSimulator(seed=s_))):
            cases += 1
            try:
                got = {}
                for p_, rec in enumerate_branches(lambda r: _canon_records(mk(r).run(circ, repetitions=1))):
                    got[rec] = got.get(rec, 0.0) + p_
            except Exception as ex:
                fails.append(dict(args=dict(simulator=name, scenario=label, circuit=repr(circ)), failed="keyed-channel-records", clause=f"{name}: the channel's record is not available: {type(ex).__name__}: {str(ex)[:150]}"))
                continue
            if set(got) != set(want) or any(abs(got[k_] - want[k_]) > 1e-6 for k_ in want):
                fails.append(dict(args=dict(simulator=name, scenario=label, circuit=repr(circ)), failed="keyed-channel-records",
                                  clause=f"{name}: records {sorted(got.items())} instead of {sorted(want.items())}"))
    # one witness per simulator
    seen, uniq = set(), []
    for f in fails:
        if (f["failed"], f["args"]["simulator"]) not in seen:
            seen.add((f["failed"], f["args"]["simulator"]))
            uniq.append(f)
    return dict(function="cirq-core/cirq/sim/density_matrix_simulator.py:DensityMatrixSimulator.run[keyed channels]", case="keyed-channels", bound="3 fixed scenarios x 2 simulators, all branches enumerated",
                cases=cases, distinct=cases, failures=len(fails), exhaustive=True, _fails=uniq)
standin_keyed_channels.prop = "C02"


def standin_tableau_measure(tier, seed):
    """the tableau measurement step behind StabilizerSampler / CliffordTableauSimulationState (shared with C13)"""
    from contracts.C13_standins import standin_tableau_measure as f

    return f(tier, seed)
standin_tableau_measure.prop = "C02"
def standin_sampling_statistics(tier, seed):
    """repeated sampling of a state with every kind of seed (shared with C13): repetitions and independent qubits are independent draws"""
    from contracts.C13_standins import standin_sampling_statistics as f

    return f(tier, seed)
standin_sampling_statistics.prop = "C02"

def standin_sympy_conditions(tier, seed):
    """sympy conditions over every value of a two-bit (and a qutrit-bit) record: plain symbol = integer value, indexed = digit, both
    mixed in one expression; the controlled flip happens exactly when the expression, read that way, is true (all simulators)"""
    import cirq
    import sympy

    cases, fails = 0, []
    q = cirq.LineQubit.range(3)
    a, ai = sympy.Symbol("a"), sympy.IndexedBase("a")
    forms = {
        "a == 2": (sympy.Eq(a, 2), lambda v, d: v == 2),
        "a > 1": (a > 1, lambda v, d: v > 1),
        "a[0] == 1": (sympy.Eq(ai[0], 1), lambda v, d: d[0] == 1),
        "a[0] xor a[1]": (sympy.Xor(sympy.Eq(ai[0], 1), sympy.Eq(ai[1], 1)), lambda v, d: (d[0] == 1) != (d[1] == 1)),
        "a == 2 and a[1] == 0": (sympy.Eq(a, 2) & sympy.Eq(ai[1], 0), lambda v, d: v == 2 and d[1] == 0),
        "a[0] == 1 or a == 1": (sympy.Or(sympy.Eq(ai[0], 1), sympy.Eq(a, 1)), lambda v, d: d[0] == 1 or v == 1),
        "a[0] + a == 3": (sympy.Eq(ai[0] + a, 3), lambda v, d: d[0] + v == 3),
        "a * a[1] == 3": (sympy.Eq(a * ai[1], 3), lambda v, d: v * d[1] == 3),
    }
    sims = [("Simulator", lambda: cirq.Simulator()), ("DensityMatrixSimulator", lambda: cirq.DensityMatrixSimulator()), ("CliffordSimulator", lambda: cirq.CliffordSimulator()),
            ("Simulator(split_untangled_states=False)", lambda: cirq.Simulator(split_untangled_states=False))]
    for (label, (expr, truth)), bits in itertools.product(forms.items(), itertools.product((0, 1), repeat=2)):
        v = bits[0] * 2 + bits[1]
        c = cirq.Circuit([cirq.X(q[i]) for i in (0, 1) if bits[i]], cirq.measure(q[0], q[1], key="a"), cirq.X(q[2]).with_classical_controls(expr), cirq.measure(q[2], key="out"))
        want = int(bool(truth(v, bits)))
        for name, mk in sims:
            cases += 1
            try:
                got = int(mk().run(c, repetitions=1).measurements["out"][0][0])
            except Exception as ex:
                fails.append(dict(args=dict(condition=label, record=list(bits), simulator=name), failed="sympy-condition-raised", clause=f"{ex!r}"))
                continue
            if got != want:
                fails.append(dict(args=dict(condition=label, record=list(bits), simulator=name, circuit=repr(c)), failed="sympy-condition",
                                  clause=f"with record a = {list(bits)} the condition {label} is {bool(want)}, but the controlled X was {'applied' if got else 'not applied'}"))
    # records of mixed dimensions: the integer value of a record is its digits read big-endian in the mixed radix of the measured qudits
    shift = lambda d, k: cirq.MatrixGate(np.roll(np.eye(d), k, axis=0), qid_shape=(d,))
    t3, b2, out = cirq.LineQid(0, dimension=3), cirq.LineQid(1, dimension=2), cirq.LineQubit(2)
    mixed_forms = {
        **{f"a == {k}": (sympy.Eq(a, k), (lambda k: lambda v, d: v == k)(k)) for k in range(1, 6)},
        "a >= 4": (a >= 4, lambda v, d: v >= 4),
        "a[0] == 2": (sympy.Eq(ai[0], 2), lambda v, d: d[0] == 2),
        "a - a[1] == 2": (sympy.Eq(a - ai[1], 2), lambda v, d: v - d[1] == 2),
        "(a & 6) == 4": (cirq.BitMaskKeyCondition("a", bitmask=6, target_value=4, equal_target=True), lambda v, d: (v & 6) == 4),
        "(a & 1) != 0": (cirq.BitMaskKeyCondition("a", bitmask=1), lambda v, d: (v & 1) != 0),
    }
    for order in ((t3, b2), (b2, t3)):
        dims = [x.dimension for x in order]
        for (label, (expr, truth)), digits in itertools.product(mixed_forms.items(), itertools.product(*[range(d_) for d_ in dims])):
            v = digits[0] * dims[1] + digits[1]
            c = cirq.Circuit([shift(x.dimension, k).on(x) for x, k in zip(order, digits) if k], cirq.measure(*order, key="a"), cirq.X(out).with_classical_controls(expr), cirq.measure(out, key="out"))
            want = int(bool(truth(v, digits)))
            for name, mk in sims:
                if name == "CliffordSimulator":
                    continue
                cases += 1
                try:
                    got = int(mk().run(c, repetitions=1).measurements["out"][0][0])
                except Exception as ex:
                    fails.append(dict(args=dict(condition=label, record=list(digits), dimensions=dims, simulator=name), failed="sympy-condition-raised", clause=f"{ex!r}"))
                    continue
                if got != want:
                    fails.append(dict(args=dict(condition=label, record=list(digits), dimensions=dims, simulator=name, circuit=repr(c)), failed="sympy-condition",
                                      clause=f"with record a = {list(digits)} over dimensions {dims} (value {v}) the condition {label} is {bool(want)}, but the controlled X was {'applied' if got else 'not applied'}"))
    seen, uniq = set(), []
    for f_ in fails:
        k = (f_["failed"], f_["args"]["condition"])
        if k not in seen:
            seen.add(k)
            uniq.append(f_)
    return dict(function="cirq-core/cirq/value/condition.py:SympyCondition.resolve", case="sympy-conditions", bound="8 condition forms x all 4 values of a two-bit record x 4 simulators + 10 forms (sympy and bit-mask) x all 6 values of a (qutrit, qubit) / (qubit, qutrit) record x 3 simulators (exhaustive)",
                cases=cases, distinct=cases, failures=len(uniq), exhaustive=True, _fails=uniq[:4])
standin_sympy_conditions.prop = "C02"


def standin_confusion_maps(tier, seed):
    """confusion maps over qudits of different dimensions: every basis state x register order x deterministic / noisy map, as a
    terminal measurement (sampled all at once) and followed by another operation (measured per repetition): exact distributions"""
    import cirq

    cases, fails = 0, []
    qa, qb, qc = cirq.LineQid(0, dimension=2), cirq.LineQid(1, dimension=3), cirq.LineQid(2, dimension=2)
    shift = lambda d, k: cirq.MatrixGate(np.roll(np.eye(d), k, axis=0), qid_shape=(d,))
    sims = [("Simulator", lambda s: cirq.Simulator(seed=s)), ("DensityMatrixSimulator", lambda s: cirq.DensityMatrixSimulator(seed=s)),
            ("Simulator(split_untangled_states=False)", lambda s: cirq.Simulator(seed=s, split_untangled_states=False))]
    layouts = {"qubit,qutrit": (qa, qb), "qutrit,qubit": (qb, qa), "qubit,qutrit,qubit": (qa, qb, qc)}
    for (lname, mq), noisy, terminal in itertools.product(layouts.items(), (False, True), (True, False)):
        dims = [x.dimension for x in mq]
        D = int(np.prod(dims[:2]))
        M = np.roll(np.eye(D), 1, axis=1) if not noisy else 0.6 * np.eye(D) + 0.4 * np.roll(np.eye(D), 2, axis=1)
        cmaps = [{(0, 1): M}, {(1, 0): M}] if len(mq) == 2 else [{(0, 1): M}, {(1, 2): np.roll(np.eye(6), 1, axis=1)}]
        # entries whose index sets overlap are applied one after the other (as the deferred-measurement form of the circuit does)
        d0 = dims[0]
        cmaps.append({(0,): np.roll(np.eye(d0), 1, axis=1), (0, 1): M})
        for cmap in cmaps:
            for digits in itertools.product(*[range(d) for d in dims]):
                prep = [shift(x.dimension, v).on(x) for x, v in zip(mq, digits) if v]
                tail = [] if terminal else [shift(mq[0].dimension, 1).on(mq[0])]
                circ = cirq.Circuit(prep, cirq.measure(*mq, key="m", confusion_map=cmap), tail)
                want = refsim.ref_distribution(circ, list(mq))
                for name, mk in sims:
                    cases += 1
                    got = {}
                    for p_, rec in enumerate_branches(lambda r: _canon_records(mk(r).run(circ, repetitions=1)), max_branches=64):
                        got[rec] = got.get(rec, 0.0) + p_
                    if not refsim.dist_close(got, want, atol=1e-6):
                        fails.append(dict(args=dict(simulator=name, register=lname, confusion_indices=repr(list(cmap)), noisy=noisy, terminal=terminal, prepared=list(digits), circuit=repr(circ)[:1200]),
                                          failed="confusion-map", clause=f"{name}: with the register prepared in {list(digits)} the reported record distribution is {sorted((k, round(v, 4)) for k, v in got.items())}, "
                                                                         f"the confusion matrix row gives {sorted((k, round(v, 4)) for k, v in want.items())}"))
    seen, uniq = set(), []
    for f_ in fails:
        k = (f_["args"]["simulator"], f_["args"]["terminal"])
        if k not in seen:
            seen.add(k)
            uniq.append(f_)
    return dict(function=F + "/simulator.py:StepResult._confuse_results + simulation_state.py:_confuse_result", case="confusion-maps",
                bound="3 register layouts mixing qubits and a qutrit x 2 index orders x deterministic / noisy map x every basis state x terminal / non-terminal x 3 simulators (exhaustive)",
                cases=cases, distinct=cases, failures=len(uniq), exhaustive=True, _fails=uniq[:4])
standin_confusion_maps.prop = "C02"


def standin_measurement_orders(tier, seed):
    """every ordered choice of 1-3 qubits out of an entangled 4-qubit register (one more qudit left unmeasured), as a terminal measurement and
    followed by further operations: the record lists the measured qubits' digits in the order the measurement names them"""
    import cirq

    cases, fails = 0, []
    q = cirq.LineQubit.range(4)
    t = cirq.LineQid(4, dimension=3)
    shift = cirq.MatrixGate(np.roll(np.eye(3), 1, axis=0), qid_shape=(3,))
    # (|0101> + |1010>)/sqrt(2) on the qubits, the qutrit in |2>, and everything joined into one state by controlled phases
    prep = [cirq.H(q[0]), cirq.CNOT(q[0], q[1]), cirq.CNOT(q[0], q[2]), cirq.CNOT(q[0], q[3]), cirq.X(q[1]), cirq.X(q[3]), shift(t), shift(t),
            cirq.CZ(q[0], q[1]), cirq.CZ(q[1], q[2]), cirq.CZ(q[2], q[3]), cirq.Z(q[3]).controlled_by(t, control_values=[2])]
    sims = [("Simulator", lambda s_: cirq.Simulator(seed=s_)), ("Simulator(split_untangled_states=False)", lambda s_: cirq.Simulator(seed=s_, split_untangled_states=False)),
            ("DensityMatrixSimulator", lambda s_: cirq.DensityMatrixSimulator(seed=s_)), ("DensityMatrixSimulator(split_untangled_states=False)", lambda s_: cirq.DensityMatrixSimulator(seed=s_, split_untangled_states=False))]
    reg = list(q) + [t]
    pool = list(q) + [t]
    orders = [o for k in (1, 2, 3) for o in itertools.permutations(pool, k)]
    if tier == "quick":
        orders = [o for o in orders if len(o) == 3][::2] + [o for o in orders if len(o) < 3][::3]
    for order in orders:
        for tail in ([], [cirq.X(order[0]) if order[0].dimension == 2 else shift(order[0]), cirq.measure(*reversed(order), key="again")]):
            circ = cirq.Circuit(prep, cirq.measure(*order, key="m"), tail)
            want = refsim.ref_distribution(circ, reg)
            for name, mk in sims:
                cases += 1
                got = {}
                try:
                    for p_, rec in enumerate_branches(lambda r: _canon_records(mk(r).run(circ, repetitions=1)), max_branches=64):
                        got[rec] = got.get(rec, 0.0) + p_
                except RuntimeError:
                    continue
                if not refsim.dist_close(got, want, atol=1e-6):
                    fails.append(dict(args=dict(simulator=name, measured=repr(list(order)), terminal=not tail, circuit=repr(circ)[:1500]), failed="measurement-order",
                                      clause=f"{name}: measuring {list(order)} ({'terminal' if not tail else 'followed by more operations'}) gives {sorted((k, round(v, 4)) for k, v in got.items())}, "
                                             f"the state gives {sorted((k, round(v, 4)) for k, v in want.items())}"))
    seen, uniq = set(), []
    for f_ in fails:
        k = (f_["args"]["simulator"], f_["args"]["terminal"])
        if k not in seen:
            seen.add(k)
            uniq.append(f_)
    return dict(function=F + "/simulation_utils.py:state_probabilities_by_indices + state_vector / density_matrix measurement", case="measurement-orders",
                bound="ordered choices of 1-3 of 5 qudits (4 entangled qubits and a qutrit; every choice in the thorough tier) x terminal / followed by operations x 4 simulator configurations",
                cases=cases, distinct=cases, failures=len(uniq), exhaustive=(tier != "quick"), _fails=uniq[:4])
standin_measurement_orders.prop = "C02"

def standin_many_level_qudits(tier, seed):
    """qudits with more levels than an 8-bit digit holds (129, 200, 257, 300 levels) prepared in a basis state: run, simulate and the sampling
    functions report that level, as a terminal measurement and mid-circuit, next to a qubit"""
    import cirq

    cases, fails = 0, []
    sims = [("Simulator", lambda: cirq.Simulator(seed=1)), ("DensityMatrixSimulator", lambda: cirq.DensityMatrixSimulator(seed=1)), ("Simulator(split_untangled_states=False)", lambda: cirq.Simulator(seed=1, split_untangled_states=False))]
    b = cirq.LineQubit(1)
    for d, level in ((129, 128), (200, 150), (257, 256), (300, 290), (5, 4)):
        q = cirq.LineQid(0, dimension=d)
        prep = cirq.MatrixGate(np.roll(np.eye(d), level, axis=0), qid_shape=(d,)).on(q)
        shapes = {"terminal": cirq.Circuit(prep, cirq.X(b), cirq.measure(q, b, key="m")),
                  "mid-circuit": cirq.Circuit(prep, cirq.X(b), cirq.measure(q, b, key="m"), cirq.IdentityGate(qid_shape=(d,)).on(q))}
        for (sname, mk), (cname, c) in itertools.product(sims, shapes.items()):
            if d > 200 and sname == "DensityMatrixSimulator":
                continue
            cases += 1
            args = dict(dimension=d, prepared_level=level, simulator=sname, shape=cname)
            try:
                got = mk().run(c, repetitions=3).measurements["m"].astype(np.int64).tolist()
                got_sim = [int(x) for x in mk().simulate(c).measurements["m"]]
            except Exception as ex:
                fails.append(dict(args=args, failed="many-level-raised", clause=f"{ex!r}"))
                continue
            if got != [[level, 1]] * 3 or got_sim != [level, 1]:
                fails.append(dict(args=args, failed="many-level-digit", clause=f"a {d}-level qudit prepared in level {level}: run reports {got}, simulate reports {got_sim}"))
        cases += 1
        vec = np.zeros(d, dtype=np.complex64)
        vec[level] = 1
        try:
            got = [int(cirq.sample_state_vector(vec, [0], qid_shape=(d,), repetitions=2)[0][0]), int(cirq.sample_density_matrix(np.outer(vec, vec), [0], qid_shape=(d,), repetitions=2)[0][0])]
        except Exception as ex:
            fails.append(dict(args=dict(dimension=d, prepared_level=level), failed="many-level-raised", clause=f"{ex!r}"))
            continue
        if got != [level, level]:
            fails.append(dict(args=dict(dimension=d, prepared_level=level), failed="many-level-digit", clause=f"sample_state_vector / sample_density_matrix report levels {got} for a qudit in level {level}"))
    return dict(function="cirq-core/cirq/sim/{state_vector,density_matrix_utils,simulator,simulator_base}.py[digits of many-level qudits]", case="many-level-qudits",
                bound="5 dimensions (5, 129, 200, 257, 300) x 3 simulators x terminal / mid-circuit measurement, basis states", cases=cases, distinct=cases, failures=len(fails), exhaustive=True, _fails=fails[:4])
standin_many_level_qudits.prop = "C02"


def standin_nested_scopes(tier, seed):
    """feed-forward inside NESTED repeated sub-circuits that all measure under one key name: a control reads the record of the innermost enclosing
    scope that measured the key (deterministic circuits, every simulator; outer and inner records differ, so a control bound to the wrong scope shows)"""
    import cirq

    q = cirq.LineQubit.range(3)
    cases, fails = 0, []
    sims = [("Simulator", lambda: cirq.Simulator(seed=1)), ("DensityMatrixSimulator", lambda: cirq.DensityMatrixSimulator(seed=1)), ("CliffordSimulator", lambda: cirq.CliffordSimulator(seed=1)),
            ("Simulator(split_untangled_states=False)", lambda: cirq.Simulator(seed=1, split_untangled_states=False))]
    for outer_bit, inner_bit, inner_reps, outer_reps in itertools.product((0, 1), (0, 1), (1, 2, 3), (1, 2)):
        inner = cirq.FrozenCircuit(cirq.ResetChannel().on(q[1]), cirq.ResetChannel().on(q[2]), [cirq.X(q[1])] if inner_bit else [], cirq.measure(q[1], key="m"),
                                   cirq.X(q[2]).with_classical_controls("m"), cirq.measure(q[2], key="out"))
        # (the outer measurement in a moment of its own BEFORE the inner sub-circuit: only then is the outer record in scope for the inner control)
        outer = cirq.FrozenCircuit(cirq.Moment(cirq.ResetChannel().on(q[0])), cirq.Moment([cirq.X(q[0])] if outer_bit else []), cirq.Moment(cirq.measure(q[0], key="m")),
                                   cirq.Moment(cirq.CircuitOperation(inner, repetitions=inner_reps, use_repetition_ids=True)))
        c = cirq.Circuit(cirq.CircuitOperation(outer, repetitions=outer_reps, use_repetition_ids=True))
        for sname, mk in sims:
            cases += 1
            args = dict(outer_record=outer_bit, inner_record=inner_bit, inner_repetitions=inner_reps, outer_repetitions=outer_reps, simulator=sname)
            try:
                r = mk().run(c, repetitions=2)
            except Exception as ex:
                fails.append(dict(args=args, failed="nested-scope-raised", clause=f"{ex!r}"))
                continue
            outs = {k: v.astype(int).reshape(-1).tolist() for k, v in r.records.items() if k.endswith("out")}
            if len(outs) != inner_reps * outer_reps or any(v != [inner_bit] * len(v) for v in outs.values()):
                fails.append(dict(args=dict(args, records=repr(outs)[:400]), failed="nested-scope-feed-forward", clause=f"the inner control must follow the inner record ({inner_bit}) in every iteration; got {outs}"))
    seen, uniq = set(), []
    for f_ in fails:
        key = (f_["failed"], f_["args"]["simulator"])
        if key not in seen:
            seen.add(key)
            uniq.append(f_)
    return dict(function="cirq-core/cirq/value/condition.py:Condition._with_rescoped_keys_ + circuits/circuit_operation.py[nested scopes]", case="nested-scopes",
                bound="outer / inner record in {0, 1} x inner repetitions 1-3 x outer repetitions 1-2 (repetition ids in use) x 4 simulators, deterministic", cases=cases, distinct=cases, failures=len(uniq), exhaustive=True, _fails=uniq[:4])
standin_nested_scopes.prop = "C02"


STANDINS = [standin_nested_scopes, standin_many_level_qudits, standin_born, standin_born_scenarios, standin_tableau_measure, standin_sampling_statistics, standin_keyed_channels, standin_sympy_conditions, standin_confusion_maps, standin_measurement_orders]
