"""C07 — bounded stand-ins (NOT counted as proved): compilation, routing and device validation end to end.

standin_compile: seeded circuits (library gates incl. parametrised powers, arbitrary 1-3 qubit matrices, already-native
circuits, operations tagged no-compile) through cirq.optimize_for_target_gateset with every target gateset and option set:
every output operation is accepted by the gateset (tagged ones excepted) and the unitary is preserved up to global phase.
standin_known_ops: the vendors' special-cased translations (Sycamore known two-qubit gates, IonQ/AQT/Pasqal decomposers) at the
special exponents +-1, +-1/2, ... : native output, same unitary.
standin_routing: RouteCQC on connected device graphs (line, ring, grid, star, random trees) with line / hard-coded initial
mappers: two-qubit operations only on edges; equal to the input up to the reported qubit permutation.
standin_devices: every vendor device accepts an operation exactly when its gateset contains it and its qubits / pairs allow it."""
import itertools
import math
import random
import warnings

import numpy as np

F = "cirq-core/cirq/transformers"


def _targets():
    import cirq
    import cirq_aqt
    import cirq_google
    import cirq_ionq
    import cirq_pasqal
    from cirq_aqt import aqt_target_gateset

    # the Pauli gate families eject_paulis leaves behind: X, Y, Z and phased-X powers
    paulis = [cirq.XPowGate, cirq.YPowGate, cirq.ZPowGate, cirq.PhasedXPowGate]
    out = [
        ("CZTargetGateset()", cirq.CZTargetGateset()), ("CZTargetGateset(allow_partial_czs)", cirq.CZTargetGateset(allow_partial_czs=True)),
        ("CZTargetGateset(additional=ISWAP family, no moment structure)", cirq.CZTargetGateset(additional_gates=[cirq.ISwapPowGate], preserve_moment_structure=False)),
        ("CZTargetGateset(reorder_operations)", cirq.CZTargetGateset(preserve_moment_structure=False, reorder_operations=True)),
        ("SqrtIswapTargetGateset()", cirq.SqrtIswapTargetGateset()), ("SqrtIswapTargetGateset(use_sqrt_iswap_inv)", cirq.SqrtIswapTargetGateset(use_sqrt_iswap_inv=True)),
        ("SqrtIswapTargetGateset(required_sqrt_iswap_count=3)", cirq.SqrtIswapTargetGateset(required_sqrt_iswap_count=3)),
        ("SqrtIswapTargetGateset(additional=CZ)", cirq.SqrtIswapTargetGateset(additional_gates=[cirq.CZ])),
        ("SycamoreTargetGateset()", cirq_google.SycamoreTargetGateset()), ("GoogleCZTargetGateset()", cirq_google.GoogleCZTargetGateset()),
        ("GoogleCZTargetGateset(eject_paulis, additional=Pauli families)", cirq_google.GoogleCZTargetGateset(eject_paulis=True, additional_gates=paulis)),
        ("GoogleCZTargetGateset(eject_paulis=True)", cirq_google.GoogleCZTargetGateset(eject_paulis=True)),
        ("IonQTargetGateset()", cirq_ionq.IonQTargetGateset()), ("AriaNativeGateset()", cirq_ionq.AriaNativeGateset()), ("ForteNativeGateset()", cirq_ionq.ForteNativeGateset()),
        ("AQTTargetGateset()", aqt_target_gateset.AQTTargetGateset()), ("PasqalGateset()", cirq_pasqal.PasqalGateset()),
        ("PasqalGateset(include_additional_controlled_ops=False)", cirq_pasqal.PasqalGateset(include_additional_controlled_ops=False)),
    ]
    return out


def _gate_makers(rng):
    import cirq

    e = rng.choice([1, -1, 0.5, -0.5, 0.25, 0.37, 2, 1.5, 3, -0.123])
    u2 = cirq.testing.random_unitary(2, random_state=rng.randrange(10 ** 6))
    u4 = rng.choice([cirq.testing.random_unitary(4, random_state=rng.randrange(10 ** 6)), cirq.unitary(cirq.CNOT), cirq.unitary(cirq.SWAP), cirq.unitary(cirq.ISWAP) * 1j,
                     np.kron(u2, u2.conj().T), cirq.unitary(cirq.CZ ** 0.3), np.eye(4)])
    one = [cirq.X ** e, cirq.Y ** e, cirq.Z ** e, cirq.H ** e, cirq.S, cirq.T, cirq.rx(e), cirq.PhasedXPowGate(phase_exponent=0.3, exponent=e), cirq.PhasedXZGate(x_exponent=e, z_exponent=0.2, axis_phase_exponent=0.4),
           cirq.MatrixGate(u2), cirq.I, cirq.XPowGate(exponent=e, global_shift=-0.5)]
    two = [cirq.CZ ** e, cirq.CNOT ** e, cirq.ISWAP ** e, cirq.SWAP ** e, cirq.XX ** e, cirq.YY ** e, cirq.ZZ ** e, cirq.FSimGate(0.4, 0.3), cirq.FSimGate(np.pi / 2, np.pi / 6), cirq.SQRT_ISWAP, cirq.SQRT_ISWAP_INV,
           cirq.PhasedISwapPowGate(phase_exponent=0.2, exponent=e), cirq.PhasedFSimGate(0.3, 0.1, 0.2, 0.4, 0.5), cirq.MatrixGate(u4), cirq.givens(0.4), cirq.CZ, cirq.CNOT, cirq.ISWAP, cirq.SWAP,
           cirq.ControlledGate(cirq.Y ** e), cirq.ms(0.3), cirq.CZPowGate(exponent=e, global_shift=0.25)]
    three = [cirq.CCZ, cirq.CCX, cirq.CSWAP, cirq.CCZ ** e, cirq.MatrixGate(cirq.testing.random_unitary(8, random_state=rng.randrange(10 ** 6))), cirq.ControlledGate(cirq.ISWAP ** 0.5),
             cirq.QuantumFourierTransformGate(3)]
    # three-qubit matrices with product structure (a two-qubit unitary on any pair next to a one-qubit one): the synthesis routes behind
    # MatrixGate._decompose_ have special cases for the degenerate cosine-sine angles these produce
    ru4, ru2 = cirq.testing.random_unitary(4, random_state=rng.randrange(10 ** 6)), cirq.testing.random_unitary(2, random_state=rng.randrange(10 ** 6))
    swap12 = np.kron(np.eye(2), cirq.unitary(cirq.SWAP))
    structured = [np.kron(ru4, ru2), np.kron(ru2, ru4), swap12 @ np.kron(ru4, ru2) @ swap12, np.kron(cirq.unitary(cirq.CNOT), np.eye(2)), np.kron(ru4, np.eye(2)),
                  swap12 @ np.kron(cirq.unitary(cirq.ISWAP ** 0.3), cirq.unitary(cirq.T)) @ swap12, np.kron(cirq.unitary(cirq.ControlledGate(cirq.ry(0.7))), cirq.unitary(cirq.H))]
    three += [cirq.MatrixGate(rng.choice(structured)), cirq.MatrixGate(rng.choice(structured))]
    return one, two, three


def _rand_circuit(rng, n, depth, allow3=True, tags=False):
    import cirq

    qs = cirq.LineQubit.range(n)
    ops = []
    for _ in range(depth):
        one, two, three = _gate_makers(rng)
        pool = one + (two * 2 if n >= 2 else []) + (three if (n >= 3 and allow3) else [])
        g = rng.choice(pool)
        op = g.on(*rng.sample(qs, cirq.num_qubits(g)))
        if rng.random() < 0.12 and cirq.num_qubits(g) <= 2 and cirq.has_unitary(op):
            # the same operation given as a sub-circuit: plain, repeated (also inverted), or written on other qubits and mapped
            sub = cirq.CircuitOperation(cirq.FrozenCircuit(op))
            r = rng.random()
            if r < 0.4:
                op = sub.repeat(rng.choice([2, 3, -1]))
            elif r < 0.7 and n >= len(op.qubits) + 1:
                target = rng.sample(qs, len(op.qubits))
                op = sub.with_qubit_mapping(dict(zip(op.qubits, target))) if set(target) != set(op.qubits) or True else sub
            else:
                op = sub
        if tags and rng.random() < 0.2:
            op = op.with_tags("no_compile")
        ops.append(op)
    return cirq.Circuit(ops, strategy=rng.choice([cirq.InsertStrategy.EARLIEST, cirq.InsertStrategy.NEW])), qs


class _Rec:
    def __init__(self):
        self.cases, self.fails, self.distinct = 0, [], set()

    def bad(self, what, **kw):
        self.fails.append(dict(args={k: repr(v)[:1500] for k, v in kw.items()}, failed=what, clause=what))

    def out(self, function, case, bound):
        seen, uniq = set(), []
        for f in self.fails:
            key = (f["failed"], f["args"].get("target", ""))
            if key not in seen:
                seen.add(key)
                uniq.append(f)
        return dict(function=function, case=case, bound=bound, cases=self.cases, distinct=len(self.distinct) or self.cases, failures=len(self.fails), exhaustive=False, _fails=uniq[:6])


def _check_compiled(R, name, gs, c, out, qs, tagged=()):
    import cirq

    bad_ops = [op for op in out.all_operations() if op not in gs and "no_compile" not in op.tags]
    if bad_ops:
        R.bad("output contains an operation the target gateset does not accept", target=name, circuit=c, operation=bad_ops[0])
        return
    try:
        same = cirq.allclose_up_to_global_phase(out.unitary(qubit_order=qs, qubits_that_should_be_present=qs), c.unitary(qubit_order=qs, qubits_that_should_be_present=qs), atol=1e-5)
    except Exception as ex:
        R.bad(f"unitary of the output could not be computed: {type(ex).__name__}", target=name, circuit=c)
        return
    if not same:
        R.bad("compiled circuit has a different unitary (beyond global phase)", target=name, circuit=c, output=out)
    for op in c.all_operations():
        if "no_compile" in op.tags and op not in list(out.all_operations()):
            R.bad("an operation tagged no_compile was changed", target=name, circuit=c, operation=op)
            break


def standin_compile(tier, seed):
    import cirq

    warnings.simplefilter("ignore")
    rng = random.Random(seed)
    R = _Rec()
    per = 6 if tier == "quick" else 60
    ctx = cirq.TransformerContext(tags_to_ignore=("no_compile",))
    for name, gs in _targets():
        for i in range(per):
            n = rng.choice([1, 2, 2, 3, 3, 4])
            tags = i % 3 == 2
            c, qs = _rand_circuit(rng, n, rng.randrange(1, 6), allow3=True, tags=tags)
            if i == 0 and name == "GoogleCZTargetGateset(eject_paulis=True)":
                # the recorded input of the known finding, always tried
                c, tags = cirq.testing.random_circuit(qubits=3, n_moments=8, op_density=0.8, random_state=0), False
                qs = sorted(c.all_qubits())
            if i % 5 == 4:  # already native: compile the compiled circuit again
                try:
                    c = cirq.optimize_for_target_gateset(c, gateset=gs, max_num_passes=1)
                except Exception:
                    continue
            R.cases += 1
            R.distinct.add((name, repr(c)))
            try:
                out = cirq.optimize_for_target_gateset(c, gateset=gs, context=ctx if tags else None, max_num_passes=rng.choice([1, None]))
            except Exception as ex:
                R.bad(f"optimize_for_target_gateset raised {type(ex).__name__}: {str(ex)[:120]}", target=name, circuit=c)
                continue
            _check_compiled(R, name, gs, c, out, qs)
    # operations given as sub-circuits (repeated, inverted, written on other qubits and mapped, a single wrapped gate) next to a two-qubit gate: every target
    a, b, c3 = cirq.LineQubit.range(3)
    wrap = lambda *ops_, **kw: cirq.CircuitOperation(cirq.FrozenCircuit(*ops_), **kw)
    subs = [wrap(cirq.X(a) ** 0.5, repetitions=3), wrap(cirq.Y(c3) ** 0.5, qubit_map={c3: a}), wrap(cirq.H(a)), wrap(cirq.H(a), repetitions=2), wrap(cirq.T(b), repetitions=-1),
            wrap(cirq.CZ(a, c3) ** 0.5, qubit_map={c3: b}, repetitions=2), wrap(cirq.X(a) ** 0.25, cirq.Z(a) ** 0.5, repetitions=2)]
    for name, gs in _targets():
        if name == "GoogleCZTargetGateset(eject_paulis=True)":
            continue  # (known finding: its output is not native for other reasons)
        for sub, shape in itertools.product(subs, ("after", "between", "alone")):
            circ = cirq.Circuit({"after": [cirq.XX(a, b) ** 0.3, sub], "between": [cirq.XX(a, b) ** 0.3, sub, cirq.CZ(a, b)], "alone": [sub]}[shape])
            R.cases += 1
            try:
                out = cirq.optimize_for_target_gateset(circ, gateset=gs)
            except Exception as ex:
                R.bad(f"optimize_for_target_gateset raised {type(ex).__name__}: {str(ex)[:120]}", target=name, circuit=circ)
                continue
            _check_compiled(R, name, gs, circ, out, sorted(circ.all_qubits()))
    # operations no target can translate (reset, a noise channel, a gate that still holds a symbol): compilation does not crash and they stay in place
    import sympy
    for name, gs in _targets():
        for odd in (cirq.reset(a), cirq.depolarize(0.1)(a), cirq.bit_flip(0.2)(b)):
            circ = cirq.Circuit(cirq.H(a), cirq.CNOT(a, b), odd, cirq.CNOT(a, b))
            R.cases += 1
            try:
                out = cirq.optimize_for_target_gateset(circ, gateset=gs)
            except Exception as ex:
                R.bad(f"optimize_for_target_gateset raised {type(ex).__name__} on a circuit holding an operation without a matrix: {str(ex)[:100]}", target=name, circuit=circ)
                continue
            if odd not in [o.untagged for o in out.all_operations()]:
                R.bad("an operation the target cannot translate disappeared from the compiled circuit", target=name, circuit=circ, operation=odd)
    return R.out(F + "/optimize_for_target_gateset.py:optimize_for_target_gateset", "compile", f"{per} seeded circuits (1-4 qubits, <= 5 operations of ~40 gate makers incl. product-structured three-qubit matrices, tags, re-compilation) and 7 sub-circuit operation forms x 17 target gatesets / option sets")
standin_compile.prop = "C07"


def standin_known_ops(tier, seed):
    import cirq
    import cirq_google

    warnings.simplefilter("ignore")
    R = _Rec()
    q = cirq.LineQubit.range(2)
    exps = [1, -1, 0.5, -0.5, 2, 0, 0.25, 1.5, -1.5, 3, 1e-9, 1 - 1e-9, 0.3]
    fams = [cirq.CZPowGate, cirq.CXPowGate, cirq.ISwapPowGate, cirq.SwapPowGate, cirq.ZZPowGate, cirq.XXPowGate, cirq.YYPowGate]
    syc_gs = cirq_google.SycamoreTargetGateset()
    for fam, e in itertools.product(fams, exps):
        for shift in (0, -0.5):
            op = fam(exponent=e, global_shift=shift).on(*q)
            # also with the qubits listed in descending order, and on a non-adjacent descending pair next to an idle qubit
            q3 = cirq.LineQubit.range(3)
            variants = [(cirq.Circuit(op), q)] + ([(cirq.Circuit(fam(exponent=e, global_shift=shift).on(q[1], q[0])), q), (cirq.Circuit(fam(exponent=e, global_shift=shift).on(q3[2], q3[0]), cirq.I(q3[1])), q3)]
                                                    if shift == 0 else [])
            for name, gs in _targets():
              if name == "GoogleCZTargetGateset(eject_paulis=True)":
                  continue  # its non-native leftovers are a recorded finding of the compile stand-in; not repeated here
              for c, qq in variants:
                R.cases += 1
                try:
                    out = cirq.optimize_for_target_gateset(c, gateset=gs, max_num_passes=1)
                except Exception as ex:
                    R.bad(f"optimize_for_target_gateset raised {type(ex).__name__}", target=name, circuit=c)
                    continue
                _check_compiled(R, name, gs, c, out, qq)
            R.cases += 1
            known = cirq_google.known_2q_op_to_sycamore_operations(op)
            if known is not None:
                kc = cirq.Circuit(known)
                if any(o not in syc_gs for o in kc.all_operations()):
                    R.bad("known_2q_op_to_sycamore_operations emits a non-Sycamore operation", operation=op)
                elif not cirq.allclose_up_to_global_phase(kc.unitary(qubit_order=q, qubits_that_should_be_present=q), cirq.unitary(op), atol=1e-6):
                    R.bad("known_2q_op_to_sycamore_operations: different unitary (beyond global phase)", operation=op)
    for th, ph in itertools.product([0, np.pi / 2, np.pi / 4, -np.pi / 2, 0.3, np.pi], [0, np.pi / 6, np.pi, -np.pi / 6, 0.7]):
        op = cirq.FSimGate(th, ph).on(*q)
        R.cases += 1
        known = cirq_google.known_2q_op_to_sycamore_operations(op)
        if known is not None and not cirq.allclose_up_to_global_phase(cirq.Circuit(known).unitary(qubit_order=q, qubits_that_should_be_present=q), cirq.unitary(op), atol=1e-6):
            R.bad("known_2q_op_to_sycamore_operations: different unitary (beyond global phase)", operation=op)
    return R.out("cirq-google/cirq_google/transformers/analytical_decompositions/two_qubit_to_sycamore.py:known_2q_op_to_sycamore_operations + vendor decomposers", "known-ops",
                 "7 two-qubit power families x 13 special exponents x 2 global shifts (and both qubit orders, adjacent and not) through every target; FSim grid for the Sycamore table")
standin_known_ops.prop = "C07"


def _graphs(rng):
    import networkx as nx

    import cirq

    out = []
    for n in (3, 5):
        out.append((f"line({n})", nx.Graph([(cirq.LineQubit(i), cirq.LineQubit(i + 1)) for i in range(n - 1)])))
    out.append(("ring(5)", nx.Graph([(cirq.LineQubit(i), cirq.LineQubit((i + 1) % 5)) for i in range(5)])))
    g = nx.Graph()
    for r, c in itertools.product(range(2), range(3)):
        if c < 2:
            g.add_edge(cirq.GridQubit(r, c), cirq.GridQubit(r, c + 1))
        if r < 1:
            g.add_edge(cirq.GridQubit(r, c), cirq.GridQubit(r + 1, c))
    out.append(("grid(2x3)", g))
    out.append(("star(5)", nx.Graph([(cirq.NamedQubit("hub"), cirq.NamedQubit(f"s{i}")) for i in range(4)])))
    t = nx.random_labeled_tree(6, seed=rng.randrange(10 ** 6)) if hasattr(nx, "random_labeled_tree") else nx.path_graph(6)
    out.append(("random tree(6)", nx.relabel_nodes(t, {i: cirq.LineQubit(10 + i) for i in t.nodes})))
    return out


def standin_routing(tier, seed):
    import cirq

    warnings.simplefilter("ignore")
    rng = random.Random(seed + 5)
    R = _Rec()
    per = 6 if tier == "quick" else 50
    for gname, graph in _graphs(rng):
        nodes = sorted(graph.nodes)
        for i in range(per):
            n = rng.randrange(2, min(len(nodes), 5) + 1)
            logical = [cirq.NamedQubit(f"L{k}") for k in range(n)]
            ops = []
            for _ in range(rng.randrange(1, 9)):
                if rng.random() < 0.6:
                    a, b = rng.sample(logical, 2)
                    ops.append(rng.choice([cirq.CNOT, cirq.CZ ** 0.5, cirq.ISWAP, cirq.FSimGate(0.3, 0.2)])(a, b))
                else:
                    ops.append(rng.choice([cirq.H, cirq.T, cirq.X ** 0.3])(rng.choice(logical)))
            c = cirq.Circuit(ops)
            if len(c.all_qubits()) < 1:
                continue
            mapper = None
            mname = "default"
            r = rng.random()
            if r < 0.35:
                # hard-coded initial mapping onto a connected set of physical qubits
                import networkx as nx
                start = rng.choice(nodes)
                order = list(nx.bfs_tree(graph, start))[: len(c.all_qubits())]
                mapper = cirq.HardCodedInitialMapper(dict(zip(sorted(c.all_qubits()), order)))
                mname = "hard-coded (BFS order)"
            elif r < 0.6:
                mapper = cirq.LineInitialMapper(graph)
                mname = "LineInitialMapper"
            elif r < 0.8 and len(nodes) > len(c.all_qubits()):
                # a placement that also names logical qubits the circuit does not use, sitting BETWEEN the used ones (swaps pass through them)
                import networkx as nx
                k_spare = min(2, len(nodes) - len(c.all_qubits()))
                order = list(nx.bfs_tree(graph, rng.choice(nodes)))[: len(c.all_qubits()) + k_spare]
                logical_ = sorted(c.all_qubits()) + [cirq.NamedQubit(f"spare{j}") for j in range(k_spare)]
                rng.shuffle(logical_)
                mapper = cirq.HardCodedInitialMapper(dict(zip(logical_, order)))
                mname = "hard-coded with spare logical qubits"
            R.cases += 1
            R.distinct.add((gname, repr(c), mname))
            try:
                router = cirq.RouteCQC(graph)
                routed, imap, smap = router.route_circuit(c, initial_mapper=mapper, lookahead_radius=rng.choice([1, 3, 8]), tag_inserted_swaps=rng.random() < 0.5)
            except Exception as ex:
                R.bad(f"route_circuit raised {type(ex).__name__}: {str(ex)[:100]}", graph=gname, mapper=mname, circuit=c)
                continue
            badop = next((op for op in routed.all_operations() if len(op.qubits) == 2 and not cirq.is_measurement(op) and not graph.has_edge(*op.qubits)), None)
            if badop is not None:
                R.bad("routed circuit has a two-qubit operation on a pair that is not an edge of the device graph", graph=gname, mapper=mname, circuit=c, operation=badop)
                continue
            if any(q not in graph.nodes for q in routed.all_qubits()):
                R.bad("routed circuit uses a qubit outside the device graph", graph=gname, mapper=mname, circuit=c)
                continue
            spare_ok = mname.startswith("hard-coded with spare") and set(imap.keys()) >= set(c.all_qubits())
            if (set(imap.keys()) != set(c.all_qubits()) and not spare_ok) or len(set(imap.values())) != len(imap):
                R.bad("initial mapping is not an injective map of the circuit's qubits", graph=gname, mapper=mname, circuit=c)
                continue
            if set(smap.keys()) != set(smap.values()) or not set(smap.keys()) >= {imap[x] for x in c.all_qubits()} or (spare_ok and set(smap.keys()) != set(imap.values())):
                R.bad("the reported final map is not a permutation of the placed physical qubits", graph=gname, mapper=mname, circuit=c, initial=imap, final=smap)
                continue
            # equality up to the reported permutation: un-route by relabelling physical -> logical with the swaps undone
            try:
                if spare_ok:
                    P = sorted(imap.values())
                    if len(P) > 7:
                        continue
                    u_r = routed.unitary(qubit_order=P, qubits_that_should_be_present=P)
                    u_o = c.transform_qubits(lambda x_: imap[x_]).unitary(qubit_order=P, qubits_that_should_be_present=P)
                    idx = {p_: i_ for i_, p_ in enumerate(P)}
                    perm_m = np.zeros((2 ** len(P),) * 2)
                    for bits in itertools.product((0, 1), repeat=len(P)):
                        nb = [0] * len(P)
                        for p_ in P:
                            nb[idx[smap[p_]]] = bits[idx[p_]]
                        perm_m[int("".join(map(str, nb)), 2), int("".join(map(str, bits)), 2)] = 1
                    if not cirq.allclose_up_to_global_phase(u_r, perm_m @ u_o, atol=1e-6):
                        raise AssertionError("differs")
                else:
                    cirq.testing.assert_circuits_have_same_unitary_given_final_permutation(routed, c.transform_qubits(lambda x_: imap[x_]), smap)
            except AssertionError:
                R.bad("routed circuit is not the input up to the reported initial mapping and final permutation", graph=gname, mapper=mname, circuit=c, routed=routed, initial=imap, final=smap)
            except Exception as ex:
                R.bad(f"could not compare routed circuit: {type(ex).__name__}: {str(ex)[:100]}", graph=gname, mapper=mname, circuit=c)
    # circuits with mid-circuit measurements and feed-forward: the routed circuit produces the same joint distribution of records (keys are
    # what results are read by; an intermediate default-key measurement of 3+ qubits is documented to be split per qubit)
    from contracts import refsim
    for gname, graph in _graphs(rng):
        nodes = sorted(graph.nodes)
        for i in range(per):
            n = rng.randrange(3, min(len(nodes), 4) + 1)
            logical = [cirq.NamedQubit(f"L{k}") for k in range(n)]
            ops, expected, keys, did_split = [], [], [], False
            for _ in range(rng.randrange(3, 9)):
                r = rng.random()
                if r < 0.35:
                    a, b = rng.sample(logical, 2)
                    o = rng.choice([cirq.CNOT, cirq.CZ, cirq.ISWAP ** 0.5])(a, b)
                elif r < 0.55:
                    k = f"k{len(keys)}"
                    o = cirq.measure(rng.choice(logical), key=k, invert_mask=(rng.random() < 0.3,))
                    keys.append(k)
                elif r < 0.75 and keys:
                    o = rng.choice([cirq.X, cirq.Z, cirq.H])(rng.choice(logical)).with_classical_controls(rng.choice(keys))
                elif r < 0.82 and not did_split:
                    did_split = True
                    mask = tuple(rng.random() < 0.4 for _ in range(3))
                    trio = rng.sample(logical, 3)
                    ops.append(cirq.measure(*trio, invert_mask=mask))
                    expected.extend(cirq.measure(q_, invert_mask=(m_,)) for q_, m_ in zip(trio, mask))
                    continue
                else:
                    o = rng.choice([cirq.H, cirq.X ** 0.5, cirq.T])(rng.choice(logical))
                ops.append(o)
                expected.append(o)
            tail = [cirq.H(logical[0]), cirq.measure(*logical, key="final")]
            c = cirq.Circuit(ops, tail, strategy=cirq.InsertStrategy.NEW)
            want_c = cirq.Circuit(expected, tail, strategy=cirq.InsertStrategy.NEW)
            R.cases += 1
            try:
                routed, imap, smap = cirq.RouteCQC(graph).route_circuit(c, lookahead_radius=rng.choice([1, 3]))
            except Exception as ex:
                R.bad(f"route_circuit raised {type(ex).__name__}: {str(ex)[:100]}", graph=gname, circuit=c)
                continue
            badop = next((op for op in routed.all_operations() if len(op.qubits) == 2 and not cirq.is_measurement(op) and not graph.has_edge(*op.qubits)), None)
            if badop is not None:
                R.bad("routed circuit has a two-qubit operation on a pair that is not an edge of the device graph", graph=gname, circuit=c, operation=badop)
                continue
            try:
                got = refsim.ref_distribution(routed, sorted(routed.all_qubits()))
                want = refsim.ref_distribution(want_c, logical)
            except RuntimeError:
                continue
            except refsim.ControlBeforeMeasurement as ex:
                R.bad("routed circuit evaluates a classical control before its key is measured", graph=gname, circuit=c, routed=routed)
                continue
            # the terminal joint measurement lists the physical qubits in mapped order: compare per key as records
            if not refsim.dist_close(got, want, atol=1e-6):
                R.bad("routed circuit with measurements / classical control has a different joint distribution of records", graph=gname, circuit=c, routed=routed)
    return R.out(F + "/routing/route_circuit_cqc.py:RouteCQC.route_circuit", "routing", f"{per} seeded circuits (2-5 logical qubits, <= 8 operations) x 6 device graphs x 3 initial mappers x lookahead 1/3/8; "
                 f"{per} more per graph with mid-circuit measurements (invert masks, a split 3-qubit one), feed-forward and a terminal joint measurement, by exact record distributions")
standin_routing.prop = "C07"


def standin_devices(tier, seed):
    import cirq
    import cirq_google
    import cirq_ionq
    import cirq_pasqal
    from cirq_aqt import aqt_device

    warnings.simplefilter("ignore")
    rng = random.Random(seed + 9)
    R = _Rec()
    # Google: a device built from a specification
    from cirq_google.api import v2

    spec = v2.device_pb2.DeviceSpecification()
    gq = [cirq.GridQubit(r, c) for r in range(2) for c in range(2)]
    spec.valid_qubits.extend([v2.qubit_to_proto_id(x) for x in gq])
    pairs = [(gq[0], gq[1]), (gq[0], gq[2]), (gq[1], gq[3])]
    tgt = spec.valid_targets.add()
    tgt.name = "2q"
    tgt.target_ordering = v2.device_pb2.TargetSet.SYMMETRIC
    for a, b in pairs:
        t = tgt.targets.add()
        t.ids.extend([v2.qubit_to_proto_id(a), v2.qubit_to_proto_id(b)])
    for field in ("cz", "sqrt_iswap", "phased_xz", "virtual_zpow", "physical_zpow", "meas", "wait"):
        g = spec.valid_gates.add()
        getattr(g, field).SetInParent()
    try:
        dev = cirq_google.GridDevice.from_proto(spec)
    except Exception as ex:
        dev = None
        R.bad(f"GridDevice.from_proto raised {type(ex).__name__}: {str(ex)[:100]}")
    off = cirq.GridQubit(5, 5)
    cand_gates1 = [cirq.X, cirq.PhasedXZGate(x_exponent=0.3, z_exponent=0.2, axis_phase_exponent=0.1), cirq.Z ** 0.3, cirq.H, cirq.T, cirq.MeasurementGate(1, "k"), cirq.WaitGate(cirq.Duration(nanos=5)), cirq.I]
    cand_gates2 = [cirq.CZ, cirq.CZ ** 0.5, cirq.SQRT_ISWAP, cirq.ISWAP, cirq.CNOT, cirq.MeasurementGate(2, "k2"), cirq.SQRT_ISWAP_INV, cirq_google.SYC]
    if dev is not None:
        gs = dev.metadata.gateset
        pairset = {frozenset(p) for p in pairs}
        for g in cand_gates1:
            for x in gq + [off]:
                op = g.on(x)
                R.cases += 1
                want = (op in gs) and x in gq
                _accept(R, "GridDevice", dev, op, want)
        for g in cand_gates2:
            for a, b in itertools.permutations(gq + [off], 2):
                op = g.on(a, b)
                R.cases += 1
                variadic = isinstance(g, (cirq.MeasurementGate, cirq.WaitGate))
                want = (op in gs) and a in gq and b in gq and (variadic or frozenset((a, b)) in pairset)
                _accept(R, "GridDevice", dev, op, want)
        # operations given as sub-circuits: accepted exactly when every inner operation is (an uncoupled pair inside a wider sub-circuit included)
        pxz = cirq.PhasedXZGate(x_exponent=0.3, z_exponent=0.2, axis_phase_exponent=0.1)
        for inner, want in (([cirq.CZ(gq[0], gq[1]), pxz(gq[3])], True), ([cirq.CZ(gq[0], gq[1])], True), ([cirq.CZ(gq[1], gq[2])], False), ([cirq.CZ(gq[0], off)], False), ([cirq.CNOT(gq[0], gq[1])], False)):
            R.cases += 1
            _accept(R, "GridDevice", dev, cirq.CircuitOperation(cirq.FrozenCircuit(inner)), want)
        R.cases += 1
        wide = cirq.CircuitOperation(cirq.FrozenCircuit(cirq.CZ(gq[1], gq[2]), pxz(gq[0])))   # CZ on an uncoupled pair next to a third qubit
        try:
            dev.validate_operation(wide)
            R.bad("GridDevice.validate_operation accepts a sub-circuit holding a two-qubit gate on an uncoupled pair", device="GridDevice", operation=wide)
        except ValueError:
            pass
        ok_c = cirq.Circuit(cirq.CZ(gq[0], gq[1]), cirq.PhasedXZGate(x_exponent=0.3, z_exponent=0.2, axis_phase_exponent=0.1)(gq[3]), cirq.measure(*gq, key="m"))
        def op_ok(op):
            variadic = isinstance(op.gate, (cirq.MeasurementGate, cirq.WaitGate))
            return (op in gs) and all(x in gq for x in op.qubits) and (len(op.qubits) != 2 or variadic or frozenset(op.qubits) in pairset)

        for c in (ok_c, ok_c + cirq.CZ(gq[2], gq[3]), ok_c + cirq.H(gq[0]), ok_c + cirq.ISWAP(gq[0], gq[1]), ok_c + cirq.X(off)):
            want = all(op_ok(op) for op in c.all_operations())
            R.cases += 1
            try:
                dev.validate_circuit(c)
                got = True
            except ValueError:
                got = False
            if got != want:
                R.bad("GridDevice.validate_circuit disagrees with per-operation acceptance", circuit=c, accepted=got)
    # Google: a device whose gateset has tag-conditioned families (an operation's tags decide membership, not only its gate);
    # circuits that mix accepted and refused variants of ONE gate value, in both orders
    spec2 = v2.device_pb2.DeviceSpecification()
    spec2.valid_qubits.extend([v2.qubit_to_proto_id(x) for x in gq])
    tgt2 = spec2.valid_targets.add()
    tgt2.name = "2q"
    tgt2.target_ordering = v2.device_pb2.TargetSet.SYMMETRIC
    for a, b in pairs:
        t = tgt2.targets.add()
        t.ids.extend([v2.qubit_to_proto_id(a), v2.qubit_to_proto_id(b)])
    for field in ("fsim_via_model", "physical_zpow", "phased_xz", "meas", "cz"):
        try:
            getattr(spec2.valid_gates.add(), field).SetInParent()
        except AttributeError:
            pass
    try:
        dev2 = cirq_google.GridDevice.from_proto(spec2)
    except Exception as ex:
        dev2 = None
    if dev2 is not None:
        gs2 = dev2.metadata.gateset
        pairset = {frozenset(p) for p in pairs}
        fs = cirq.FSimGate(np.pi / 4, 0.3)
        variants = [
            [fs.on(gq[0], gq[1]).with_tags(cirq_google.FSimViaModelTag()), fs.on(gq[0], gq[1])],
            [(cirq.Z ** 0.25).on(gq[0]).with_tags(cirq_google.PhysicalZTag()), (cirq.Z ** 0.25).on(gq[0])],
            [(cirq.Z ** 0.25).on(gq[0]).with_tags(cirq_google.PhysicalZTag()), (cirq.Z ** 0.25).on(gq[1])],
            [cirq.CZ(gq[0], gq[1]), cirq.CZ(gq[0], gq[1]).with_tags("anything")],
            [cirq.CZ(gq[0], gq[1]), cirq.CZ(gq[2], gq[3])],          # same gate, second pair is not coupled
            [cirq.CZ(gq[0], gq[1]), cirq.CZ(gq[0], off)],
        ]

        def op_ok2(op):
            variadic = isinstance(op.gate, (cirq.MeasurementGate, cirq.WaitGate))
            return (op in gs2) and all(x in gq for x in op.qubits) and (len(op.qubits) != 2 or variadic or frozenset(op.qubits) in pairset)

        for pair_ in variants:
            for seq in (pair_, pair_[::-1], pair_ + pair_[:1]):
                for c in (cirq.Circuit(cirq.Moment([o]) for o in seq), cirq.Circuit(seq)):
                    R.cases += 1
                    want = all(op_ok2(op) for op in c.all_operations())
                    try:
                        dev2.validate_circuit(c)
                        got = True
                    except ValueError:
                        got = False
                    if got != want:
                        R.bad("GridDevice.validate_circuit (tag-conditioned gate families) disagrees with per-operation gateset membership / qubits / pairs", circuit=c, accepted=got,
                              per_operation=[op_ok2(op) for op in c.all_operations()])
    # IonQ, AQT, Pasqal: accept exactly (in gateset and on device qubits [and within the interaction rule])
    iq = cirq.LineQubit.range(3)
    idev = cirq_ionq.IonQAPIDevice(qubits=iq)
    igs = idev.gateset
    for g in [cirq.X, cirq.X ** 0.3, cirq.H, cirq.Z ** 0.1, cirq.CNOT, cirq.CZ, cirq.ISWAP, cirq.XX ** 0.5, cirq.ZZ ** 0.5, cirq.SWAP, cirq.CCZ, cirq.MeasurementGate(1, "k"), cirq.FSimGate(0.1, 0.2), cirq.CZ ** 0.5]:
        k = cirq.num_qubits(g)
        for qs_ in itertools.permutations(list(iq) + [cirq.LineQubit(7)], k):
            op = g.on(*qs_)
            R.cases += 1
            want = (op in igs) and all(x in iq for x in qs_)
            _accept(R, "IonQAPIDevice", idev, op, want)
    adev, aqubits = aqt_device.get_aqt_device(3)
    ags = adev.metadata.gateset
    for g in [cirq.X, cirq.X ** 0.3, cirq.Y ** 0.2, cirq.Z ** 0.1, cirq.H, cirq.XX ** 0.5, cirq.XX, cirq.CZ, cirq.CNOT, cirq.PhasedXPowGate(phase_exponent=0.2, exponent=0.3), cirq.MeasurementGate(1, "k"), cirq.ZZ ** 0.5]:
        k = cirq.num_qubits(g)
        for qs_ in itertools.permutations(list(aqubits) + [cirq.LineQubit(9)], k):
            op = g.on(*qs_)
            R.cases += 1
            want = (op in ags) and all(x in aqubits for x in qs_)
            _accept(R, "AQTDevice", adev, op, want)
    pq = [cirq.NamedQubit(f"q{i}") for i in range(3)]
    pdev = cirq_pasqal.PasqalDevice(qubits=pq)
    pgs = pdev.metadata.gateset if hasattr(pdev, "metadata") and getattr(pdev.metadata, "gateset", None) is not None else cirq_pasqal.PasqalGateset()
    for g in [cirq.X, cirq.X ** 0.3, cirq.Z ** 0.1, cirq.H, cirq.CZ, cirq.CNOT, cirq.CZ ** 0.5, cirq.CCZ, cirq.CCX, cirq.ISWAP, cirq.MeasurementGate(1, "k"), cirq.PhasedXPowGate(phase_exponent=0.2, exponent=0.3), cirq.IdentityGate(1)]:
        k = cirq.num_qubits(g)
        for qs_ in itertools.permutations(pq + [cirq.NamedQubit("other")], k):
            op = g.on(*qs_)
            R.cases += 1
            want = (op in pgs) and all(x in pq for x in qs_)
            _accept(R, "PasqalDevice", pdev, op, want)
    # Pasqal virtual devices: a controlled-Z power is accepted exactly when the two atoms are within the control radius, with the
    # distance taken in the space the qubits live in (line, grid, plane, 3d); the constructor refuses radii beyond 3x the closest pair
    from cirq_pasqal import ThreeDQubit, TwoDQubit

    def _pos(x):
        if isinstance(x, cirq.GridQubit):
            return (x.row, x.col, 0.0)
        if isinstance(x, cirq.LineQubit):
            return (x.x, 0.0, 0.0)
        return (x.x, x.y, getattr(x, "z", 0.0))

    def _dist(a, b):
        return math.sqrt(sum((u - v) ** 2 for u, v in zip(_pos(a), _pos(b))))

    layouts = [
        [ThreeDQubit(0, 0, 0), ThreeDQubit(1, 0, 0), ThreeDQubit(0, 1, 0), ThreeDQubit(2, 0, 3), ThreeDQubit(1, 1, 2)],
        [ThreeDQubit(rng.randint(0, 3) + 0.5 * i, rng.randint(0, 3), 1.5 * i) for i in range(4)],
        [TwoDQubit(0, 0), TwoDQubit(1.5, 0), TwoDQubit(0, 2), TwoDQubit(3, 3.5)],
        [cirq.GridQubit(0, 0), cirq.GridQubit(0, 1), cirq.GridQubit(2, 1), cirq.GridQubit(3, 3)],
        [cirq.LineQubit(0), cirq.LineQubit(1), cirq.LineQubit(3), cirq.LineQubit(6)],
    ]
    for lay in layouts:
        if len(set(lay)) != len(lay):
            continue
        dmin = min(_dist(a, b) for a, b in itertools.combinations(lay, 2))
        for factor in (0.9, 1.0, 1.6, 2.3, 3.0, 3.2):
            radius = factor * dmin
            R.cases += 1
            try:
                vdev = cirq_pasqal.PasqalVirtualDevice(control_radius=radius, qubits=lay)
                built = True
            except ValueError:
                built = False
            if built != (radius <= 3.0 * dmin + 1e-9) and abs(radius - 3.0 * dmin) > 1e-9:
                R.bad(f"PasqalVirtualDevice constructor {'accepts' if built else 'refuses'} a control radius of {factor} times the closest pair's distance", device="PasqalVirtualDevice", qubits=lay, control_radius=radius)
            if not built:
                continue
            for a, b in itertools.permutations(lay, 2):
                d = _dist(a, b)
                if abs(d - radius) < 1e-9:
                    continue
                R.cases += 1
                got_d = vdev.distance(a, b)
                if abs(got_d - d) > 1e-9:
                    R.bad("PasqalVirtualDevice.distance is not the Euclidean distance of the two qubits", device="PasqalVirtualDevice", qubits=[a, b], got=float(got_d), want=d)
                for g in (cirq.CZ, cirq.CZ ** -1, cirq.CZ ** 0.5, cirq.CNOT):
                    op = g.on(a, b)
                    want = (op in vdev.gateset) and (op not in vdev.controlled_gateset or d <= radius)
                    _accept(R, f"PasqalVirtualDevice(control_radius={radius:.3f})", vdev, op, want)
                c = cirq.Circuit(cirq.X(a), cirq.CZ(a, b), cirq.measure(a, b, key="m"))
                try:
                    vdev.validate_circuit(c)
                    got = True
                except ValueError:
                    got = False
                if got != (d <= radius):
                    R.bad(f"PasqalVirtualDevice.validate_circuit {'accepts' if got else 'refuses'} a CZ on atoms at distance {d:.3f} with control radius {radius:.3f}", device="PasqalVirtualDevice", circuit=c)
    return R.out("vendor devices: validate_operation / validate_circuit", "devices", "Pasqal virtual devices on 5 layouts (3d, plane, grid, line) x 6 radii; GridDevice from a 4-qubit specification, IonQ / AQT / Pasqal devices on 3 qubits: 8-14 candidate gates on every qubit tuple incl. an off-device qubit")
standin_devices.prop = "C07"


def _accept(R, name, dev, op, want):
    try:
        dev.validate_operation(op)
        got = True
    except (ValueError, NotImplementedError):
        got = False
    except Exception as ex:
        R.bad(f"{name}.validate_operation raised {type(ex).__name__}", device=name, operation=op)
        return
    if got != want:
        R.bad(f"{name}.validate_operation {'accepts' if got else 'refuses'} an operation that is {'not ' if not want else ''}in its gateset / on its qubits and pairs", device=name, operation=op)


STANDINS = [standin_compile, standin_known_ops, standin_routing, standin_devices]
NOT_COVERED = ["heuristic tabulation-based Sycamore compilation", "device specifications with couplers / asymmetric targets", "Pasqal virtual device layouts beyond the five used here"]
EXPLANATION = "compilation to 17 target gatesets / option sets, vendor special cases, routing on 6 device graphs and vendor device acceptance: bounded stand-ins. "
