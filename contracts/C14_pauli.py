"""C14 — Pauli-string algebra: phase/sign bookkeeping decided on its full finite domain; algebra laws vs matrices bounded.

Finite-domain obligations: the real functions are executed on EVERY element of their (finite) domain and compared with
the products of the Pauli matrices — a complete decision for these functions (no sampling).  One arithmetic lemma
(uint8 wrap-around preserves the sum modulo 4) is discharged by z3."""
import itertools
import time

import numpy as np
import z3

from pyvc import api, paths

FP = "cirq-core/cirq/ops/pauli_string.py"
FD = "cirq-core/cirq/ops/dense_pauli_string.py"

SIG = {"I": np.eye(2), "X": np.array([[0, 1], [1, 0]], dtype=complex), "Y": np.array([[0, -1j], [1j, 0]]), "Z": np.array([[1, 0], [0, -1]], dtype=complex)}
MUT = ["I", "X", "Y", "Z"]   # MutablePauliString.pauli_int_dict convention
DENSE = ["I", "X", "Y", "Z"]  # DensePauliString.pauli_mask convention = dense_pauli_string.PAULI_CHARS (re-read at check time)


def _phase_exponent(a, b):
    """k and c with sigma_a sigma_b = i^k sigma_c"""
    m = SIG[a] @ SIG[b]
    for c in "IXYZ":
        for k in range(4):
            if np.allclose(m, 1j ** k * SIG[c]):
                return k, c
    raise AssertionError


def _rep(key, obls):
    rep = api.FunctionReport.__new__(api.FunctionReport)
    rep.key, rep.prop, rep.sha, rep.dropped, rep.obligations = key, "C14", None, ["function executed as is on its full finite domain"], obls
    rep.out_of_reach, rep.error, rep.paths, rep.wall, rep.cases, rep.trace = None, None, len(obls), sum(o.ms for o in obls) / 1e3, [], set()
    rep.status = "proved" if all(o.status == "proved" for o in obls) else "failed"
    return rep


def check_imul_atom():
    import cirq

    key = f"{FP}:MutablePauliString._imul_atom_helper"
    obls = []
    q = cirq.LineQubit(0)
    for old, lhs, sign in itertools.product(range(4), range(4), (+1, -1)):
        t0 = time.time()
        m = cirq.MutablePauliString()
        if old:
            m.pauli_int_dict[q] = old
        k = m._imul_atom_helper(q, lhs, sign)
        new = m.pauli_int_dict.get(q, 0)
        # sign=+1: the new factor multiplies from the left (lhs * old); sign=-1: from the right (old * lhs)
        kk, c = _phase_exponent(MUT[lhs], MUT[old]) if sign == +1 else _phase_exponent(MUT[old], MUT[lhs])
        ok = MUT[new] == c and (k % 4) == kk and (q in m.pauli_int_dict) == (new != 0)
        o = paths.Obligation(f"C14/{key}#table[old={MUT[old]}, factor={MUT[lhs]}, sign={sign:+d}]", "engine", "proved" if ok else "failed", (time.time() - t0) * 1e3,
                             "finite-domain enumeration",
                             detail="" if ok else f"returned i^{k % 4} and {MUT[new]}; the matrices give i^{kk} {c}")
        o.case, o.concrete = "_imul_atom_helper", dict(old=MUT[old], factor=MUT[lhs], sign=sign)
        obls.append(o)
    return [_rep(key, obls)]


def check_dense_phase():
    import cirq.ops.dense_pauli_string as dps

    key = f"{FD}:_vectorized_pauli_mul_phase"
    obls = []
    global DENSE
    DENSE = list(dps.PAULI_CHARS)  # the encoding the class actually uses (the helper's docstring names a different, stale one)
    for l, r in itertools.product(range(4), range(4)):
        t0 = time.time()
        got = dps._vectorized_pauli_mul_phase(np.array([l], dtype=np.uint8), np.array([r], dtype=np.uint8))
        k, _ = _phase_exponent(DENSE[l], DENSE[r])
        ok = abs(got - 1j ** k) < 1e-12
        o = paths.Obligation(f"C14/{key}#per-term[{DENSE[l]}*{DENSE[r]}]", "engine", "proved" if ok else "failed", (time.time() - t0) * 1e3, "finite-domain enumeration",
                             detail="" if ok else f"returned {got}, sigma_{DENSE[l]} sigma_{DENSE[r]} carries i^{k}")
        o.case, o.concrete = "_vectorized_pauli_mul_phase", dict(lhs=DENSE[l], rhs=DENSE[r])
        obls.append(o)
    # additivity over positions incl. the int8/uint8 wrap-around: sum(t, dtype=uint8) & 3 == (sum of exponents) mod 4 for ANY length
    t0 = time.time()
    S = z3.Int("S")
    s = z3.Solver()
    s.add(z3.Not(((S % 256) % 4) == (S % 4)))
    r = s.check()
    obls.append(paths.Obligation(f"C14/{key}#lemma[(S mod 256) mod 4 == S mod 4 for every integer S]", "lemma", "proved" if r == z3.unsat else "failed",
                                 (time.time() - t0) * 1e3, "z3"))
    # and the function really is additive: pairs of positions, all 256 combinations
    for (l1, r1), (l2, r2) in itertools.product(itertools.product(range(4), repeat=2), repeat=2):
        got = dps._vectorized_pauli_mul_phase(np.array([l1, l2], dtype=np.uint8), np.array([r1, r2], dtype=np.uint8))
        k = (_phase_exponent(DENSE[l1], DENSE[r1])[0] + _phase_exponent(DENSE[l2], DENSE[r2])[0]) % 4
        if abs(got - 1j ** k) > 1e-12:
            obls.append(paths.Obligation(f"C14/{key}#two-terms[{DENSE[l1]}{DENSE[l2]}*{DENSE[r1]}{DENSE[r2]}]", "engine", "failed", 0.0, "finite-domain enumeration",
                                         detail=f"returned {got}, expected i^{k}"))
    obls.append(paths.Obligation(f"C14/{key}#two-terms[all 256 pairs]", "engine", "proved" if all(o.status == "proved" for o in obls) else "failed", 0.0,
                                 "finite-domain enumeration"))
    # long strings: 300 positions of Y*Z (each contributes i^1 ... wraps the int8/uint8 accumulators)
    got = dps._vectorized_pauli_mul_phase(np.full(301, DENSE.index("Y"), dtype=np.uint8), np.full(301, DENSE.index("Z"), dtype=np.uint8))
    k = (301 * _phase_exponent("Y", "Z")[0]) % 4
    obls.append(paths.Obligation(f"C14/{key}#wraparound[301 x (Y*Z)]", "engine", "proved" if abs(got - 1j ** k) < 1e-12 else "failed", 0.0, "finite-domain enumeration",
                                 detail="" if abs(got - 1j ** k) < 1e-12 else f"returned {got}, expected i^{k}"))
    return [_rep(key, obls)]


ENGINE_CHECKS = [check_imul_atom, check_dense_phase]

CANARIES = [
    dict(name="_imul_atom_helper orientation", file=FP, engine_check=0,
         find="        if (pauli_old - pauli_lhs) % 3 == 1:", replace="        if (pauli_lhs - pauli_old) % 3 == 1:"),
    dict(name="dense phase: wrong modulus", file=FD, engine_check=1, find="    t %= 3\n    t -= 1\n", replace="    t %= 3\n    t -= 2\n"),
]
