"""C04 (and C01) — the in-place `_apply_unitary_` kernels equal the documented matrix on every tensor, every placement of
the target axes, every scratch-buffer content and every parameter value (engine: pyvc/linrow.py + pyvc/trigpoly.py)."""
import cmath as _cmath

from pyvc import api, paths, linrow, trigpoly
from pyvc.trigpoly import Angle, TrigPoly
from contracts import gate_specs


class _CmathShim:
    """cmath on symbolic angles: exp(i x) = cis(x) (assumed contract of the dependency)"""

    def __getattr__(self, name):
        return getattr(_cmath, name)

    @staticmethod
    def exp(x):
        if isinstance(x, Angle):
            return x.exp()
        return _cmath.exp(x)


class _MathShim:
    """math on symbolic angles: cos/sin of an Angle are exact trig polynomials (assumed contract of the dependency)"""

    def __getattr__(self, name):
        import math

        return getattr(math, name)

    @staticmethod
    def cos(x):
        import math

        return x.cos() if isinstance(x, Angle) else math.cos(x)

    @staticmethod
    def sin(x):
        import math

        return x.sin() if isinstance(x, Angle) else math.sin(x)


def _install_shims():
    import cirq.ops.fsim_gate as fg

    fg.cmath = _CmathShim()
    fg.math = _MathShim()


def _report(key, obls):
    rep = api.FunctionReport.__new__(api.FunctionReport)
    rep.key, rep.prop, rep.sha, rep.dropped, rep.obligations = key, "C04", None, ["kernel executed as is (nothing dropped); cmath.exp shimmed for symbolic angles in fsim_gate"], obls
    rep.out_of_reach, rep.error, rep.paths, rep.wall, rep.cases, rep.trace = None, None, len(obls), sum(o.ms for o in obls) / 1e3, [], set()
    bad = [o for o in obls if o.status not in ("proved",)]
    rep.status = "proved" if not bad else ("failed" if any(o.status == "failed" for o in bad) else ("error" if any(o.status == "error" for o in bad) else "out-of-reach"))
    if rep.status == "error":
        rep.error = "; ".join(o.detail for o in bad if o.status == "error")[:600]
    if rep.status == "out-of-reach":
        rep.out_of_reach = "; ".join(o.detail for o in bad)[:600]
        rep.obligations = [o for o in obls if o.status == "proved"]
    return rep


KERNELS = ["XPowGate", "YPowGate", "ZPowGate", "ZPowGate(dimension=3)", "HPowGate", "CZPowGate", "CXPowGate", "SwapPowGate", "ISwapPowGate",
           "ZZPowGate", "CCZPowGate", "FSimGate", "PhasedFSimGate", "PhasedISwapPowGate"]


def _mk(name):
    def check():
        import inspect
        import cirq

        _install_shims()
        specs = {**gate_specs.eigen_families(), **gate_specs.other_families()}
        sp = specs[name]
        case = linrow.KernelCase(name, sp["make"], sp["params"], sp["matrix"], sp["phase"], sp["qid_shape"])
        probe = sp["make"](**{n: 1 for n in sp["params"]}) if name not in ("FSimGate", "PhasedFSimGate") else sp["make"](**{n: 0.5 for n in sp["params"]})
        fn = type(probe)._apply_unitary_
        rel = "cirq-core/" + inspect.getsourcefile(fn).split("/cirq-core/")[-1]
        key = f"{rel}:{type(probe).__name__}._apply_unitary_" + ("[dimension=3]" if "dimension" in name else "")
        return [_report(key, linrow.check_case(case, "C04", key))]
    check.__name__ = "kernel_" + name
    return check


ENGINE_CHECKS = [_mk(n) for n in KERNELS]


# ---- replay: a failed kernel obligation becomes a concrete numpy call on the real gate -------------------------------------
def _replay_kernel(ob, seed):
    import itertools
    import math
    import random
    import numpy as np
    import cirq

    if not str(ob.backend).startswith("linrow") or not ob.case:
        return None
    _install_shims()
    specs = {**gate_specs.eigen_families(), **gate_specs.other_families()}
    sp = specs.get(ob.case)
    if sp is None:
        return None
    conc = ob.concrete or {}
    axes = tuple(conc.get("axes") or range(len(sp["qid_shape"])))
    rng = random.Random(seed)
    names = list(sp["params"])
    grids = []
    for n in names:
        r = conc.get("params", {}).get(n, "")
        try:
            v = eval(r, {"Fraction": __import__("fractions").Fraction, "__builtins__": {}})
            grids.append([float(v)])
        except Exception:
            if r.startswith("(") and "pi" not in r and "*" not in r:
                grids.append([0.37])
            else:
                # symbolic in the proof: try a grid of numeric values, special ones first
                grids.append([float(x) for x in sp["params"][n]] + [0.37, -1.3, 2.25])
    total = max(axes) + 2
    shape = [2] * total
    for a, d in zip(axes, sp["qid_shape"]):
        shape[a] = d
    for vals in itertools.islice(itertools.product(*grids), 400):
        kw = dict(zip(names, vals))
        try:
            gate = sp["make"](**kw)
            sym_kw = {n: Angle.sym(n) for n in kw}
            M = trigpoly.numeric(sp["matrix"](**sym_kw), kw)
            ph = trigpoly.numeric(np.array([[sp["phase"](**sym_kw)]], dtype=object), kw)[0, 0] if sp["phase"] else 1.0
        except Exception:
            continue
        t = np.array([complex(rng.gauss(0, 1), rng.gauss(0, 1)) for _ in range(int(np.prod(shape)))]).reshape(shape)
        buf = np.full(shape, 7.5 - 2j)
        args = cirq.ApplyUnitaryArgs(target_tensor=t.copy(), available_buffer=buf, axes=list(axes))
        res = gate._apply_unitary_(args)
        if res is None or res is NotImplemented:
            continue
        k = len(axes)
        Mt = (ph * M).reshape(list(sp["qid_shape"]) * 2)
        want = np.tensordot(Mt, t, axes=(list(range(k, 2 * k)), list(axes)))
        want = np.moveaxis(want, list(range(k)), list(axes))
        if not np.allclose(res, want, atol=1e-8):
            return dict(args=dict(gate=ob.case, parameters=kw, axes=list(axes), tensor_shape=shape), failed="kernel-vs-documented-matrix",
                        clause=f"{ob.case}._apply_unitary_ with {kw} on axes {list(axes)} of a random {shape} tensor differs from the documented matrix "
                               f"(max abs diff {float(np.max(np.abs(res - want))):.3g})")
    return None


REPLAYERS = {"cirq-core/cirq/ops/": _replay_kernel}

CANARIES = [
    dict(name="CX kernel writes the swapped rows to the wrong slice", file="cirq-core/cirq/ops/common_gates.py", engine_check=KERNELS.index("CXPowGate"),
         find="        args.target_tensor[zo] = args.available_buffer[oo]\n", replace="        args.target_tensor[zo] = args.target_tensor[oo]\n"),
    dict(name="ISWAP kernel forgets one factor i", file="cirq-core/cirq/ops/swap_gates.py", engine_check=KERNELS.index("ISwapPowGate"),
         find="        args.target_tensor[zo] *= 1j\n        args.target_tensor[oz] *= 1j\n", replace="        args.target_tensor[zo] *= 1j\n"),
    dict(name="H kernel scale factor", file="cirq-core/cirq/ops/common_gates.py", engine_check=KERNELS.index("HPowGate"),
         find="        args.target_tensor[one] *= -0.5\n", replace="        args.target_tensor[one] *= 0.5\n"),
    dict(name="X kernel drops the global phase", file="cirq-core/cirq/ops/common_gates.py", engine_check=KERNELS.index("XPowGate"),
         find="        args.available_buffer[one] = args.target_tensor[zero]\n        p = 1j ** (2 * self._exponent * self._global_shift)\n        if p != 1:\n            args.available_buffer *= p\n",
         replace="        args.available_buffer[one] = args.target_tensor[zero]\n"),
    dict(name="FSim kernel phi sign", file="cirq-core/cirq/ops/fsim_gate.py", engine_check=KERNELS.index("FSimGate"),
         find="            out[ii] *= cmath.exp(-1j * self.phi)\n        return out\n\n    def _decompose_(self, qubits) -> Iterator[cirq.OP_TREE]:\n        a, b = qubits\n        xx",
         replace="            out[ii] *= cmath.exp(1j * self.phi)\n        return out\n\n    def _decompose_(self, qubits) -> Iterator[cirq.OP_TREE]:\n        a, b = qubits\n        xx"),
]
NOT_COVERED = [
    "decompositions (_decompose_) and Kraus/mixture/superoperator agreement: bounded stand-in only",
    "ControlledGate/ControlledOperation._apply_unitary_, DiagonalGate, QubitPermutationGate, arithmetic/Fourier kernels: bounded only",
    "kernels are proved for the axis placements run (5 per kernel, permuted and non-adjacent) given the subspace_index contract",
]
ASSUMPTIONS = [
    "float-as-real with recognition of the constants of Q(zeta_48) (rationals, sqrt2, sqrt3, cos(pi k/24))",
    "cmath.exp(i x) = cis(x) (shim for symbolic angles in fsim_gate)",
    "numpy object-array arithmetic applies the scalar operators element-wise",
    "symbolic parameters: equality tests explore both outcomes; the 'equal' outcome reruns with the concrete value",
]
EXPLANATION = ("C04: in-place kernels proved equal to the documented matrices for all tensors/parameters (linrow+trigpoly, the real kernel "
               "code runs on proxies); the remaining protocol coherence (decompose, kraus, act_on, wrappers) is a bounded stand-in. ")
