"""C15 — the parametrised closed-form pieces of the two-qubit syntheses rebuild their interaction, for ALL coefficients.

Deductive (trigpoly): the REAL generator functions run on symbolic interaction coefficients x, y, z (radians) / turns; the
product of the emitted operations' matrices (their real `_unitary_` on symbolic exponents, proved against the documentation
in C03) must be proportional, as an exact polynomial identity, to exp(i(x XX + y YY + z ZZ)) resp. the documented matrix.
Order tests such as `abs(rads) < atol` take their generic outcome (coefficient not within atol of 0 or pi/4); the boundary
values, the numeric KAK / single-qubit extraction and everything else are bounded stand-ins (C15_numeric.py)."""
import time
from fractions import Fraction

import numpy as np

from pyvc import api, paths, trigpoly
from pyvc.trigpoly import Angle, TrigPoly
from contracts import gate_specs as gs
from contracts.C03_gates import _rep
from contracts.C19_qasm import proportional_exact

F = "cirq-core/cirq/transformers/analytical_decompositions/"
O = lambda rows: np.array(rows, dtype=object)
I2 = O([[1, 0], [0, 1]])
X = O([[0, 1], [1, 0]])
Z = O([[1, 0], [0, -1]])
Y = O([[0, TrigPoly.const(-1j)], [TrigPoly.const(1j), 0]])


def kron(A, B):
    A, B = np.asarray(A, dtype=object), np.asarray(B, dtype=object)
    out = np.empty((A.shape[0] * B.shape[0], A.shape[1] * B.shape[1]), dtype=object)
    for i in range(A.shape[0]):
        for j in range(A.shape[1]):
            for k in range(B.shape[0]):
                for l in range(B.shape[1]):
                    out[i * B.shape[0] + k, j * B.shape[1] + l] = trigpoly._lift(A[i, j]) * trigpoly._lift(B[k, l])
    return out


def expi(theta, P):
    """exp(i theta P) for P*P == I"""
    n = len(P)
    out = np.empty((n, n), dtype=object)
    c, s = Angle.of(theta).cos(), Angle.of(theta).sin()
    for i in range(n):
        for j in range(n):
            out[i, j] = (c if i == j else TrigPoly()) + TrigPoly.const(1j) * s * trigpoly._lift(P[i, j])
    return out


def interaction(x, y, z):
    return gs._mm(gs._mm(expi(x, kron(X, X)), expi(y, kron(Y, Y))), expi(z, kron(Z, Z)))


def embed(U, idx, n):
    """matrix of U acting on qubits idx (in that order) of n qubits, big-endian; exact object arithmetic"""
    U = np.asarray(U, dtype=object)
    k = len(idx)
    D = 2 ** n
    out = np.empty((D, D), dtype=object)
    for r in range(D):
        rb = [(r >> (n - 1 - q)) & 1 for q in range(n)]
        for c in range(D):
            cb = [(c >> (n - 1 - q)) & 1 for q in range(n)]
            if any(rb[q] != cb[q] for q in range(n) if q not in idx):
                out[r, c] = TrigPoly()
                continue
            ur = sum(rb[q] << (k - 1 - j) for j, q in enumerate(idx))
            uc = sum(cb[q] << (k - 1 - j) for j, q in enumerate(idx))
            out[r, c] = trigpoly._lift(U[ur, uc])
    return out


def product_unitary(op_tree, qubits):
    import cirq

    n = len(qubits)
    M = np.array([[TrigPoly.const(1 if i == j else 0) for j in range(2 ** n)] for i in range(2 ** n)], dtype=object)
    for op in cirq.flatten_to_ops(op_tree):
        U = cirq.unitary(op)
        M = gs._mm(embed(U, [qubits.index(q) for q in op.qubits], n), M)
    return M


class _Ctx:
    def decide_undecided(self, what):
        return False

    def decide_undecided_order(self, what):
        return False  # |coefficient| < atol, | |coefficient| - pi/4 | < atol: generic outcome

    def decide_poly_equal(self, a, b):
        return False

    def decide_angle_equal(self, a, b):
        return False


def _ob(name, fn, case=None):
    t0 = time.time()
    trigpoly.CTX = _Ctx()
    try:
        ok, detail = fn()
        st = "proved" if ok else "failed"
    except Exception as e:  # engine limit: not a verdict
        st, detail = "error", f"{type(e).__name__}: {e}"
    finally:
        trigpoly.CTX = None
    o = paths.Obligation(name, "engine", st, (time.time() - t0) * 1e3, "trigpoly", detail=detail)
    o.case = case
    return o


def check_interactions():
    import cirq
    from cirq.transformers.analytical_decompositions import two_qubit_to_cz as cz, two_qubit_to_ms as ms, two_qubit_to_sqrt_iswap as si, controlled_gate_decomposition as cg

    q = cirq.LineQubit.range(3)
    x, y, z, t = (Angle.sym(s) for s in "xyzt")
    zero = Fraction(0)
    reps = []

    def rep(key, items):
        reps.append(_rep(key, [_ob(f"C15/{key}#{nm}", f, nm) for nm, f in items], "C15"))

    rep(F + "two_qubit_to_cz.py:_xx_interaction_via_full_czs", [
        ("rebuilds exp(i x XX) up to global phase", lambda: proportional_exact(product_unitary(cz._xx_interaction_via_full_czs(q[0], q[1], x), q[:2]), interaction(x, zero, zero)))])
    rep(F + "two_qubit_to_cz.py:_xx_yy_interaction_via_full_czs", [
        ("rebuilds exp(i(x XX + y YY)) up to global phase", lambda: proportional_exact(product_unitary(cz._xx_yy_interaction_via_full_czs(q[0], q[1], x, y), q[:2]), interaction(x, y, zero)))])
    rep(F + "two_qubit_to_cz.py:_xx_yy_zz_interaction_via_full_czs", [
        ("rebuilds exp(i(x XX + y YY + z ZZ)) up to global phase", lambda: proportional_exact(product_unitary(cz._xx_yy_zz_interaction_via_full_czs(q[0], q[1], x, y, z), q[:2]), interaction(x, y, z)))])
    rep(F + "two_qubit_to_cz.py:_non_local_part", [
        ("partial CZs allowed: rebuilds exp(i(x XX + y YY + z ZZ)) up to global phase",
         lambda: proportional_exact(product_unitary(cz._non_local_part(q[0], q[1], (x, y, z), True, 1e-8), q[:2]), interaction(x, y, z)))])
    rep(F + "two_qubit_to_ms.py:_non_local_part", [
        ("rebuilds exp(i(x XX + y YY + z ZZ)) up to global phase with Molmer-Sorensen gates",
         lambda: proportional_exact(product_unitary(ms._non_local_part(q[0], q[1], (x, y, z), 1e-8), q[:2]), interaction(x, y, z)))])
    for inv in (True, False):
        rep(F + "two_qubit_to_sqrt_iswap.py:_iswap_symbols_to_sqrt_iswap" + ("" if inv else "[use_sqrt_iswap_inv=False]"), [
            ("rebuilds ISWAP**turns up to global phase", lambda inv=inv: proportional_exact(product_unitary(si._iswap_symbols_to_sqrt_iswap(q[0], q[1], t, inv), q[:2]), gs.iswap_pow(t)))])

    def f_ccnot():
        got = product_unitary(cg._ccnot_congruent(q[0], q[1], q[2]), q)
        ccnot = np.array([[1 if (j == (i ^ 1 if (i >> 1) == 3 else i)) else 0 for i in range(8)] for j in range(8)], dtype=object)
        D = gs._mm(got, ccnot)  # CCNOT is its own inverse
        for i in range(8):
            for j in range(8):
                e = trigpoly._lift(D[i, j])
                if i != j and e.t:
                    return False, f"CCNOT-congruent network times CCNOT has the off-diagonal entry {(i, j)}: {e!r}"
                if i == j and not (e * e.conjugate()).same(TrigPoly.const(1)):
                    return False, f"diagonal entry {i} is not a unit phase: {e!r}"
        return True, ""
    rep(F + "controlled_gate_decomposition.py:_ccnot_congruent", [("is CCNOT up to a diagonal of unit relative phases (exact)", f_ccnot)])
    return reps


ENGINE_CHECKS = [check_interactions]

CANARIES = [
    dict(name="xx_yy_zz: wrong sign of b", file=F + "two_qubit_to_cz.py", engine_check=0,
         find="    c = z * -2 / np.pi + 0.5\n    yield ops.X(q0) ** 0.5", replace="    c = z * 2 / np.pi + 0.5\n    yield ops.X(q0) ** 0.5"),
    dict(name="ms parity interaction: sign of the angle", file=F + "two_qubit_to_ms.py", engine_check=0,
         find="    yield ops.ms(-1 * rads).on(q0, q1)", replace="    yield ops.ms(rads).on(q0, q1)"),
    dict(name="iswap via sqrt-iswap: exponent not halved", file=F + "two_qubit_to_sqrt_iswap.py", engine_check=0,
         find="    yield ops.Z(a) ** (-turns / 2 + 1)\n    yield ops.Z(b) ** (turns / 2)\n    yield _sqrt_iswap_inv(a, b, use_sqrt_iswap_inv)\n    yield ops.Z(a) ** 0.25",
         replace="    yield ops.Z(a) ** (-turns + 1)\n    yield ops.Z(b) ** (turns / 2)\n    yield _sqrt_iswap_inv(a, b, use_sqrt_iswap_inv)\n    yield ops.Z(a) ** 0.25"),
]
NOT_COVERED = ["numeric routines (kak_decomposition, canonicalisation, single-qubit angle extraction, bidiagonalisation, sqrt-iSWAP region logic, cphase->fsim, Shannon, Clifford synthesis): stand-ins",
               "coefficients within atol of 0 or pi/4 (special-cased by the code): stand-in boundary values"]
ASSUMPTIONS = ["trigpoly assumptions of C03; gate matrices are those proved in C03"]
EXPLANATION = ("C15: the parametrised interaction circuits (3-CZ / 2-CZ / 1-CZ forms, partial-CZ and Molmer-Sorensen parity forms, ISWAP**t via two sqrt-iSWAP) and the "
               "relative-phase Toffoli proved for all coefficients with trigpoly; ")
