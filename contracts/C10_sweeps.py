"""C10 — sweeps and parameter resolution.

Deductive: (1) Sweep.__getitem__ integer indexing (index normalisation, IndexError exactly outside [-n, n)) over an abstract
sweep; (2) ownership: SimulationState.copy() is a shallow copy that re-copies only the classical data and the state, so every
other mutable field (the qubit->axis map) must never be mutated in place anywhere in the class (sweep points start from
copies of one simulated prefix).  Everything else is bounded."""
import z3

from pyvc import sym, ownflow
from pyvc.api import Contract, Case
from pyvc.interp import SRec, SIter
from pyvc.sym import SObj, SInt, wrap, obj_kind

F = "cirq-core/cirq/study/sweeps.py"
FS = "cirq-core/cirq/sim/simulation_state.py"

SweepS, ResS = sym.sort("Sweep"), sym.sort("Resolver")
SWLEN = z3.Function("sweep_len", SweepS, z3.IntSort())
ITEM = z3.Function("sweep_item", SweepS, z3.IntSort(), ResS)
SObj.ATTRS["Sweep"] = {"length": lambda o: (lambda: wrap(SWLEN(o.e)))}


def _m_islice(interp, args, kwargs):
    it, a, b = args
    if isinstance(it, SObj) and it.sortname == "Sweep":
        ta, tb = sym.as_int_term(a), sym.as_int_term(b)
        n = z3.If(tb > ta, tb - ta, 0)
        # islice(sweep, a, b): the items a .. min(b, len)-1 of the iteration
        m = z3.If(tb <= SWLEN(it.e), n, z3.If(SWLEN(it.e) > ta, SWLEN(it.e) - ta, 0))
        return SIter(z3.simplify(m), lambda k: SObj(ITEM(it.e, ta + sym.as_int_term(k)), "Resolver"))
    return NotImplemented


def _m_next(interp, args, kwargs):
    from pyvc import paths

    it = args[0]
    if isinstance(it, SIter):
        paths.current().require(it.n >= 1, "safe.next", exc="StopIteration")
        return it.getter(0)
    return NotImplemented


def item(s, i):
    return SObj(ITEM(s.e, sym.as_int_term(i)), "Resolver")


def swlen(s):
    return wrap(SWLEN(s.e))


item._pyvc_native_ok = True
swlen._pyvc_native_ok = True


def _sweep(name):
    from pyvc import paths

    o = sym.fresh_obj("Sweep", "self")
    paths.current().assume(SWLEN(o.e) >= 0)
    return o


Contract(
    F + ":Sweep.__getitem__", "C10",
    cases=[Case("val:int", {"self": _sweep, "val": "int"})],
    ensures=["result == item(self, val if val >= 0 else val + swlen(self))"],
    raises={"IndexError": "val < -swlen(self) or val >= swlen(self)"},
    env={"item": item, "swlen": swlen},
    models={("itertools", "islice"): _m_islice, ("builtins", "next"): _m_next},
    notes="the sweep is abstract: len(self) and the i-th item of its iteration are uninterpreted; slicing is bounded only",
)

OWN = ownflow.OwnSpec("C10", FS, "SimulationState", "copy", fields={"_qubit_map": 1}, shallow_self_copy=True,
                      extra_classes=[("cirq-core/cirq/sim/simulation_product_state.py", "SimulationProductState"),
                                     ("cirq-core/cirq/sim/state_vector_simulation_state.py", "StateVectorSimulationState"),
                                     ("cirq-core/cirq/sim/density_matrix_simulation_state.py", "DensityMatrixSimulationState")])


def own_check():
    return [ownflow.check(OWN)]


ENGINE_CHECKS = [own_check]

CANARIES = [
    dict(name="swap updates the shared qubit map in place", file=FS, engine_check=0, native=False,
         find="        args._set_qubits(qubits)\n        return args\n\n    def rename", replace="        args._qubits = tuple(qubits)\n        args._qubit_map[q1], args._qubit_map[q2] = i2, i1\n        return args\n\n    def rename"),
    dict(name="negative index not wrapped", file=F, function=F + ":Sweep.__getitem__", find="            if val < 0:\n                val += n\n", replace=""),
    dict(name="index bound off by one", file=F, function=F + ":Sweep.__getitem__", find="if val < -n or val >= n:", replace="if val < -n or val > n:"),
]
