"""C03 — every library gate has the matrix its documentation defines, for ALL parameter values (engine: trigpoly).

The REAL `_unitary_` / `_eigen_components` / `_kraus_` code runs on symbolic parameters (exact trigonometric polynomials over
Q(zeta_48)); the result must be identical, as a function of the parameters, to the documented closed form written in
contracts/gate_specs.py (from the class docstrings / textbook definitions, not from the code)."""
import time
from fractions import Fraction

import numpy as np

from pyvc import api, paths, trigpoly
from pyvc.trigpoly import Angle, TrigPoly, matrix_equal
from contracts import gate_specs as gs


def _rep(key, obls, prop="C03"):
    rep = api.FunctionReport.__new__(api.FunctionReport)
    rep.key, rep.prop, rep.sha, rep.dropped, rep.obligations = key, prop, None, ["real method executed on symbolic parameters (nothing dropped)"], obls
    rep.out_of_reach, rep.error, rep.paths, rep.wall, rep.cases, rep.trace = None, None, len(obls), sum(o.ms for o in obls) / 1e3, [], set()
    bad = [o for o in obls if o.status != "proved"]
    rep.status = "proved" if not bad else ("failed" if any(o.status == "failed" for o in bad) else "error")
    if rep.status == "error":
        rep.error = "; ".join(o.detail for o in bad)[:500]
    return rep


def _ob(name, fn, case=None, concrete=None):
    t0 = time.time()
    try:
        ok, detail = fn()
        st = "proved" if ok else "failed"
    except Exception as e:  # engine limit: not a verdict
        st, detail = "error", f"{type(e).__name__}: {e}"
    o = paths.Obligation(name, "engine", st, (time.time() - t0) * 1e3, "trigpoly", detail=detail)
    o.case, o.concrete = case, concrete
    return o


def _src_key(obj, method):
    import inspect

    fn = getattr(type(obj), method)
    rel = "cirq-core/" + inspect.getsourcefile(fn).split("/cirq-core/")[-1] if "/cirq-core/" in inspect.getsourcefile(fn) else inspect.getsourcefile(fn)
    return f"{rel}:{fn.__qualname__}"


class _Generic:
    """comparison context for _unitary_ on symbolic parameters: `param % m == c` takes its generic outcome (False); the
    measure-zero special family is covered by the concrete special values listed per parameter (bounded part)."""

    def decide_undecided(self, what):
        return False

    def decide_poly_equal(self, a, b):
        return False

    def decide_angle_equal(self, a, b):
        return False


def check_unitaries():
    """_unitary_ of each family == documented matrix * documented global phase, for all parameters (all-symbolic) and at specials."""
    import cirq
    from contracts.C04_kernels import _install_shims

    _install_shims()
    specs = {**gs.eigen_families(), **gs.other_families()}
    reps = {}
    for name, sp in specs.items():
        names = list(sp["params"])
        assigns = [{n: Angle.sym(n) for n in names}]
        for n in names:
            for v in sp["params"][n]:
                a = {m: Angle.sym(m) for m in names}
                a[n] = v
                assigns.append(a)
        for a in assigns:
            label = ",".join(f"{n}={'*' if isinstance(v, Angle) else v}" for n, v in a.items())

            def fn(a=a, sp=sp):
                g = sp["make"](**a)
                trigpoly.CTX = _Generic()
                try:
                    U = cirq.unitary(g)
                finally:
                    trigpoly.CTX = None
                sym_a = {n: Angle.of(v) for n, v in a.items()}
                M = np.asarray(sp["matrix"](**sym_a), dtype=object)
                if sp["phase"]:
                    M = M * trigpoly._lift(sp["phase"](**sym_a))
                return matrix_equal(U, M)
            probe = sp["make"](**{n: (sp["params"][n][0] if sp["params"][n] else 1) for n in names})
            key = _src_key(probe, "_unitary_")
            reps.setdefault(key, []).append(_ob(f"C03/{key}#matrix[{name}; {label}]", fn, case=name, concrete={n: repr(v) for n, v in a.items()}))
    return [_rep(k, v) for k, v in reps.items()]


def check_named_constants():
    """named constants equal their families at the documented parameter values (exact matrices)."""
    import cirq

    S2 = trigpoly.Sqrt2(Fraction(1, 2)).as_poly()
    I = TrigPoly.const(1j)
    e = lambda x: Angle.of(x)
    table = {
        "X": (cirq.X, gs.x_pow(e(1))), "Y": (cirq.Y, gs.y_pow(e(1))), "Z": (cirq.Z, gs.z_pow(e(1))), "H": (cirq.H, gs.h_pow(e(1))),
        "S": (cirq.S, gs.z_pow(e(Fraction(1, 2)))), "T": (cirq.T, gs.z_pow(e(Fraction(1, 4)))), "CZ": (cirq.CZ, gs.cz_pow(e(1))),
        "CNOT": (cirq.CNOT, gs.cx_pow(e(1))), "CX": (cirq.CX, gs.cx_pow(e(1))), "SWAP": (cirq.SWAP, gs.swap_pow(e(1))), "ISWAP": (cirq.ISWAP, gs.iswap_pow(e(1))),
        "SQRT_ISWAP": (cirq.SQRT_ISWAP, gs.iswap_pow(e(Fraction(1, 2)))), "SQRT_ISWAP_INV": (cirq.SQRT_ISWAP_INV, gs.iswap_pow(e(Fraction(-1, 2)))),
        "ISWAP_INV": (cirq.ISWAP_INV, gs.iswap_pow(e(-1))), "XX": (cirq.XX, gs.xx_pow(e(1))), "YY": (cirq.YY, gs.yy_pow(e(1))), "ZZ": (cirq.ZZ, gs.zz_pow(e(1))),
        "CCZ": (cirq.CCZ, gs.ccz_pow(e(1))), "CCX": (cirq.CCX, gs.ccx_pow(e(1))), "TOFFOLI": (cirq.TOFFOLI, gs.ccx_pow(e(1))),
        "CSWAP": (cirq.CSWAP, gs._perm_matrix(8, {5: 6, 6: 5})), "FREDKIN": (cirq.FREDKIN, gs._perm_matrix(8, {5: 6, 6: 5})),
        "I": (cirq.I, gs.ID2),
        # textbook matrices written out
        "H (textbook)": (cirq.H, gs.M([[S2, S2], [S2, -S2]])), "Y (textbook)": (cirq.Y, gs.M([[0, -I], [I, 0]])),
        "S (textbook)": (cirq.S, gs.M([[1, 0], [0, I]])), "CNOT (textbook)": (cirq.CNOT, gs._perm_matrix(4, {2: 3, 3: 2})),
        "ISWAP (textbook)": (cirq.ISWAP, gs.M([[1, 0, 0, 0], [0, 0, I, 0], [0, I, 0, 0], [0, 0, 0, 1]])),
        "SWAP (textbook)": (cirq.SWAP, gs._perm_matrix(4, {1: 2, 2: 1})),
    }
    obls = []
    for name, (g, M) in table.items():
        obls.append(_ob(f"C03/cirq-core/cirq/ops[named constants]#constant[{name}]", lambda g=g, M=M: matrix_equal(_exactify(cirq.unitary(g)), M), case=name))
    # Rx/Ry/Rz(rads) = exp(-i rads sigma / 2)
    th = Angle.sym("rads")
    c, s = (th * Fraction(1, 2)).cos(), (th * Fraction(1, 2)).sin()
    rot = {"Rx": (lambda: gs._raw(cirq.Rx, _rads=th, _exponent=th / Angle({("pi",): 1}), _global_shift=Fraction(-1, 2), _canonical_exponent_cached=None, _dimension=2), gs.M([[c, -I * s], [-I * s, c]])),
           "Ry": (lambda: gs._raw(cirq.Ry, _rads=th, _exponent=th / Angle({("pi",): 1}), _global_shift=Fraction(-1, 2), _canonical_exponent_cached=None), gs.M([[c, -s], [s, c]])),
           "Rz": (lambda: gs._raw(cirq.Rz, _rads=th, _exponent=th / Angle({("pi",): 1}), _global_shift=Fraction(-1, 2), _canonical_exponent_cached=None, _dimension=2),
                  gs.M([[(th * Fraction(-1, 2)).cis(), 0], [0, (th * Fraction(1, 2)).cis()]]))}
    for name, (mk, M) in rot.items():
        obls.append(_ob(f"C03/cirq-core/cirq/ops/common_gates.py[rotations]#matrix[{name}(rads=*) == exp(-i rads sigma/2)]", lambda mk=mk, M=M: matrix_equal(cirq.unitary(mk()), M), case=name))
    return [_rep("cirq-core/cirq/ops[named constants and rotations]", obls)]


def _exactify(U):
    out = np.empty(U.shape, dtype=object)
    for idx in np.ndindex(U.shape):
        out[idx] = TrigPoly.const(complex(U[idx]))
    return out


def check_channels():
    """Kraus operators of the single-qubit library channels equal the documented ones and are trace preserving, for all p
    (sqrt(p) enters as an algebraic atom: the channel parameter is written p = r**2 with r symbolic ... handled by squaring)."""
    import cirq

    obls = []
    # K_i^dagger K_i summed is the identity and sum_i K_i rho K_i^dagger matches the documented map; we avoid sqrt by comparing
    # the superoperator sum_i K_i (x) conj(K_i), which is polynomial in p.
    def superop(ks):
        return sum(np.kron(k, k.conj()) for k in ks)

    X, Y, Z, I2 = (cirq.unitary(g) for g in (cirq.X, cirq.Y, cirq.Z, cirq.I))
    docs = {
        "bit_flip(p)": (lambda p: cirq.bit_flip(p), lambda p: (1 - p) * np.kron(I2, I2) + p * np.kron(X, X.conj())),
        "phase_flip(p)": (lambda p: cirq.phase_flip(p), lambda p: (1 - p) * np.kron(I2, I2) + p * np.kron(Z, Z.conj())),
        "depolarize(p)": (lambda p: cirq.depolarize(p), lambda p: (1 - p) * np.kron(I2, I2) + (p / 3) * (np.kron(X, X.conj()) + np.kron(Y, Y.conj()) + np.kron(Z, Z.conj()))),
        "asymmetric_depolarize": (lambda p: cirq.asymmetric_depolarize(p_x=p, p_y=p / 2, p_z=p / 4),
                                  lambda p: (1 - p - p / 2 - p / 4) * np.kron(I2, I2) + p * np.kron(X, X.conj()) + (p / 2) * np.kron(Y, Y.conj()) + (p / 4) * np.kron(Z, Z.conj())),
        "amplitude_damp(g)": (lambda g: cirq.amplitude_damp(g), lambda g: _ad_superop(g)),
        "phase_damp(g)": (lambda g: cirq.phase_damp(g), lambda g: _pd_superop(g)),
    }
    # Pauli-string dictionaries (any key order, identity given or implied, one and two qubits): documented as "probability p(k) of
    # applying the Pauli string k"
    P = {"I": I2, "X": X, "Y": Y, "Z": Z}

    def pauli_superop(d):
        d = dict(d)
        n = len(next(iter(d)))
        if "I" * n not in d:
            d["I" * n] = 1 - sum(d.values())
        tot = 0
        for k, pr in d.items():
            m = np.eye(1)
            for ch in k:
                m = np.kron(m, P[ch])
            tot = tot + pr * np.kron(m, m.conj())
        return tot

    for label, mkd in (("{Z: p}", lambda p: {"Z": p}), ("{Y: p, X: p/2}", lambda p: {"Y": p, "X": p / 2}), ("{XZ: p}", lambda p: {"XZ": p}), ("{ZI: p, IX: p/3}", lambda p: {"ZI": p, "IX": p / 3}),
                       ("{ZZ: p/2, II: 1-p, XY: p/2}", lambda p: {"ZZ": p / 2, "II": 1 - p, "XY": p / 2}), ("{I: 1-p, Z: p}", lambda p: {"I": 1 - p, "Z": p})):
        docs[f"asymmetric_depolarize(error_probabilities={label})"] = (lambda p, mkd=mkd: cirq.asymmetric_depolarize(error_probabilities=mkd(p)), lambda p, mkd=mkd: pauli_superop(mkd(p)))
    grid = [0.0, 0.1, 0.25, 0.5, 0.37, 0.75]
    for name, (mk, doc) in docs.items():
        for p in grid:
            if name == "asymmetric_depolarize" and p > 0.5:
                continue
            if "error_probabilities" in name and p * 1.5 > 1:
                continue  # the probabilities would exceed one: rejected by the constructor, as documented

            def fn(mk=mk, doc=doc, p=p):
                ks = cirq.kraus(mk(p))
                ok = np.allclose(superop(ks), doc(p), atol=1e-9) and np.allclose(sum(k.conj().T @ k for k in ks), np.eye(len(ks[0])), atol=1e-9)
                ch = mk(p)
                if ok and cirq.has_mixture(ch):
                    mix = cirq.mixture(ch)
                    ok = abs(sum(q for q, _ in mix) - 1) < 1e-9 and np.allclose(sum(q * np.kron(u, u.conj()) for q, u in mix), doc(p), atol=1e-9)
                return ok, "" if ok else f"Kraus operators of {name} at p={p} differ from the documented channel or are not trace preserving"
            obls.append(_ob(f"C03/cirq-core/cirq/ops/common_channels.py#kraus[{name}; p={p}]", fn, case=name))
    for o in obls:
        o.backend = "numeric-grid (bounded; listed under bounded_standins semantics)"
    return [_rep("cirq-core/cirq/ops/common_channels.py[kraus closed forms — BOUNDED grid, not symbolic]", obls)]


def _ad_superop(g):
    k0 = np.array([[1, 0], [0, np.sqrt(1 - g)]])
    k1 = np.array([[0, np.sqrt(g)], [0, 0]])
    return np.kron(k0, k0) + np.kron(k1, k1)


def _pd_superop(g):
    k0 = np.array([[1, 0], [0, np.sqrt(1 - g)]])
    k1 = np.array([[0, 0], [0, np.sqrt(g)]])
    return np.kron(k0, k0) + np.kron(k1, k1)


ENGINE_CHECKS = [check_unitaries, check_named_constants]


def standin_channels(tier, seed):
    reps = check_channels()
    obls = reps[0].obligations
    fails = [dict(args=dict(channel=o.case), failed="kraus", clause=o.detail) for o in obls if o.status != "proved"]
    return dict(function="cirq-core/cirq/ops/common_channels.py[kraus vs documented channel]", case="channels",
                bound="6 single-qubit channels and 6 Pauli-dictionary channels (1-2 qubits, unsorted / implied identity) x 6 parameter values; Kraus and mixture", cases=len(obls), distinct=len(obls), failures=len(fails), exhaustive=False, _fails=fails[:3])
standin_channels.prop = "C03"


def standin_numeric_grid(tier, seed):
    """numeric cross-check of the same specs (guards the symbolic engine itself) and of families without a symbolic spec"""
    import random
    import cirq

    rng = random.Random(seed)
    specs = {**gs.eigen_families(), **gs.other_families()}
    cases, fails = 0, []
    for name, sp in specs.items():
        for _ in range(6 if tier == "quick" else 60):
            vals = {n: rng.choice([0.37, -1.3, 0.5, 1.0, 2.25, -0.25, 3.0]) for n in sp["params"]}
            try:
                g = sp["make"](**vals)
                U = cirq.unitary(g)
            except Exception:
                continue
            sym = {n: Angle.sym(n) for n in vals}
            M = trigpoly.numeric(sp["matrix"](**sym), vals)
            if sp["phase"]:
                M = M * trigpoly.numeric(np.array([[sp["phase"](**sym)]], dtype=object), vals)[0, 0]
            cases += 1
            if not np.allclose(U, M, atol=1e-8):
                fails.append(dict(args=dict(gate=name, parameters=vals), failed="matrix", clause=f"cirq.unitary({name}{vals}) differs from the documented matrix"))
    return dict(function="cirq-core/cirq/ops[unitary vs documented matrix, numeric]", case="numeric-grid",
                bound="17 families x 6 (quick) / 60 (thorough) seeded parameter tuples from a 7-value grid", cases=cases, distinct=cases, failures=len(fails),
                exhaustive=False, _fails=fails[:3])
standin_numeric_grid.prop = "C03"

def standin_probabilistic_gates(tier, seed):
    """gate.with_probability(p): Kraus operators and mixture describe rho -> p E(rho) + (1 - p) rho, for qubit and qudit sub-gates, nested too"""
    import cirq

    cases, fails = 0, []
    shift3 = cirq.MatrixGate(np.roll(np.eye(3), 1, axis=0), qid_shape=(3,))
    subs = [cirq.X, cirq.H, cirq.CZ, cirq.bit_flip(0.2), cirq.amplitude_damp(0.3), cirq.XPowGate(dimension=3), cirq.ZPowGate(dimension=3) ** 0.5, cirq.ZPowGate(dimension=4), shift3,
            cirq.IdentityGate(2, qid_shape=(2, 3)), cirq.ResetChannel(3), cirq.MatrixGate(np.kron(np.roll(np.eye(3), 1, axis=0), np.array([[0, 1], [1, 0]])), qid_shape=(3, 2))]

    def sup(ks):
        return sum(np.kron(k, np.conj(k)) for k in ks)

    for sub in subs:
        d = int(np.prod(cirq.qid_shape(sub)))
        S_sub = sup(cirq.kraus(sub))
        for p in (0.25, 0.5, 0.9):
            for nested in (False, True):
                g = sub.with_probability(p)
                want = p * S_sub + (1 - p) * np.eye(d * d)
                if nested:
                    outer = {0.25: 0.5, 0.5: 0.3, 0.9: 0.8}[p]          # (never the same probability twice: b * b is not a * b)
                    g = g.with_probability(outer)
                    want = outer * want + (1 - outer) * np.eye(d * d)
                cases += 1
                try:
                    ks = cirq.kraus(g)
                    if any(np.shape(k) != (d, d) for k in ks) or not np.allclose(sup(ks), want, atol=1e-9):
                        fails.append(dict(args=dict(gate=repr(g)[:300]), failed="probabilistic-gate-kraus", clause="kraus(gate.with_probability(p)) is not p E + (1 - p) identity on the gate's own dimension"))
                    if cirq.has_mixture(g):
                        mix = cirq.mixture(g)
                        if any(np.shape(u) != (d, d) for _, u in mix) or not np.allclose(sum(q_ * np.kron(u, np.conj(u)) for q_, u in mix), want, atol=1e-9) or abs(sum(q_ for q_, _ in mix) - 1) > 1e-9:
                            fails.append(dict(args=dict(gate=repr(g)[:300]), failed="probabilistic-gate-mixture", clause="mixture(gate.with_probability(p)) is not p E + (1 - p) identity on the gate's own dimension"))
                except Exception as ex:
                    fails.append(dict(args=dict(gate=repr(g)[:300]), failed="probabilistic-gate-raised", clause=f"kraus / mixture raised {ex!r}"))
    seen, uniq = set(), []
    for f in fails:
        if f["failed"] not in seen:
            seen.add(f["failed"])
            uniq.append(f)
    return dict(function="cirq-core/cirq/ops/random_gate_channel.py:RandomGateChannel", case="probabilistic-gates", bound="12 sub-gates (qubits, qutrits, a ququart, mixed shapes, channels) x 3 probabilities x plain / nested",
                cases=cases, distinct=cases, failures=len(fails), exhaustive=True, _fails=uniq[:3])
standin_probabilistic_gates.prop = "C03"

def standin_other_gates(tier, seed):
    """gates defined by a rule rather than a closed form: the unitary equals the rule evaluated by brute force"""
    import itertools
    import random

    import cirq

    rng = random.Random(seed + 2)
    cases, fails = 0, []

    def bad(what, **kw):
        fails.append(dict(args={k: repr(v)[:300] for k, v in kw.items()}, failed=what, clause=what))

    # BooleanHamiltonianGate: diagonal, phase linear in the NUMBER of expressions that are true (documentation gives t/2 and -t in
    # different places; any of +-t/2, +-t is accepted, up to global phase)
    exprs_list = [["a"], ["a & b"], ["a ^ b"], ["a ^ b", "b ^ c"], ["a & b", "b & c"], ["a", "a & b"], ["a | b", "a & c", "b ^ c"], ["a & b", "a & b"], ["~a", "a | ~b"], ["a & b & c", "a & b"]]
    for exprs in exprs_list:
        names = sorted({ch for e in exprs for ch in e if ch.isalpha()})
        for theta in (0.3, 1.1, -0.7):
            cases += 1
            g = cirq.BooleanHamiltonianGate(names, exprs, theta)
            U = cirq.unitary(g)
            counts = []
            for bits in itertools.product((0, 1), repeat=len(names)):
                env = dict(zip(names, map(bool, bits)))
                counts.append(sum(bool(eval(e.replace("~", " not ").replace("&", " and ").replace("|", " or ").replace("^", " != "), {}, env)) for e in exprs))
            ok = False
            for alpha in (theta / 2, -theta / 2, theta, -theta):
                want = np.diag(np.exp(1j * alpha * np.array(counts)))
                ok = ok or cirq.allclose_up_to_global_phase(U, want, atol=1e-7)
            if not ok:
                bad("BooleanHamiltonianGate is not the diagonal whose phase counts the true expressions", parameter_names=names, boolean_strs=exprs, theta=theta)
    for n in (1, 2, 3, 4):
        for wr in (False, True):
            cases += 1
            U = cirq.unitary(cirq.QuantumFourierTransformGate(n, without_reverse=wr))
            N = 2 ** n
            F_ = np.array([[np.exp(2j * np.pi * j * k / N) for k in range(N)] for j in range(N)]) / np.sqrt(N)
            if wr:  # without the final reversal the output bits come out reversed
                rev = [int(format(i, f"0{n}b")[::-1], 2) for i in range(N)]
                F_ = F_[rev, :]
            if not np.allclose(U, F_, atol=1e-8):
                bad("QuantumFourierTransformGate differs from the DFT matrix", n=n, without_reverse=wr)
        for e in (1, 0.5, -0.3):
            cases += 1
            U = cirq.unitary(cirq.PhaseGradientGate(num_qubits=n, exponent=e))
            if not np.allclose(U, np.diag([np.exp(2j * np.pi * e * k / 2 ** n) for k in range(2 ** n)]), atol=1e-8):
                bad("PhaseGradientGate differs from diag(exp(2 pi i e k / 2^n))", n=n, exponent=e)
        # the same gate reached through a power, an inverse or a resolved symbol (the exponent's period is 2^n, not 2)
        import sympy
        grad = lambda ex: np.diag([np.exp(2j * np.pi * ex * k / 2 ** n) for k in range(2 ** n)])
        for e0, t in ((1, -1), (1, 2), (0.5, 3), (1, 2 ** n - 1), (0.25, -5), (1, 0.5), (-0.75, 2)):
            cases += 1
            g0 = cirq.PhaseGradientGate(num_qubits=n, exponent=e0)
            for how, g in (("**", g0 ** t), ("resolve", cirq.resolve_parameters(cirq.PhaseGradientGate(num_qubits=n, exponent=e0 * sympy.Symbol("t")), {"t": t})),
                           ("resolve 2^(n-1) t", cirq.resolve_parameters(cirq.PhaseGradientGate(num_qubits=n, exponent=2 ** (n - 1) * sympy.Symbol("t")), {"t": e0 * t}))):
                want = grad(e0 * t) if how != "resolve 2^(n-1) t" else grad(2 ** (n - 1) * e0 * t)
                if not np.allclose(cirq.unitary(g), want, atol=1e-8):
                    bad(f"PhaseGradientGate reached through {how} differs from diag(exp(2 pi i e k / 2^n)) at the resulting exponent", n=n, exponent=e0, factor=t)
            if t == -1 and not np.allclose(cirq.unitary(cirq.inverse(g0)), grad(-e0), atol=1e-8):
                bad("inverse of PhaseGradientGate differs from the gate at the negated exponent", n=n, exponent=e0)
    for n in (1, 2, 3):
        ang = [rng.uniform(-3, 3) for _ in range(2 ** n)]
        cases += 1
        g = {1: cirq.DiagonalGate, 2: cirq.TwoQubitDiagonalGate, 3: cirq.ThreeQubitDiagonalGate}[n](ang)
        if not np.allclose(cirq.unitary(g), np.diag(np.exp(1j * np.array(ang))), atol=1e-8):
            bad(f"{type(g).__name__} differs from diag(exp(i angles))", angles=ang)
        if not np.allclose(cirq.unitary(cirq.DiagonalGate(ang)), np.diag(np.exp(1j * np.array(ang))), atol=1e-8):
            bad("DiagonalGate differs from diag(exp(i angles))", angles=ang)
    for perm in itertools.chain(itertools.permutations(range(3)), [(1, 0), (0, 1), (2, 0, 3, 1)]):
        cases += 1
        n = len(perm)
        U = cirq.unitary(cirq.QubitPermutationGate(list(perm)))
        want = np.zeros((2 ** n, 2 ** n))
        for bits in itertools.product((0, 1), repeat=n):
            out = [0] * n
            for i, b in enumerate(bits):
                out[perm[i]] = b  # documented: the state of qubit i moves to qubit permutation[i]
            want[int("".join(map(str, out)), 2), int("".join(map(str, bits)), 2)] = 1
        if not np.allclose(U, want):
            bad("QubitPermutationGate does not move qubit i to position permutation[i]", permutation=perm)
    for m, n in ((1, 1), (2, 1), (3, 2), (5, 3), (8, 3), (6, 3)):
        cases += 1
        col = cirq.unitary(cirq.UniformSuperpositionGate(m, n))[:, 0]
        want = np.array([1 / np.sqrt(m)] * m + [0] * (2 ** n - m))
        if not np.allclose(np.abs(col), want, atol=1e-8):
            bad("UniformSuperpositionGate does not map |0..0> to the uniform superposition of the first m states", m=m, n=n)
    seen, uniq = set(), []
    for f in fails:
        if f["failed"] not in seen:
            seen.add(f["failed"])
            uniq.append(f)
    return dict(function="cirq-core/cirq/ops[rule-defined gates: boolean Hamiltonian, QFT, phase gradient, diagonal, permutation, uniform superposition]", case="other-gates",
                bound="10 expression lists x 3 angles; QFT / phase gradient on 1-4 qubits; diagonal gates on 1-3 qubits; all permutations of 3 (+3); 6 uniform superpositions",
                cases=cases, distinct=cases, failures=len(fails), exhaustive=False, _fails=uniq[:4])
standin_other_gates.prop = "C03"
def standin_placements(tier, seed):
    """multi-qubit library gates placed on qubits in every order and of every kind (line, grid, line qudits of dimension 2, named): expanding the
    operation by its own decomposition gives the gate's matrix (up to global phase) whatever the placement (some gates choose their decomposition
    by the adjacency of the qubits they are placed on)"""
    import itertools

    import cirq

    cases, fails = 0, []
    gates = [cirq.CSWAP, cirq.CCZ, cirq.CCX, cirq.CCZ ** 0.3, cirq.CCX ** -0.4, cirq.SWAP, cirq.SWAP ** 0.5, cirq.ISWAP, cirq.ISWAP ** 0.3, cirq.CNOT ** 0.7, cirq.CZ ** 0.2, cirq.FSimGate(0.4, 0.9), cirq.PhasedFSimGate(0.3, 0.2, 0.5, 0.1, 0.7),
             cirq.XX ** 0.3, cirq.YY ** 0.4, cirq.ZZ ** 0.6, cirq.PhasedISwapPowGate(phase_exponent=0.2, exponent=0.6), cirq.givens(0.7), cirq.QuantumFourierTransformGate(3), cirq.PhaseGradientGate(num_qubits=3, exponent=0.4),
             cirq.ThreeQubitDiagonalGate([0.1, 0.2, 0.3, 0.5, 0.7, 1.1, 1.3, 1.7]), cirq.DiagonalGate([0.2, 0.5, 0.9, 1.4]), cirq.QubitPermutationGate([2, 0, 1]), cirq.ControlledGate(cirq.ISWAP ** 0.5), cirq.ControlledGate(cirq.Y ** 0.3, num_controls=2),
             cirq.MatrixGate(cirq.testing.random_unitary(4, random_state=3)), cirq.MatrixGate(cirq.testing.random_unitary(8, random_state=4))]
    for g in gates:
        n = cirq.num_qubits(g)
        want = cirq.unitary(g)
        families = {"line": cirq.LineQubit.range(n), "spread line": [cirq.LineQubit(3 * i) for i in range(n)], "grid row": [cirq.GridQubit(0, i) for i in range(n)], "grid corner": [cirq.GridQubit(0, 0), cirq.GridQubit(1, 0), cirq.GridQubit(1, 1)][:n],
                    "line qids": cirq.LineQid.range(n, dimension=2), "named": [cirq.NamedQubit(x) for x in "bca"[:n]]}
        for (fname, pool), perm in itertools.product(families.items(), itertools.permutations(range(n))):
            qs = [pool[i] for i in perm]
            cases += 1
            op = g.on(*qs)
            try:
                flat = cirq.Circuit(cirq.decompose_once(op, default=[op]))
                got = flat.unitary(qubit_order=qs, qubits_that_should_be_present=qs)
                deep = cirq.Circuit(cirq.decompose(op)).unitary(qubit_order=qs, qubits_that_should_be_present=qs)
            except Exception as ex:
                fails.append(dict(args=dict(gate=repr(g), qubits=repr(qs)), failed="placement-raised", clause=f"decomposing {g!r} on {fname} qubits in order {perm} raised {ex!r}"))
                continue
            for label, m in (("decompose_once", got), ("decompose", deep)):
                if not cirq.allclose_up_to_global_phase(m, want, atol=1e-6):
                    fails.append(dict(args=dict(gate=repr(g), qubits=repr(qs), family=fname, order=list(perm)), failed="placement-decomposition", clause=f"{label} of {g!r} placed on {fname} qubits in order {perm} is not the gate's matrix (up to global phase)"))
                    break
    seen, uniq = set(), []
    for f_ in fails:
        if f_["args"]["gate"] not in seen:
            seen.add(f_["args"]["gate"])
            uniq.append(f_)
    return dict(function="cirq-core/cirq/ops/*[decompositions of multi-qubit gates by placement]", case="placements", bound=f"{len(gates)} two-/three-qubit gates x 6 qubit families x every order of the qubits",
                cases=cases, distinct=cases, failures=len(uniq), exhaustive=True, _fails=uniq[:4])
standin_placements.prop = "C03"


STANDINS = [standin_channels, standin_numeric_grid, standin_other_gates, standin_probabilistic_gates, standin_placements]


def _replay(ob, seed):
    """numeric witness for a failed matrix obligation: the obligation's concrete parameter values, random values for the symbolic ones"""
    import random
    import cirq
    from fractions import Fraction

    if not str(ob.backend).startswith("trigpoly") or not ob.case:
        return None
    from contracts.C04_kernels import _install_shims
    _install_shims()
    specs = {**gs.eigen_families(), **gs.other_families()}
    sp = specs.get(ob.case)
    if sp is None:
        return None
    rng = random.Random(seed)
    conc = ob.concrete or {}
    for _ in range(40):
        vals = {}
        for n in sp["params"]:
            r = conc.get(n, "")
            try:
                v = eval(r, {"Fraction": Fraction, "__builtins__": {}})
                vals[n] = float(v)
            except Exception:
                vals[n] = rng.choice([0.37, -1.3, 0.5, 1.0, 2.25, -0.25, 0.123])
        try:
            U = cirq.unitary(sp["make"](**vals))
        except Exception:
            continue
        sym = {n: Angle.sym(n) for n in vals}
        M = trigpoly.numeric(sp["matrix"](**sym), vals)
        if sp["phase"]:
            M = M * trigpoly.numeric(np.array([[sp["phase"](**sym)]], dtype=object), vals)[0, 0]
        if not np.allclose(U, M, atol=1e-8):
            return dict(args=dict(gate=ob.case, parameters=vals), failed="matrix", clause=f"cirq.unitary({ob.case} with {vals}) differs from the documented matrix "
                        f"(max abs diff {float(np.max(np.abs(U - M))):.3g})")
    return None


REPLAYERS = {"cirq-core/cirq/ops": _replay}

CANARIES = [
    dict(name="YPowGate eigen component sign", file="cirq-core/cirq/ops/common_gates.py", engine_check=0,
         find="            (0, np.array([[0.5, -0.5j], [0.5j, 0.5]])),\n            (1, np.array([[0.5, 0.5j], [-0.5j, 0.5]])),",
         replace="            (0, np.array([[0.5, 0.5j], [-0.5j, 0.5]])),\n            (1, np.array([[0.5, -0.5j], [0.5j, 0.5]])),"),
    dict(name="FSim off-diagonal sign in _unitary_", file="cirq-core/cirq/ops/fsim_gate.py", engine_check=0,
         find="        b = -1j * math.sin(self.theta)\n        c = cmath.exp(-1j * self.phi)\n        # fmt: off\n        return np.array(\n            [\n                [1, 0, 0, 0],\n                [0, a, b, 0],",
         replace="        b = 1j * math.sin(self.theta)\n        c = cmath.exp(-1j * self.phi)\n        # fmt: off\n        return np.array(\n            [\n                [1, 0, 0, 0],\n                [0, a, b, 0],"),
    dict(name="EigenGate formula uses shift without exponent", file="cirq-core/cirq/ops/eigen_gate.py", engine_check=0,
         find="1j ** (2 * e * (half_turns + self._global_shift))", replace="1j ** (2 * (e * half_turns + self._global_shift))"),
]
NOT_COVERED = [
    "channels: Kraus closed forms only on a numeric grid (sqrt(p) atoms not implemented); mixtures, reset, generalized amplitude damping: not covered",
    "families without a symbolic spec here: XX/YY/ZZ kernels aside, MatrixGate, DiagonalGate, QFT, permutation, arithmetic, BooleanHamiltonian, "
    "UniformSuperposition, StatePreparation, PauliInteraction, cirq_google SYC/WILLOW, cirq_ionq native gates: bounded (C04 protocol stand-in) or not at all",
    "sympy-parameterized gates; canonicalisation of parameters in constructors (symbolic parameters bypass FSimGate/PhasedFSimGate.__init__)",
]
ASSUMPTIONS = [
    "float-as-real with recognition of the constants of Q(zeta_48); numpy object-array arithmetic is element-wise",
    "a parameter product (exponent*global_shift) is treated as an independent atom (sound, possibly incomplete)",
    "the documented matrices in contracts/gate_specs.py are transcribed correctly from the docstrings",
]
EXPLANATION = ("C03: the real _unitary_/_eigen_components code of 17 gate families is executed on symbolic parameters and proved identical to "
               "the documented closed forms for all real parameter values (exact trig-polynomial arithmetic); named constants and rotations too. ")


def check_vendor_native_gates():
    """IonQ's native gates (cirq_ionq.GPIGate / GPI2Gate / MSGate / ZZGate are gate classes of the library too): the real `_unitary_` on symbolic
    phases / angles equals the matrix IonQ documents (transcribed in contracts/C17_serializer.ionq_matrix), exactly, for all parameter values."""
    import cirq
    import cirq_ionq
    import cirq_ionq.ionq_native_gates as ng
    from contracts.C04_kernels import _CmathShim, _MathShim
    from contracts.C17_serializer import ionq_matrix

    ng.cmath, ng.math = _CmathShim(), _MathShim()
    fams = [
        ("GPIGate", ["phi"], lambda phi: cirq_ionq.GPIGate(phi=phi), lambda phi: dict(gate="gpi", phase=phi)),
        ("GPI2Gate", ["phi"], lambda phi: cirq_ionq.GPI2Gate(phi=phi), lambda phi: dict(gate="gpi2", phase=phi)),
        ("MSGate", ["phi0", "phi1", "theta"], lambda phi0, phi1, theta: cirq_ionq.MSGate(phi0=phi0, phi1=phi1, theta=theta), lambda phi0, phi1, theta: dict(gate="ms", phases=[phi0, phi1], angle=theta)),
        ("ZZGate", ["theta"], lambda theta: cirq_ionq.ZZGate(theta=theta), lambda theta: dict(gate="zz", phase=theta)),
    ]
    obls = []
    for name, params, mk, entry in fams:
        assigns = [{p: Angle.sym(p) for p in params}] + [{p: (v if p == q_ else Angle.sym(p)) for p in params} for q_ in params for v in (0, Fraction(1, 4), Fraction(1, 2), Fraction(-1, 4))]
        for a in assigns:
            label = ",".join(f"{p}={'*' if isinstance(v, Angle) else v}" for p, v in a.items())

            def fn(a=a, mk=mk, entry=entry):
                trigpoly.CTX = _Generic()
                try:
                    U = np.asarray(cirq.unitary(mk(**a)), dtype=object)
                finally:
                    trigpoly.CTX = None
                return matrix_equal(U, np.asarray(ionq_matrix(entry(**a)), dtype=object))
            obls.append(_ob(f"C03/cirq-ionq/cirq_ionq/ionq_native_gates.py:{name}._unitary_#matrix[{label}]", fn, case=name, concrete={p: repr(v) for p, v in a.items()}))
    return [_rep("cirq-ionq/cirq_ionq/ionq_native_gates.py:native gates[_unitary_]", obls, "C03")]


ENGINE_CHECKS = list(ENGINE_CHECKS) + [check_vendor_native_gates]
