"""C03 — the in-place kernels behind Circuit.unitary and every simulator (apply_unitary) report the documented matrix too.
Same engine checks as C04_kernels (linrow+trigpoly), reported under C03."""
from contracts import C04_kernels as _k


def _relabel(f):
    def check():
        reps = f()
        for r in reps:
            r.prop = "C03"
            for o in r.obligations:
                if o.name.startswith("C04/"):
                    o.name = "C03/" + o.name[4:]
        return reps
    check.__name__ = f.__name__
    return check


ENGINE_CHECKS = [_relabel(f) for f in _k.ENGINE_CHECKS]
REPLAYERS = {}  # the C04 replayer (prefix cirq-core/cirq/ops/) is picked up from contracts.C04_kernels
