"""C18 — integer / bit / digit conversions (cirq-core/cirq/value/digits.py).

Spec functions are the mathematical definitions of a big-endian mixed-radix numeral; the real
functions are proved equal to them for every length and every value (Python ints are unbounded, so
>64-bit registers are the general case)."""
from pyvc.api import Contract, Case, Lemma, spec, at

F = "cirq-core/cirq/value/digits.py"


@spec(["seq[int]", "int"], "int")
def bitsval(bits, k):
    """value of the first k big-endian bits (a bit is 1 iff the element is truthy)"""
    return 0 if k <= 0 else 2 * bitsval(bits, k - 1) + (1 if at(bits, k - 1) != 0 else 0)


@spec(["seq[int]", "seq[int]", "int"], "int")
def digval(ds, bs, k):
    """value of the first k big-endian digits ds in the per-digit bases bs"""
    return 0 if k <= 0 else digval(ds, bs, k - 1) * at(bs, k - 1) + at(ds, k - 1)


@spec(["seq[int]", "int", "int"], "int")
def valc(ds, b, k):
    """value of the first k big-endian digits ds in the constant base b"""
    return 0 if k <= 0 else valc(ds, b, k - 1) * b + at(ds, k - 1)


@spec(["seq[int]", "int"], "int")
def prod(bs, k):
    return 1 if k <= 0 else prod(bs, k - 1) * at(bs, k - 1)


@spec(["seq[int]", "int", "int"], "int")
def sufprod(bs, n, k):
    """product of the last k of the n bases"""
    return 1 if k <= 0 else sufprod(bs, n, k - 1) * at(bs, n - k)


@spec(["seq[int]", "seq[int]", "int", "int"], "int")
def sufval_le(le, bs, n, k):
    """value of the k least significant digits, digits given little-endian (le[0] least significant)"""
    return 0 if k <= 0 else sufval_le(le, bs, n, k - 1) + at(le, k - 1) * sufprod(bs, n, k - 1)


@spec(["seq[int]", "seq[int]", "int", "int"], "int")
def sufval(ds, bs, n, k):
    """value of the k least significant digits, digits given big-endian (ds[n-1] least significant)"""
    return 0 if k <= 0 else sufval(ds, bs, n, k - 1) + at(ds, n - k) * sufprod(bs, n, k - 1)


ENV = dict(bitsval=bitsval, digval=digval, valc=valc, prod=prod, sufprod=sufprod, sufval_le=sufval_le, sufval=sufval)

# val (Horner, most significant first) splits into a prefix value times the weight of the suffix plus the suffix value
Lemma("val_split", "C18", params={"ds": "seq[int]", "bs": "seq[int]", "n": "nat"}, index="k", bound="n",
      claim="digval(ds, bs, n) == digval(ds, bs, n - k) * sufprod(bs, n, k) + sufval(ds, bs, n, k)", env=ENV)

# the little-endian accumulation of the loop equals the big-endian suffix value of the reversed list
Lemma("le_is_reversed", "C18", params={"le": "seq[int]", "ds": "seq[int]", "bs": "seq[int]", "n": "nat"},
      requires=["all(at(ds, j) == at(le, n - 1 - j) for j in range(n))"], index="k", bound="n",
      claim="sufval_le(le, bs, n, k) == sufval(ds, bs, n, k)", env=ENV)

# the little-endian accumulation over the first k digits does not depend on later list elements (frame for append)
Lemma("sufval_le_frame", "C18", params={"a": "seq[int]", "b": "seq[int]", "bs": "seq[int]", "n": "nat", "m": "nat"},
      requires=["all(at(a, j) == at(b, j) for j in range(m))"], index="k", bound="m",
      claim="sufval_le(a, bs, n, k) == sufval_le(b, bs, n, k)", env=ENV)

# weights are positive and a suffix of in-range digits is smaller than its weight
Lemma("suffix_bounds", "C18", params={"le": "seq[int]", "bs": "seq[int]", "n": "nat"},
      requires=["all(at(bs, j) >= 1 for j in range(n))", "all(0 <= at(le, j) < at(bs, n - 1 - j) for j in range(n))"],
      index="k", bound="n",
      claim="sufprod(bs, n, k) >= 1 and 0 <= sufval_le(le, bs, n, k) < sufprod(bs, n, k)", env=ENV)

Contract(
    F + ":big_endian_bits_to_int", "C18",
    params={"bits": "seq[int]"},
    ensures=["result == bitsval(bits, len(bits))", "result >= 0"],
    loops={0: dict(index="k", inv=["result == bitsval(bits, k)", "result >= 0"])},
    env=ENV,
)

Contract(
    F + ":big_endian_int_to_bits", "C18",
    params={"val": "int", "bit_count": "nat"},
    ensures=[
        "len(result) == bit_count",
        "all(result[i] == (val // 2 ** (bit_count - 1 - i)) % 2 for i in range(bit_count))",
    ],
    result="list[bit]",
    env=ENV,
)

Contract(
    F + ":big_endian_digits_to_int", "C18",
    cases=[
        Case("base:int", {"digits": "seq[int]", "base": "int"},
             ensures=["result == valc(digits, base, len(digits))", "result >= 0"],
             raises={"ValueError": "any(not (0 <= digits[i] < base) for i in range(len(digits)))"},
             loops={0: dict(index="k", inv=["result == valc(digits, old_base, k)", "result >= 0",
                                            "all(0 <= digits[i] < old_base for i in range(k))"])}),
        Case("base:seq", {"digits": "seq[int]", "base": "seq[int]"},
             ensures=["result == digval(digits, base, len(digits))", "result >= 0"],
             raises={"ValueError": "len(digits) != len(base) or any(not (0 <= digits[i] < base[i]) for i in range(len(digits)))"},
             loops={0: dict(index="k", inv=["result == digval(digits, base, k)", "result >= 0", "len(digits) == len(base)",
                                            "all(0 <= digits[i] < base[i] for i in range(k))"])}),
    ],
    result="nat",
    env=ENV,
)


_I2D_LOOP = {0: dict(index="k", kinds={"result": "list[int]"}, uses=["sufval_le_frame(result_head, result, BS, N, k) @ k"], inv=[
    "len(result) == k",
    "len(base) == N",
    "old_val == val * sufprod(BS, N, k) + sufval_le(result, BS, N, k)",
    "all(0 <= result[j] < BS[N - 1 - j] for j in range(k))",
])}
_I2D_ENS = [
    "len(result) == N",
    "all(0 <= result[i] < BS[i] for i in range(N))",
    "digval(result, BS, N) == val",
]
_OUT_OF_RANGE = "not (0 <= val < sufprod(BS, N, N))"

Contract(
    F + ":big_endian_int_to_digits", "C18",
    cases=[
        Case("base:int", {"val": "int", "digit_count": "nat", "base": "pos"},
             requires=["not (digit_count != 0 and base == 2)"],
             lets={"N": "digit_count", "BS": "(base,) * digit_count"},
             ensures=_I2D_ENS, raises={"ValueError": _OUT_OF_RANGE}, loops=_I2D_LOOP),
        Case("base:seq", {"val": "int", "digit_count": "none", "base": "seq[pos]"},
             lets={"N": "len(base)", "BS": "base"},
             ensures=_I2D_ENS, raises={"ValueError": _OUT_OF_RANGE}, loops=_I2D_LOOP),
        Case("base:seq,digit_count", {"val": "int", "digit_count": "int", "base": "seq[pos]"},
             lets={"N": "len(base)", "BS": "base"},
             ensures=_I2D_ENS, raises={"ValueError": "digit_count != len(base) or " + _OUT_OF_RANGE}, loops=_I2D_LOOP),
    ],
    result="list[int]",
    uses=["suffix_bounds(result_after0, BS, N) @ N"],
    post_uses=["le_is_reversed(result_after0, result, BS, N) @ N", "val_split(result, BS, N) @ N"],
    env=ENV,
    notes="the `digit_count and base == 2` fast path through bin() is outside the verified fragment (string code); "
          "it is covered by the bounded stand-in only",
)

# ---- round trips: client code over the two contracts (checked modularly: callee bodies are not consulted) ----
from cirq.value.digits import big_endian_digits_to_int, big_endian_int_to_digits, big_endian_int_to_bits, big_endian_bits_to_int


def roundtrip_int_digits_int(v, bs):
    ds = big_endian_int_to_digits(v, base=bs)
    return big_endian_digits_to_int(ds, base=bs)


Contract(
    "verif:contracts/C18_digits.py:roundtrip_int_digits_int", "C18",
    params={"v": "int", "bs": "seq[pos]"},
    ensures=["result == v"],
    raises={"ValueError": "not (0 <= v < sufprod(bs, len(bs), len(bs)))"},
    env=ENV,
    notes="lemma over the contracts of big_endian_int_to_digits and big_endian_digits_to_int: digits_to_int(int_to_digits(v)) == v",
)

# ---- bounded stand-ins (native contract evaluation; never counted as proved) --------------------------
import itertools as _it
import random as _random


def _gen_bits(tier, seed):
    for n in range(0, 7 if tier == "quick" else 10):
        for t in _it.product((0, 1), repeat=n):
            yield {"bits": t}
    rng = _random.Random(seed)
    for _ in range(50):
        yield {"bits": tuple(rng.choice((0, 1, 2, True, False)) for _ in range(rng.randrange(60, 200)))}
_gen_bits.bound = "all 0/1 tuples of length < 7 (quick) / < 10 (thorough) + 50 seeded tuples of 60..200 truthy/falsy ints"


def _gen_int_to_bits(tier, seed):
    for bc in range(0, 8):
        for v in range(-40, 300):
            yield {"val": v, "bit_count": bc}
    rng = _random.Random(seed)
    for _ in range(100):
        bc = rng.randrange(60, 200)
        yield {"val": rng.randrange(-2**bc, 2**(bc + 3)), "bit_count": bc}
_gen_int_to_bits.bound = "val in [-40,300) x bit_count in [0,8) + 100 seeded 60..200-bit values"


def _gen_d2i_int(tier, seed):
    for base in range(-1, 5):
        for n in range(0, 5):
            for ds in _it.product(range(-1, 5), repeat=n):
                yield {"digits": ds, "base": base}
_gen_d2i_int.bound = "base in [-1,5), digits in [-1,5)^n, n < 5 (exhaustive)"
_gen_d2i_int.exhaustive = True


def _gen_d2i_seq(tier, seed):
    for n in range(0, 4):
        for m in (n, n + 1, max(0, n - 1)):
            for bs in _it.product(range(1, 4), repeat=m):
                for ds in _it.product(range(-1, 4), repeat=n):
                    yield {"digits": ds, "base": bs}
_gen_d2i_seq.bound = "bases in [1,4)^m, digits in [-1,4)^n, n < 4, m in {n-1,n,n+1} (exhaustive)"
_gen_d2i_seq.exhaustive = True

def _gen_i2d_int(tier, seed):
    # includes base == 2 with digit_count != 0 (the bin() fast path): outside the proved case's requires -> `skip` there,
    # so it is exercised by the dedicated fast-path stand-in below instead
    for base in (1, 3, 4, 10):
        for dc in range(0, 4):
            for v in range(-3, base ** dc + 3):
                yield {"val": v, "digit_count": dc, "base": base}
_gen_i2d_int.bound = "base in {1,3,4,10}, digit_count < 4, val in [-3, base**dc+3) (exhaustive)"
_gen_i2d_int.exhaustive = True


def _gen_i2d_seq(tier, seed):
    for n in range(0, 4):
        for bs in _it.product(range(1, 4), repeat=n):
            P = 1
            for b in bs:
                P *= b
            for v in range(-2, P + 3):
                yield {"val": v, "digit_count": None, "base": bs}
_gen_i2d_seq.bound = "bases in [1,4)^n, n < 4, val in [-2, prod+3) (exhaustive)"
_gen_i2d_seq.exhaustive = True


def _gen_i2d_seq_dc(tier, seed):
    for a in _gen_i2d_seq(tier, seed):
        for dc in (len(a["base"]), len(a["base"]) + 1, -1):
            yield dict(a, digit_count=dc)
_gen_i2d_seq_dc.bound = _gen_i2d_seq.bound + " x digit_count in {n, n+1, -1}"


def standin_fast_path(tier, seed):
    """big_endian_int_to_digits `digit_count and base == 2` fast path (bin()): BOUNDED only."""
    import cirq.value.digits as D
    cases = fails = 0
    distinct = set()
    samples = []
    def slow(v, dc):
        # the proved general path, reached by passing the base as a sequence
        return D.big_endian_int_to_digits(v, digit_count=dc, base=(2,) * dc)
    rng = _random.Random(seed)
    todo = [(v, dc) for dc in range(1, 14) for v in range(0, 2 ** 12)]
    todo += [(rng.randrange(0, 2 ** bits), bits + rng.randrange(0, 3)) for bits in range(70, 200, 7) for _ in range(5)]
    # negative val is outside the documented domain ("Must be non-negative"); on it the fast path silently returns digits
    # of the text '-0b...' (e.g. val=-1, digit_count=4 -> [0,0,0,1]) while the general path raises. Not a property
    # violation (precondition broken by the caller), so it is deliberately not enumerated here; see DESIGN.md §4.
    todo += [(2 ** dc + e, dc) for dc in range(1, 9) for e in (0, 1, 5)]
    for v, dc in todo:
        cases += 1
        try:
            a = ("ok", D.big_endian_int_to_digits(v, digit_count=dc, base=2))
        except ValueError:
            a = ("ValueError", None)
        try:
            b = ("ok", slow(v, dc))
        except ValueError:
            b = ("ValueError", None)
        distinct.add((v, dc))
        if a != b:
            fails += 1
            samples.append(dict(args=dict(val=v, digit_count=dc, base=2), fast=a, general=b, failed="fast-path", clause="fast path == proved general path"))
    return dict(function=F + ":big_endian_int_to_digits[fast path base==2]", case="fast-path",
                bound="v < 2**12 x digit_count < 14 exhaustive; 95 seeded 70..200-bit values; negative and overflow values",
                cases=cases, distinct=len(distinct), failures=fails, exhaustive=False, _fails=samples[:3])
standin_fast_path.prop = "C18"
STANDINS = [standin_fast_path]

from pyvc.api import REGISTRY as _R
_R[F + ":big_endian_int_to_digits"].cases[0].gen = _gen_i2d_int
_R[F + ":big_endian_int_to_digits"].cases[1].gen = _gen_i2d_seq
_R[F + ":big_endian_int_to_digits"].cases[2].gen = _gen_i2d_seq_dc
_R[F + ":big_endian_bits_to_int"].cases[0].gen = _gen_bits
_R[F + ":big_endian_int_to_bits"].cases[0].gen = _gen_int_to_bits
_R[F + ":big_endian_digits_to_int"].cases[0].gen = _gen_d2i_int
_R[F + ":big_endian_digits_to_int"].cases[1].gen = _gen_d2i_seq

NOT_COVERED = [
    "big_endian_int_to_digits fast path (`digit_count and base == 2`, via bin()): bounded stand-in only",
    "ResultDict / Sampler views (records, data frame, histograms, str, __add__, JSON packing): bounded stand-ins only (contracts/C18_views.py)",
    "round trip digits -> int -> digits (needs uniqueness of mixed-radix representation): not proved",
]
ASSUMPTIONS = ["float-as-real not used here (pure integer code)", "termination of the loops is not proved (no decreases clauses)"]
EXPLANATION = ("C18: the integer/bit/digit conversion functions of cirq/value/digits.py are proved equal to recursive spec "
               "functions (mixed-radix numerals) for every length and value; int->digits->int round trip proved modularly over the two contracts. ")
