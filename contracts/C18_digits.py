"""C18 — integer / bit / digit conversions (cirq-core/cirq/value/digits.py).

Spec functions are the mathematical definitions of a big-endian mixed-radix numeral; the real
functions are proved equal to them for every length and every value (Python ints are unbounded, so
>64-bit registers are the general case)."""
from pyvc.api import Contract, Case, spec, at

F = "cirq-core/cirq/value/digits.py"


@spec(["seq[int]", "int"], "int")
def bitsval(bits, k):
    """value of the first k big-endian bits (a bit is 1 iff the element is truthy)"""
    return 0 if k <= 0 else 2 * bitsval(bits, k - 1) + (1 if at(bits, k - 1) != 0 else 0)


@spec(["seq[int]", "seq[int]", "int"], "int")
def val(ds, bs, k):
    """value of the first k big-endian digits ds in the per-digit bases bs"""
    return 0 if k <= 0 else val(ds, bs, k - 1) * at(bs, k - 1) + at(ds, k - 1)


@spec(["seq[int]", "int", "int"], "int")
def valc(ds, b, k):
    """value of the first k big-endian digits ds in the constant base b"""
    return 0 if k <= 0 else valc(ds, b, k - 1) * b + at(ds, k - 1)


@spec(["seq[int]", "int"], "int")
def prod(bs, k):
    return 1 if k <= 0 else prod(bs, k - 1) * at(bs, k - 1)


ENV = dict(bitsval=bitsval, val=val, valc=valc, prod=prod)

Contract(
    F + ":big_endian_bits_to_int", "C18",
    params={"bits": "seq[int]"},
    ensures=["result == bitsval(bits, len(bits))", "result >= 0"],
    loops={0: dict(index="k", inv=["result == bitsval(bits, k)", "result >= 0"])},
    env=ENV,
)

Contract(
    F + ":big_endian_int_to_bits", "C18",
    params={"val": "int", "bit_count": "nat"},
    ensures=[
        "len(result) == bit_count",
        "all(result[i] == (val // 2 ** (bit_count - 1 - i)) % 2 for i in range(bit_count))",
    ],
    result="list[bit]",
    env=ENV,
)

Contract(
    F + ":big_endian_digits_to_int", "C18",
    cases=[
        Case("base:int", {"digits": "seq[int]", "base": "int"},
             ensures=["result == valc(digits, base, len(digits))", "result >= 0"],
             raises={"ValueError": "any(not (0 <= digits[i] < base) for i in range(len(digits)))"},
             loops={0: dict(index="k", inv=["result == valc(digits, old_base, k)", "result >= 0",
                                            "all(0 <= digits[i] < old_base for i in range(k))"])}),
        Case("base:seq", {"digits": "seq[int]", "base": "seq[int]"},
             ensures=["result == val(digits, base, len(digits))", "result >= 0"],
             raises={"ValueError": "len(digits) != len(base) or any(not (0 <= digits[i] < base[i]) for i in range(len(digits)))"},
             loops={0: dict(index="k", inv=["result == val(digits, base, k)", "result >= 0", "len(digits) == len(base)",
                                            "all(0 <= digits[i] < base[i] for i in range(k))"])}),
    ],
    result="nat",
    env=ENV,
)


# ---- bounded stand-ins (native contract evaluation; never counted as proved) --------------------------
import itertools as _it
import random as _random


def _gen_bits(tier, seed):
    for n in range(0, 7 if tier == "quick" else 10):
        for t in _it.product((0, 1), repeat=n):
            yield {"bits": t}
    rng = _random.Random(seed)
    for _ in range(50):
        yield {"bits": tuple(rng.choice((0, 1, 2, True, False)) for _ in range(rng.randrange(60, 200)))}
_gen_bits.bound = "all 0/1 tuples of length < 7 (quick) / < 10 (thorough) + 50 seeded tuples of 60..200 truthy/falsy ints"


def _gen_int_to_bits(tier, seed):
    for bc in range(0, 8):
        for v in range(-40, 300):
            yield {"val": v, "bit_count": bc}
    rng = _random.Random(seed)
    for _ in range(100):
        bc = rng.randrange(60, 200)
        yield {"val": rng.randrange(-2**bc, 2**(bc + 3)), "bit_count": bc}
_gen_int_to_bits.bound = "val in [-40,300) x bit_count in [0,8) + 100 seeded 60..200-bit values"


def _gen_d2i_int(tier, seed):
    for base in range(-1, 5):
        for n in range(0, 5):
            for ds in _it.product(range(-1, 5), repeat=n):
                yield {"digits": ds, "base": base}
_gen_d2i_int.bound = "base in [-1,5), digits in [-1,5)^n, n < 5 (exhaustive)"
_gen_d2i_int.exhaustive = True


def _gen_d2i_seq(tier, seed):
    for n in range(0, 4):
        for m in (n, n + 1, max(0, n - 1)):
            for bs in _it.product(range(1, 4), repeat=m):
                for ds in _it.product(range(-1, 4), repeat=n):
                    yield {"digits": ds, "base": bs}
_gen_d2i_seq.bound = "bases in [1,4)^m, digits in [-1,4)^n, n < 4, m in {n-1,n,n+1} (exhaustive)"
_gen_d2i_seq.exhaustive = True

from pyvc.api import REGISTRY as _R
_R[F + ":big_endian_bits_to_int"].cases[0].gen = _gen_bits
_R[F + ":big_endian_int_to_bits"].cases[0].gen = _gen_int_to_bits
_R[F + ":big_endian_digits_to_int"].cases[0].gen = _gen_d2i_int
_R[F + ":big_endian_digits_to_int"].cases[1].gen = _gen_d2i_seq
