"""Independent reference semantics used by the bounded stand-ins (never by the deductive part).

* `ref_unitary(circuit, qubits)`  — ordered product of explicitly embedded operation matrices (big-endian).
* `ref_distribution(circuit, qubits)` — exact joint distribution over all measurement records by branch enumeration:
  projective measurement with collapse, invert masks, repeated keys, qudits, classical control (sympy / key conditions
  evaluated on the records so far).  Returns {records: probability} and per-branch final states.

Only `cirq.unitary(op)` / `cirq.kraus(op)` of *single operations* and the operations' declared qubits / keys are taken
from Cirq; composition, embedding, ordering, branching and bookkeeping are done here."""
from __future__ import annotations

import itertools

import numpy as np


def embed(mat, op_qubits, qubits, dims=None):
    """Matrix of an operation on op_qubits embedded into the big-endian space of `qubits`."""
    dims = dims or [q.dimension for q in qubits]
    n = len(qubits)
    idx = [qubits.index(q) for q in op_qubits]
    k = len(idx)
    odims = [dims[i] for i in idx]
    t = np.asarray(mat).reshape(odims + odims)
    D = int(np.prod(dims))
    full = np.zeros((D, D), dtype=np.complex128)
    rest = [i for i in range(n) if i not in idx]
    rdims = [dims[i] for i in rest]
    for rvals in itertools.product(*[range(d) for d in rdims]):
        for ivals in itertools.product(*[range(d) for d in odims]):
            for jvals in itertools.product(*[range(d) for d in odims]):
                a = t[tuple(ivals) + tuple(jvals)]
                if a == 0:
                    continue
                row, col = [0] * n, [0] * n
                for p, v in zip(rest, rvals):
                    row[p] = col[p] = v
                for p, vi, vj in zip(idx, ivals, jvals):
                    row[p], col[p] = vi, vj
                full[_flat(row, dims), _flat(col, dims)] += a
    return full


def _flat(vals, dims):
    r = 0
    for v, d in zip(vals, dims):
        r = r * d + v
    return r


def ref_unitary(circuit, qubits):
    import cirq

    dims = [q.dimension for q in qubits]
    D = int(np.prod(dims))
    U = np.eye(D, dtype=np.complex128)
    for moment in circuit:
        for op in moment:
            U = embed(cirq.unitary(op), list(op.qubits), qubits, dims) @ U
    return U


def equal_up_to_global_phase(A, B, atol=1e-7):
    A, B = np.asarray(A), np.asarray(B)
    if A.shape != B.shape:
        return False
    k = np.unravel_index(np.argmax(np.abs(A)), A.shape)
    if abs(A[k]) < atol:
        return np.allclose(A, B, atol=atol)
    if abs(B[k]) < atol:
        return False
    ph = B[k] / A[k]
    if abs(abs(ph) - 1) > 1e-6:
        return False
    return np.allclose(A * ph, B, atol=atol)


class ControlBeforeMeasurement(Exception):
    pass


def _condition_true(cond, records):
    """Evaluate a classical condition on the records so far (last record of each key, big-endian int)."""
    import cirq
    import sympy

    def key_int(k, index=-1):
        try:
            bits = records[str(k)][index]
        except (KeyError, IndexError):
            raise ControlBeforeMeasurement(f"classical control on {k!s} evaluated before that key was measured")
        v = 0
        for b, d in bits:
            v = v * d + b
        return v

    if isinstance(cond, cirq.KeyCondition):
        return key_int(cond.key, cond.index) != 0
    if isinstance(cond, cirq.SympyCondition):
        # documented meaning: a plain symbol is the integer value of the key's latest record, an indexed symbol k[i] its i-th digit
        expr = cond.expr
        for ix in [x for x in expr.atoms(sympy.Indexed)]:
            try:
                bits = records[str(ix.base.label)][-1]
            except (KeyError, IndexError):
                raise ControlBeforeMeasurement(f"classical control on {ix.base.label!s} evaluated before that key was measured")
            expr = expr.xreplace({ix: sympy.Integer(bits[int(ix.indices[0])][0])})
        subs = {sympy.Symbol(str(k)): key_int(k) for k in cond.keys}
        return bool(expr.xreplace({s_: sympy.Integer(v) for s_, v in subs.items()}))
    if type(cond).__name__ == "BitMaskKeyCondition":
        v = key_int(cond.key, cond.index)
        if cond.bitmask is not None:
            v &= cond.bitmask
        return (v == cond.target_value) == cond.equal_target
    raise NotImplementedError(type(cond))


def ref_branches(circuit, qubits, initial=None, max_branches=4096):
    """Exact branch enumeration.  Returns list of (prob, records, state) with records: {key: [tuple of (digit, dim)...]}"""
    import cirq

    dims = [q.dimension for q in qubits]
    D = int(np.prod(dims))
    psi0 = np.zeros(D, dtype=np.complex128)
    psi0[0] = 1
    if initial is not None:
        psi0 = np.asarray(initial, dtype=np.complex128)
    branches = [(1.0, {}, psi0)]
    for moment in circuit:
        for op in moment:
            new = []
            for p, rec, psi in branches:
                new.extend(_apply(op, p, rec, psi, qubits, dims))
            branches = [b for b in new if b[0] > 1e-14]
            if len(branches) > max_branches:
                raise RuntimeError("too many branches")
    return branches


def _apply(op, p, rec, psi, qubits, dims):
    import cirq

    if isinstance(op, cirq.ClassicallyControlledOperation) or type(op).__name__ == "ClassicallyControlledOperation":
        if all(_condition_true(c, rec) for c in op.classical_controls):
            return _apply(op.without_classical_controls(), p, rec, psi, qubits, dims)
        return [(p, rec, psi)]
    op0 = op.untagged
    if isinstance(op0.gate, cirq.MeasurementGate):
        g = op0.gate
        mask = g.full_invert_mask()
        idx = [qubits.index(q) for q in op0.qubits]
        out = []
        t = psi.reshape(dims)
        for vals in itertools.product(*[range(dims[i]) for i in idx]):
            sl = [slice(None)] * len(dims)
            for i, v in zip(idx, vals):
                sl[i] = v
            proj = np.zeros_like(t)
            proj[tuple(sl)] = t[tuple(sl)]
            pr = float(np.vdot(proj, proj).real)
            if pr < 1e-14:
                continue
            post = (proj / np.sqrt(pr)).reshape(-1)
            # confusion maps act on the *reported* digits only: distribute over the confused values
            reported = [(pr, list(vals))]
            for cidx, mat in (g.confusion_map or {}).items():
                nxt = []
                cdims = [dims[idx[k]] for k in cidx]
                for pw, vv in reported:
                    row = 0
                    for k, d in zip(cidx, cdims):
                        row = row * d + vv[k]
                    for new_val, pc in enumerate(np.asarray(mat)[row]):
                        if pc <= 1e-14:
                            continue
                        nv = list(vv)
                        rem = new_val
                        for k, d in reversed(list(zip(cidx, cdims))):
                            nv[k] = rem % d
                            rem //= d
                        nxt.append((pw * float(pc), nv))
                reported = nxt
            for pw, vv in reported:
                recorded = tuple(((1 - v if (m and v < 2) else v), dims[i]) for v, m, i in zip(vv, mask, idx))
                r2 = {k: list(v) for k, v in rec.items()}
                r2.setdefault(str(cirq.measurement_key_name(op0)), []).append(recorded)
                out.append((p * pw, r2, post))
        return out
    if isinstance(op0.gate, cirq.PauliMeasurementGate):
        # projective measurement of a +-1 observable: record 0 for eigenvalue +1, 1 for -1; state projected, not collapsed further
        obs = op0.gate.observable()
        M = embed(cirq.unitary(obs), list(op0.qubits), qubits, dims)
        out = []
        for bit, sign in ((0, 1), (1, -1)):
            proj = (psi + sign * (M @ psi)) / 2
            pr = float(np.vdot(proj, proj).real)
            if pr < 1e-14:
                continue
            r2 = {k: list(v) for k, v in rec.items()}
            r2.setdefault(str(cirq.measurement_key_name(op0)), []).append(((bit, 2),))
            out.append((p * pr, r2, proj / np.sqrt(pr)))
        return out
    if cirq.has_unitary(op):
        U = embed(cirq.unitary(op), list(op.qubits), qubits, dims)
        return [(p, rec, U @ psi)]
    if isinstance(op0.gate, cirq.ResetChannel):
        # reset = measure and map to |0>; no record
        idx = qubits.index(op0.qubits[0])
        t = psi.reshape(dims)
        out = []
        for v in range(dims[idx]):
            sl = [slice(None)] * len(dims)
            sl[idx] = v
            part = t[tuple(sl)]
            pr = float(np.vdot(part, part).real)
            if pr < 1e-14:
                continue
            new = np.zeros_like(t)
            sl0 = list(sl)
            sl0[idx] = 0
            new[tuple(sl0)] = part / np.sqrt(pr)
            out.append((p * pr, rec, new.reshape(-1)))
        return out
    if type(op0).__name__ == "If":
        # documented meaning of cirq.If: the sub-operation(s) under the classical conditions
        conds = list(op0.classical_controls)
        if all(_condition_true(c, rec) for c in conds):
            sub = op0._sub_operation
            if isinstance(sub, cirq.CircuitOperation):
                if sub.repetitions != 1 or sub.qubit_map or sub.measurement_key_map or sub.parent_path or sub.param_resolver.param_dict or sub.repeat_until is not None:
                    raise NotImplementedError("cirq.If over a sub-circuit that carries its own scope (path, maps, repetitions): not a flat circuit")
                subs = list(sub.circuit.all_operations())
            else:
                subs = [sub]
            cur = [(p, rec, psi)]
            for s_op in subs:
                cur = [b for (pp, rr, ss) in cur for b in _apply(s_op, pp, rr, ss, qubits, dims)]
            return cur
        return [(p, rec, psi)]
    raise NotImplementedError(f"reference semantics for {op!r}")


def ref_distribution(circuit, qubits, initial=None):
    """{ canonical records : probability }  (records canonicalised as sorted tuple of (key, tuple of digit tuples))."""
    dist = {}
    for p, rec, _ in ref_branches(circuit, qubits, initial):
        key = tuple(sorted((k, tuple(tuple(d for d, _ in bits) for bits in v)) for k, v in rec.items()))
        dist[key] = dist.get(key, 0.0) + p
    return dist


def ref_density(circuit, qubits, initial=None):
    """Final density matrix averaged over all measurement branches (what an observer without the records sees)."""
    D = int(np.prod([q.dimension for q in qubits]))
    rho = np.zeros((D, D), dtype=np.complex128)
    for p, _, psi in ref_branches(circuit, qubits, initial):
        rho += p * np.outer(psi, psi.conj())
    return rho


def dist_close(a, b, atol=1e-6):
    keys = set(a) | set(b)
    return all(abs(a.get(k, 0.0) - b.get(k, 0.0)) <= atol for k in keys)
