"""C10 — flattening: every distinct expression gets its own, previously unused symbol.

`cirq.flatten` replaces each expression by a symbol through `_ParamFlattener.value_of`; "flattening preserves the value of every
gate for every assignment" needs exactly one structural fact about that bookkeeping: the map expression -> symbol handed out by
`value_of` is a function (same expression, same symbol) and is injective on what it creates (a new symbol never coincides with a
symbol that is already a value of the map, user-supplied or created earlier).  Otherwise `ExpressionMap.transform_params` would
have to give ONE flat symbol the values of TWO different expressions.

Contracts (expressions, names and symbols are abstract sorts; `get_param_name`, `sympy.Symbol` and the `'{name}_{k}'` suffix are
uninterpreted, so both the default and any user-supplied naming callback are covered):
  _next_symbol(val)   ensures  result not in self._taken_symbols                       (loop cut by an invariant)
  value_of(value)     requires values(param_dict) <= taken
                      ensures  hit:  result == old param_dict[value], nothing changed
                               miss: result not in old taken, no old value equals result,
                                     param_dict == old + {value: result}, taken == old + {result}
                               and   values(param_dict) <= taken again
  client lemma        two consecutive value_of calls: equal expressions -> equal symbols; two different new expressions -> two
                      different symbols, both different from every symbol the map already used.
Termination of the collision loop is not proved."""
import z3

from pyvc import sym, paths
from pyvc.api import Contract, Case
from pyvc.interp import SRec
from pyvc.sym import SObj, SMap, SBool, wrap, obj_kind, fresh_name

F = "cirq-core/cirq/study/flatten_expressions.py"
FR = "cirq-core/cirq/study/resolver.py"

ExprS, NameS = sym.sort("Expr"), sym.sort("PName")
NAME = z3.Function("param_name_of", ExprS, NameS)
SYMBOL = z3.Function("symbol_named", NameS, ExprS)
IS_SYMBOL = z3.Function("is_bare_symbol", ExprS, z3.BoolSort())
SYM_NAME = z3.Function("name_attr", ExprS, NameS)
SObj.ATTRS["Expr"] = {"name": lambda o: SObj(SYM_NAME(o.e), "PName")}


class MutSet(SMap):
    """a mutable set of expressions: membership map with `add` (values unused)"""
    __slots__ = ()

    def add(self, x):
        self[x] = x

    def __contains__(self, x):
        return bool(self.has(x))


def _flattener(name):
    from cirq.study import flatten_expressions as fe

    taken = SMap.fresh(obj_kind("Expr"), obj_kind("Expr"), "taken")
    ms = MutSet(taken.dom, taken.val, taken.kkind, taken.vkind)
    return SRec(fe._ParamFlattener, {"_param_dict": SMap.fresh(obj_kind("Expr"), obj_kind("Expr"), "param_dict"), "_taken_symbols": ms,
                                     "get_param_name": fe._ParamFlattener.default_get_param_name})


def _flattener_custom(name):
    r = _flattener(name)
    object.__getattribute__(r, "_fields")["get_param_name"] = _custom_name
    return r


def _custom_name(val):
    return SObj(NAME(val.e), "PName")


_custom_name._pyvc_native_ok = True


def _m_default_name(interp, args, kwargs):
    (val,) = args
    if isinstance(val, SObj) and val.sortname == "Expr":
        return SObj(NAME(val.e), "PName")
    return NotImplemented


def _m_symbol(interp, args, kwargs):
    (name,) = args
    if isinstance(name, SObj) and name.sortname == "PName":
        return SObj(SYMBOL(name.e), "Expr")
    if isinstance(name, str) and "<sym>" in name:
        # an f-string over symbolic parts (the '{name}_{collision}' candidate): some symbol, nothing known about it
        return sym.fresh_obj("Expr", "candidate")
    return NotImplemented


def _isinstance(interp, x, T):
    import numbers
    import sympy

    if isinstance(x, SObj) and x.sortname == "Expr":
        if T is sympy.Symbol:
            return SBool(IS_SYMBOL(x.e))
        if T in (numbers.Complex, numbers.Number, str, float, int, complex):
            return False
        if T in (sympy.Basic, sympy.Expr, object):
            return True
    return NotImplemented


# ---- spec helpers (z3 terms) -----------------------------------------------------------------------------------------
def member(S, x):
    return wrap(sym.select(S.dom, x.e))


def values_avoid(M, x):
    k = z3.Const(fresh_name("k"), ExprS)
    return wrap(z3.ForAll([k], z3.Implies(sym.select(M.dom, k), sym.select(M.val, k) != x.e)))


def values_within(M, S):
    k = z3.Const(fresh_name("k"), ExprS)
    return wrap(z3.ForAll([k], z3.Implies(sym.select(M.dom, k), sym.select(S.dom, sym.select(M.val, k)))))


def map_is(M2, M1, key, v):
    k = z3.Const(fresh_name("k"), ExprS)
    return wrap(z3.ForAll([k], z3.And(sym.select(M2.dom, k) == z3.Or(k == key.e, sym.select(M1.dom, k)),
                                      z3.Implies(sym.select(M2.dom, k), sym.select(M2.val, k) == z3.If(k == key.e, v.e, sym.select(M1.val, k))))))


def map_same(M2, M1):
    k = z3.Const(fresh_name("k"), ExprS)
    return wrap(z3.ForAll([k], z3.And(sym.select(M2.dom, k) == sym.select(M1.dom, k),
                                      z3.Implies(sym.select(M1.dom, k), sym.select(M2.val, k) == sym.select(M1.val, k)))))


def set_is(S2, S1, x):
    k = z3.Const(fresh_name("k"), ExprS)
    return wrap(z3.ForAll([k], sym.select(S2.dom, k) == z3.Or(k == x.e, sym.select(S1.dom, k))))


def set_same(S2, S1):
    k = z3.Const(fresh_name("k"), ExprS)
    return wrap(z3.ForAll([k], sym.select(S2.dom, k) == sym.select(S1.dom, k)))


def mval(M, k):
    return SObj(sym.select(M.val, k.e), "Expr")


ENV = dict(member=member, values_avoid=values_avoid, values_within=values_within, map_is=map_is, map_same=map_same, set_is=set_is, set_same=set_same, mval=mval)
for _f in ENV.values():
    _f._pyvc_native_ok = True

MODELS = {("sympy.core.symbol", "Symbol"): _m_symbol, ("cirq.study.flatten_expressions", "_ParamFlattener.default_get_param_name"): _m_default_name}
HOOKS = {"isinstance": _isinstance}

Contract(
    F + ":_ParamFlattener._next_symbol", "C10",
    cases=[Case("default naming", {"self": _flattener, "val": "obj:Expr"}), Case("custom naming callback", {"self": _flattener_custom, "val": "obj:Expr"})],
    ensures=["not member(self._taken_symbols, result)",
             "set_same(self._taken_symbols, old_self._taken_symbols) and map_same(self._param_dict, old_self._param_dict)"],
    loops={0: dict(inv=["collision >= 0"], kinds={"symbol": "obj:Expr", "collision": "int"})},
    env=ENV, models=MODELS, hooks=HOOKS, result="obj:Expr",
    notes="names and symbols abstract; the '{name}_{k}' candidate is an arbitrary symbol; termination of the collision loop not proved",
)

_MISS = "not member(old_self._param_dict, value)"
Contract(
    F + ":_ParamFlattener.value_of", "C10",
    cases=[Case("expression, default naming", {"self": _flattener, "value": "obj:Expr"}),
           Case("expression, custom naming callback", {"self": _flattener_custom, "value": "obj:Expr"})],
    requires=["values_within(self._param_dict, self._taken_symbols)"],
    ensures=[
        f"implies(not ({_MISS}), result == mval(old_self._param_dict, value) and map_same(self._param_dict, old_self._param_dict) and set_same(self._taken_symbols, old_self._taken_symbols))",
        f"implies({_MISS}, not member(old_self._taken_symbols, result) and values_avoid(old_self._param_dict, result))",
        f"implies({_MISS}, map_is(self._param_dict, old_self._param_dict, value, result) and set_is(self._taken_symbols, old_self._taken_symbols, result))",
        "values_within(self._param_dict, self._taken_symbols)",
    ],
    env=ENV, models=MODELS, hooks=HOOKS, inline=[FR + ":ParamResolver.param_dict"], modifies=["self"], result="obj:Expr",
    notes="numeric and str arguments (returned / turned into a Symbol first) are exercised by the bounded stand-in",
)


def flatten2(fl, e1, e2):
    r1 = fl.value_of(e1)
    r2 = fl.value_of(e2)
    return (r1, r2)


Contract(
    "verif:contracts/C10_flatten.py:flatten2", "C10",
    cases=[Case("two expressions", {"fl": _flattener, "e1": "obj:Expr", "e2": "obj:Expr"})],
    requires=["values_within(fl._param_dict, fl._taken_symbols)"],
    ensures=[
        "implies(e1 == e2, result[0] == result[1])",
        "implies(e1 != e2 and not member(old_fl._param_dict, e1) and not member(old_fl._param_dict, e2), result[0] != result[1])",
        "implies(not member(old_fl._param_dict, e1), values_avoid(old_fl._param_dict, result[0]))",
        "implies(not member(old_fl._param_dict, e2), values_avoid(old_fl._param_dict, result[1]))",
        "member(fl._param_dict, e1) and member(fl._param_dict, e2) and mval(fl._param_dict, e1) == result[0] and mval(fl._param_dict, e2) == result[1]",
    ],
    env=ENV, models=MODELS, hooks=HOOKS,
    notes="client lemma over the contract of value_of (call by contract): the flattening map is a function and is injective on new expressions",
)

CANARIES = [
    dict(name="a bare symbol keeps its own name without the collision check", file=F, function=F + ":_ParamFlattener._next_symbol",
         find="        name = self.get_param_name(val)\n        symbol = sympy.Symbol(name)",
         replace="        if isinstance(val, sympy.Symbol):\n            return val\n        name = self.get_param_name(val)\n        symbol = sympy.Symbol(name)"),
    dict(name="value_of forgets to reserve the new symbol", file=F, function=F + ":_ParamFlattener.value_of",
         find="        self._taken_symbols.add(symbol)\n", replace="        pass\n"),
]
NOT_COVERED = ["ExpressionMap.transform_sweep / transform_params, flatten_with_sweep / flatten_with_params on real circuits: bounded stand-in (C10_standins.standin_flatten)",
               "termination of the collision loop"]
ASSUMPTIONS = ["sympy.Symbol(name) and the naming callback are functions of their argument (uninterpreted); sympy == on expressions is an equivalence"]
EXPLANATION = "C10 flatten bookkeeping: _next_symbol returns an unused symbol, value_of keeps expression -> symbol a function that is injective on new expressions (all maps, all callbacks); "


def _replay_flatten(ob, seed):
    """concrete witness for a failed bookkeeping obligation: the flatten stand-in's generator (bare symbols named like generated names,
    re-flattening, user-seeded maps) searched for a circuit whose value changes"""
    from contracts.C10_standins import standin_flatten

    r = standin_flatten("thorough", seed)
    return r["_fails"][0] if r["_fails"] else None


REPLAYERS = {F + ":_ParamFlattener.": _replay_flatten, "verif:contracts/C10_flatten.py:flatten2": _replay_flatten}
