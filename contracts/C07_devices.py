"""C07 — within deductive reach: the router's logical<->physical bookkeeping and the device acceptance rule.

MappingManager.apply_swap (routing): the two integer arrays stay mutually inverse permutations, exactly the two requested
entries are exchanged, and the swap is refused iff the two physical qubits are not adjacent — for arrays of any length
(numpy fancy indexing `a[[i, j]] = a[[j, i]]` modelled on z3 arrays with numpy's sequential-store semantics).
GridDevice._validate_operations (device validation): an operation is refused (ValueError) exactly when it is not in the
gateset, or acts on a qubit outside the device, or is a non-variadic two-qubit operation on a pair that is not coupled."""
import z3

from pyvc import sym, paths
from pyvc.api import Contract, Case
from pyvc.interp import SRec
from pyvc.sym import Sym, SObj, SInt, SBool, wrap, fresh_int

FM = "cirq-core/cirq/transformers/routing/mapping_manager.py"
FG = "cirq-google/cirq_google/devices/grid_device.py"


class NpIntArray(Sym):
    """1-D numpy integer array of symbolic length n: scalar read/write and the fancy read/write with a short index list"""

    def __init__(self, arr, n):
        self.arr, self.n = arr, n

    __hash__ = object.__hash__

    def _chk(self, i):
        t = sym.to_z3(i) if isinstance(i, Sym) else z3.IntVal(int(i))
        paths.current().require(z3.And(t >= 0, t < sym.to_z3(self.n)), "safe.index", exc="IndexError")
        return t

    def __getitem__(self, i):
        if isinstance(i, (list, tuple)):
            return tuple(SInt(z3.Select(self.arr, self._chk(k))) for k in i)
        return SInt(z3.Select(self.arr, self._chk(i)))

    def __setitem__(self, i, v):
        if isinstance(i, (list, tuple)):
            vals = list(v)
            assert len(vals) == len(i)
            for k, x in zip(i, vals):  # numpy assigns in order: a repeated index keeps the last value
                self.arr = z3.Store(self.arr, self._chk(k), sym.to_z3(x))
            return
        self.arr = z3.Store(self.arr, self._chk(i), sym.to_z3(v))

    def at(self, i):
        return SInt(z3.Select(self.arr, sym.to_z3(i) if isinstance(i, Sym) else z3.IntVal(int(i))))

    def snapshot(self):
        return NpIntArray(self.arr, self.n)


DIST = z3.Function("undirected_distance", z3.IntSort(), z3.IntSort(), z3.IntSort())


class _Row(Sym):
    def __init__(self, i):
        self.i = i

    __hash__ = object.__hash__

    def __getitem__(self, j):
        return SInt(DIST(sym.to_z3(self.i), sym.to_z3(j)))


class DistTable(Sym):
    __hash__ = object.__hash__

    def __getitem__(self, i):
        return _Row(i)


_ST = {}


def _manager(name):
    from cirq.transformers.routing import mapping_manager as mm

    n = fresh_int("n")
    l2p = NpIntArray(z3.Const(sym.fresh_name("l2p"), z3.ArraySort(z3.IntSort(), z3.IntSort())), n)
    p2l = NpIntArray(z3.Const(sym.fresh_name("p2l"), z3.ArraySort(z3.IntSort(), z3.IntSort())), n)
    p = paths.current()
    i = z3.Int(sym.fresh_name("i"))
    nz = sym.to_z3(n)
    # representation invariant established by __init__: mutually inverse permutations of range(n)
    p.assume(nz >= 0)
    p.assume(z3.ForAll([i], z3.Implies(z3.And(i >= 0, i < nz), z3.And(z3.Select(l2p.arr, i) >= 0, z3.Select(l2p.arr, i) < nz, z3.Select(p2l.arr, z3.Select(l2p.arr, i)) == i))))
    p.assume(z3.ForAll([i], z3.Implies(z3.And(i >= 0, i < nz), z3.And(z3.Select(p2l.arr, i) >= 0, z3.Select(p2l.arr, i) < nz, z3.Select(l2p.arr, z3.Select(p2l.arr, i)) == i))))
    _ST.update(n=n, l2p0=l2p.snapshot(), p2l0=p2l.snapshot())
    return SRec(mm.MappingManager, {"_logical_to_physical": l2p, "_physical_to_logical": p2l, "_undirected_distances": DistTable(), "_distances": DistTable()})


def inverse_ok(self):
    n = sym.to_z3(_ST["n"])
    a, b = self._logical_to_physical.arr, self._physical_to_logical.arr
    i = z3.Int(sym.fresh_name("i"))
    return wrap(z3.And(
        z3.ForAll([i], z3.Implies(z3.And(i >= 0, i < n), z3.And(z3.Select(a, i) >= 0, z3.Select(a, i) < n, z3.Select(b, z3.Select(a, i)) == i))),
        z3.ForAll([i], z3.Implies(z3.And(i >= 0, i < n), z3.And(z3.Select(b, i) >= 0, z3.Select(b, i) < n, z3.Select(a, z3.Select(b, i)) == i)))))


def swapped_exactly(self, lq1, lq2):
    n = sym.to_z3(_ST["n"])
    a0, b0 = _ST["l2p0"].arr, _ST["p2l0"].arr
    a, b = self._logical_to_physical.arr, self._physical_to_logical.arr
    x, y = sym.to_z3(lq1), sym.to_z3(lq2)
    px, py = z3.Select(a0, x), z3.Select(a0, y)
    i = z3.Int(sym.fresh_name("i"))
    return wrap(z3.And(
        z3.ForAll([i], z3.Implies(z3.And(i >= 0, i < n), z3.Select(a, i) == z3.If(i == x, py, z3.If(i == y, px, z3.Select(a0, i))))),
        z3.ForAll([i], z3.Implies(z3.And(i >= 0, i < n), z3.Select(b, i) == z3.If(i == px, y, z3.If(i == py, x, z3.Select(b0, i)))))))


def unchanged(self):
    i = z3.Int(sym.fresh_name("i"))
    return wrap(z3.ForAll([i], z3.And(z3.Select(self._logical_to_physical.arr, i) == z3.Select(_ST["l2p0"].arr, i), z3.Select(self._physical_to_logical.arr, i) == z3.Select(_ST["p2l0"].arr, i))))


def old_dist(lq1, lq2):
    a0 = _ST["l2p0"].arr
    return SInt(DIST(z3.Select(a0, sym.to_z3(lq1)), z3.Select(a0, sym.to_z3(lq2))))


def in_range(v):
    return wrap(z3.And(sym.to_z3(v) >= 0, sym.to_z3(v) < sym.to_z3(_ST["n"])))


for _f in (inverse_ok, swapped_exactly, unchanged, old_dist, in_range):
    _f._pyvc_native_ok = True
ENV = {f.__name__: f for f in (inverse_ok, swapped_exactly, unchanged, old_dist, in_range)}

Contract(
    FM + ":MappingManager.apply_swap", "C07",
    params={"self": _manager, "lq1": "int", "lq2": "int"},
    requires=["in_range(lq1)", "in_range(lq2)"],
    ensures=["inverse_ok(self)", "swapped_exactly(self, lq1, lq2)"],
    raises={"ValueError": "old_dist(lq1, lq2) > 1"},
    env=ENV, inline=[FM + ":MappingManager.dist_on_device", FM + ":MappingManager.logical_to_physical", FM + ":MappingManager.physical_to_logical"],
    notes="numpy fancy indexing modelled by NpIntArray (sequential stores); distances are an uninterpreted table",
)


# ---- GridDevice._validate_operations ---------------------------------------------------------------------------------
OpS, QidS = sym.sort("DevOp"), sym.sort("DevQid")
IN_GATESET = z3.Function("op_in_gateset", OpS, z3.BoolSort())
VARIADIC = z3.Function("gate_is_variadic", OpS, z3.BoolSort())
ON_DEVICE = z3.Function("qubit_on_device", QidS, z3.BoolSort())
COUPLED = z3.Function("pair_coupled", QidS, QidS, z3.BoolSort())


class _Gateset(Sym):
    __hash__ = object.__hash__

    def __contains__(self, op):
        return bool(wrap(IN_GATESET(op.e)))


class _QubitSet(Sym):
    __hash__ = object.__hash__

    def __contains__(self, q):
        return bool(wrap(ON_DEVICE(q.e)))


class _Pairs(Sym):
    __hash__ = object.__hash__

    def __contains__(self, fs):
        qs = list(fs)
        if len(qs) == 1:  # frozenset of two references to equal qubits cannot be built from distinct symbolic objects; not reached
            qs = qs * 2
        a, b = qs
        return bool(wrap(z3.Or(COUPLED(a.e, b.e), COUPLED(b.e, a.e))))


GateS = sym.sort("DevGate")
GATE_OF = z3.Function("gate_of_op", OpS, GateS)
VARIADIC_G = z3.Function("gate_type_is_variadic", GateS, z3.BoolSort())


class _GateTag(SObj):
    """operation.gate: an abstract gate value (two operations may carry EQUAL gates and still differ, e.g. in their tags); only its
    variadic-ness is observed (isinstance against _VARIADIC_GATE_TYPES)"""
    __slots__ = ()

    def __init__(self, op):
        super().__init__(GATE_OF(op.e), "DevGate")

    __hash__ = object.__hash__


def _device(name):
    import cirq_google

    meta = SRec(type("Meta", (), {}), {"gateset": _Gateset(), "qubit_pairs": _Pairs(), "qubit_set": _QubitSet()})
    return SRec(cirq_google.GridDevice, {"_metadata": meta})


def _ops_of_arities(*ks):
    def mk(name):
        _ST["ops"], _ST["qubits"] = [], {}
        for j, k in enumerate(ks):
            op = sym.fresh_obj("DevOp", f"op{j}")
            _ST["ops"].append(op)
            _ST["qubits"][str(op.e)] = tuple(sym.fresh_obj("DevQid", f"q{j}_{i}") for i in range(k))
        return iter(list(_ST["ops"]))
    return mk


SObj.ATTRS["DevOp"] = {"qubits": lambda o: _ST["qubits"][str(o.e)], "gate": lambda o: _GateTag(o)}


def _isinstance(interp, x, T):
    import cirq

    if isinstance(x, _GateTag):
        return bool(wrap(VARIADIC_G(x.e)))
    if isinstance(x, SObj) and x.sortname == "DevQid":
        return getattr(T, "__name__", "") != "Coupler" and (T is cirq.Qid or T is object)
    return NotImplemented


def accepted():
    """every operation of the sequence is in the gateset, on the device and (if a non-variadic pair) on a coupled pair"""
    fs = []
    for op in _ST["ops"]:
        qs = _ST["qubits"][str(op.e)]
        f = z3.And(IN_GATESET(op.e), *[ON_DEVICE(q.e) for q in qs])
        if len(qs) == 2:
            f = z3.And(f, z3.Or(VARIADIC_G(GATE_OF(op.e)), COUPLED(qs[0].e, qs[1].e), COUPLED(qs[1].e, qs[0].e)))
        fs.append(f)
    return wrap(z3.And(*fs))


accepted._pyvc_native_ok = True

Contract(
    FG + ":GridDevice._validate_operations", "C07",
    cases=[Case(f"one operation on {k} qubit(s)", {"self": _device, "operations": _ops_of_arities(k)}) for k in (1, 2, 3)]
          + [Case(f"two operations on {k1} and {k2} qubit(s)", {"self": _device, "operations": _ops_of_arities(k1, k2)}) for k1, k2 in ((1, 1), (1, 2), (2, 1), (2, 2))],
    raises={"ValueError": "not accepted()"},
    env={"accepted": accepted}, hooks={"isinstance": _isinstance},
    notes="sequences of one and two operations (the second may carry a gate EQUAL to the first's and differ otherwise, e.g. in tags); couplers (cirq.Coupler "
          "pseudo-qubits) are outside this contract; the circuit-level methods pass all operations of the circuit in order",
)

CANARIES = [
    dict(name="apply_swap forgets the inverse array", file=FM, function=FM + ":MappingManager.apply_swap",
         find="        self._physical_to_logical[[pq1, pq2]] = self._physical_to_logical[[pq2, pq1]]\n", replace="        pass\n"),
    dict(name="apply_swap indexes the inverse array with logical ids", file=FM, function=FM + ":MappingManager.apply_swap",
         find="        self._physical_to_logical[[pq1, pq2]] = self._physical_to_logical[[pq2, pq1]]", replace="        self._physical_to_logical[[lq1, lq2]] = self._physical_to_logical[[lq2, lq1]]"),
    dict(name="device accepts any pair of on-device qubits", file=FG, function=FG + ":GridDevice._validate_operations",
         find="                and frozenset(op_qubits) not in qubit_pairs\n", replace="                and False\n"),
    dict(name="device skips the gateset test for single-qubit operations", file=FG, function=FG + ":GridDevice._validate_operations",
         find="            if operation not in gateset:", replace="            if len(op_qubits) > 1 and operation not in gateset:"),
]
NOT_COVERED = ["MappingManager.__init__ (sorting, networkx), mapped_op, shortest_path; the routing algorithm itself: stand-in",
               "GridDevice couplers; other vendors' devices; Gateset membership (gate families): stand-in"]
ASSUMPTIONS = ["numpy: a[[i, j]] reads a copy and a[[i, j]] = (u, v) stores u then v; indices in range (checked as obligations)",
               "MappingManager.__init__ establishes the inverse-permutation invariant (stand-in); nothing else writes the arrays (apply_swap is the only writer in the class)"]
EXPLANATION = ("C07: MappingManager.apply_swap proved to keep the logical/physical arrays mutually inverse and to exchange exactly the two entries for any size; "
               "GridDevice operation acceptance proved equivalent to gateset membership, on-device qubits and coupled pairs; ")


def _replay_device(ob, seed):
    """concrete witness for a failed acceptance obligation: the device stand-in's GridDevice cases (specification-built devices,
    tag-conditioned gate families, mixed accepted / refused variants of one gate) searched for a circuit the device mis-judges"""
    from contracts.C07_compile import standin_devices

    r = standin_devices("thorough", seed)
    hits = [f for f in r.get("_fails", []) if "GridDevice" in str(f.get("failed", "")) + str(f.get("clause", ""))]
    return hits[0] if hits else None


REPLAYERS = {FG + ":GridDevice._validate_operations": _replay_device}
