"""C16 — bounded stand-ins (NOT counted as proved): Quantum Engine wire formats round-trip."""
import itertools
import random

import numpy as np


def standin_bits_native(tier, seed):
    """conformance of the assumed numpy contracts: the real functions vs the proved formulas, n <= 130, structured and seeded inputs"""
    from cirq_google.api.v2 import results as R

    rng = random.Random(seed)
    cases, fails = 0, []
    for n in range(0, 131):
        vecs = [np.zeros(n, dtype=bool), np.ones(n, dtype=bool)] + [np.eye(1, n, k, dtype=bool)[0] for k in (range(n) if n <= 24 else rng.sample(range(n), 6))]
        vecs += [np.array([rng.random() < 0.5 for _ in range(n)], dtype=bool) for _ in range(2)]
        for b in vecs:
            cases += 1
            data = R.pack_bits(b)
            want = bytes(sum(int(b[8 * j + k]) << k for k in range(8) if 8 * j + k < n) for j in range((n + 7) // 8))
            if data != want:
                fails.append(dict(args=dict(n=n, bits=b.astype(int).tolist() if n < 40 else "..."), failed="pack_bits", clause="byte j is not sum_k b[8j+k]*2^k"))
            back = R.unpack_bits(data, n)
            if back.tolist() != b.tolist():
                fails.append(dict(args=dict(n=n), failed="unpack(pack)", clause="unpack_bits(pack_bits(b), n) != b"))
        if len(fails) >= 3:
            break
    return dict(function="cirq-google/cirq_google/api/v2/results.py:pack_bits/unpack_bits[native]", case="bits-native",
                bound="all lengths 0..130; zeros, ones, unit vectors (all for n <= 24, 6 seeded otherwise), 2 seeded vectors", cases=cases, distinct=cases,
                failures=len(fails), exhaustive=False, _fails=fails[:3])
standin_bits_native.prop = "C16"


def _gen_circuit(rng, depth=1):
    import cirq
    import sympy

    qs = rng.choice([
        [cirq.GridQubit(5, 3), cirq.GridQubit(5, 4), cirq.NamedQubit("q0"), cirq.LineQubit(1)],
        [cirq.GridQubit(-1, 0), cirq.GridQubit(-1, 1), cirq.LineQubit(-1), cirq.LineQubit(-2)],
        [cirq.GridQubit(2, -3), cirq.GridQubit(2, -2), cirq.NamedQubit("q_1"), cirq.NamedQubit("a b"), cirq.LineQubit(0)],
    ])
    s = sympy.Symbol("s")
    tags = ["q0", "5_3", "q1", 1, True, 1.0, "tag", 0.5, "q(1)", "1"]
    ops = []
    for _ in range(rng.randrange(2, 8)):
        a, b = rng.sample(qs[:2] if rng.random() < 0.5 else qs, 2)
        e = rng.choice([1, 0.5, 0.25, s, 2 * s + 0.5, 0.1 + 0.2, 0.30000000000000004, -0.5])
        g = rng.choice([cirq.X(a) ** e, cirq.Z(a) ** e, cirq.CZ(a, b) ** e, cirq.PhasedXZGate(x_exponent=0.3, z_exponent=e, axis_phase_exponent=0.2)(a), cirq.ISWAP(a, b) ** 0.5,
                        cirq.FSimGate(0.4, 0.2)(a, b), cirq.H(a), cirq.rz(0.7)(b), cirq.measure(a, b, key=rng.choice(["m", "k"])), cirq.Y(a) ** e, cirq.PhasedXPowGate(phase_exponent=e, exponent=0.5)(a),
                        cirq.WaitGate(cirq.Duration(nanos=10))(a), cirq.CZPowGate(exponent=0.5, global_shift=0)(a, b), cirq.X(a).with_classical_controls("m") if False else cirq.S(a)])
        if rng.random() < 0.4:
            g = g.with_tags(*rng.sample(tags, rng.randrange(1, 3)))
        ops.append(g)
    c = cirq.Circuit(ops)
    if depth > 0 and rng.random() < 0.4:
        sub = cirq.FrozenCircuit(_gen_circuit(rng, depth - 1))
        co = cirq.CircuitOperation(sub)
        c.append([co, co.repeat(2) if not cirq.is_measurement(sub) else co, cirq.CircuitOperation(cirq.FrozenCircuit(_gen_circuit(rng, 0)))])
        c.append(_variant(rng, sub))
    return c


def _variant(rng, sub):
    """a CircuitOperation over `sub` with one of the wrapper's own fields set (each is a separate field of the message)"""
    import cirq
    import sympy

    u = sympy.Symbol("u")
    qs = sorted(sub.all_qubits())
    kind = rng.randrange(9)
    if cirq.is_measurement(sub) and kind < 4:
        kind = 4 + kind
    if kind == 0:
        return cirq.CircuitOperation(sub, repetitions=-2)
    if kind == 1:
        return cirq.CircuitOperation(sub, repetitions=2, repetition_ids=["a", "b"])
    if kind == 2:
        return cirq.CircuitOperation(sub, repetitions=-2, repetition_ids=["a", "b"])  # cannot be carried by the message: must be refused, not altered
    if kind == 3:
        if rng.random() < 0.5:
            # ids that are NOT used for the keys (the flag travels separately from the ids), custom or spelled like the default ones
            return cirq.CircuitOperation(sub, repetitions=2, repetition_ids=rng.choice([["a", "b"], ["0", "1"]]), use_repetition_ids=False)
        return cirq.CircuitOperation(sub, repetitions=3, use_repetition_ids=rng.random() < 0.5)
    if kind == 4:
        return cirq.CircuitOperation(sub, param_resolver={"s": rng.choice([u, 2 * u, u + 0.5, 0.25, 1])})
    if kind == 5 and len(qs) >= 2:
        return cirq.CircuitOperation(sub).with_qubits(*(qs[1:] + qs[:1]))
    if kind == 6 and "m" in cirq.measurement_key_names(sub):
        return cirq.CircuitOperation(sub, measurement_key_map={"m": "mm"})
    if kind == 7 and not cirq.is_measurement(sub):
        return cirq.CircuitOperation(sub, repetitions=1, repetition_ids=["only"])
    return cirq.CircuitOperation(sub)


def _same_wrapper(x, y):
    import numbers

    import sympy

    if (x.repetitions, x.repetition_ids, x.use_repetition_ids) != (y.repetitions, y.repetition_ids, y.use_repetition_ids):
        return False
    if dict(x.qubit_map) != dict(y.qubit_map) or dict(x.measurement_key_map) != dict(y.measurement_key_map) or x.repeat_until != y.repeat_until:
        return False
    px, py = {str(k): v for k, v in x.param_resolver.param_dict.items()}, {str(k): v for k, v in y.param_resolver.param_dict.items()}
    if set(px) != set(py):
        return False
    for k in px:
        a, b = px[k], py[k]
        if isinstance(a, numbers.Number) and isinstance(b, numbers.Number):
            if abs(a - b) > 1e-6:
                return False
        else:
            a, b = sympy.sympify(a), sympy.sympify(b)
            if a.free_symbols != b.free_symbols or any(abs(complex((a - b).subs({t: v for t in a.free_symbols}))) > 1e-5 for v in (0.3, -1.7)):
                return False
    return True


def standin_circuit_roundtrip(tier, seed):
    import cirq
    import cirq_google as cg

    rng = random.Random(seed)
    cases, fails = 0, []
    ser = cg.CIRCUIT_SERIALIZER
    for _ in range(120 if tier == "quick" else 2500):
        try:
            c = _gen_circuit(rng)
        except ValueError:
            continue
        try:
            msg = ser.serialize(c)
        except (ValueError, TypeError):
            continue  # unsupported content rejected: fine
        cases += 1
        try:
            back = ser.deserialize(msg)
        except Exception as ex:
            fails.append(dict(args=dict(circuit=repr(c)), failed="deserialize-raised", clause=f"deserialize(serialize(c)) raised {ex!r}"))
            continue
        if not _equal_circuits(c, back):
            fails.append(dict(args=dict(circuit=repr(c), back=repr(back)[:1500]), failed="circuit-roundtrip", clause="deserialize(serialize(c)) differs from c beyond float32 rounding"))
        if len(fails) >= 3:
            break
    # every combination of (ids given / spelled like the default ones / absent) x (ids in use or not) x (measuring body or not)
    q = cirq.GridQubit(1, 1)
    for body, ids, use in itertools.product((cirq.FrozenCircuit(cirq.X(q) ** 0.5), cirq.FrozenCircuit(cirq.X(q), cirq.measure(q, key="m"))), (None, ["0", "1", "2"], ["a", "b", "c"]), (True, False)):
        wrapped = cirq.Circuit(cirq.CircuitOperation(body, repetitions=3, repetition_ids=ids, use_repetition_ids=use))
        cases += 1
        try:
            back = ser.deserialize(ser.serialize(wrapped))
        except Exception as ex:
            fails.append(dict(args=dict(circuit=repr(wrapped)), failed="circuit-roundtrip-raised", clause=f"{ex!r}"))
            continue
        if back != wrapped or cirq.measurement_key_names(back) != cirq.measurement_key_names(wrapped):
            fails.append(dict(args=dict(circuit=repr(wrapped), back=repr(back)[:1500]), failed="circuit-roundtrip", clause=f"a sub-circuit with repetition_ids={ids}, use_repetition_ids={use} comes back as a different operation"))
    # tags ON a CircuitOperation (the message has no field for them): one fixed input, reported under its own name
    tagged = cirq.Circuit(cirq.CircuitOperation(cirq.FrozenCircuit(cirq.X(q) ** 0.5)).with_tags("wrapped"))
    cases += 1
    try:
        back = ser.deserialize(ser.serialize(tagged))
        if back != tagged:
            fails.append(dict(args=dict(circuit=repr(tagged), back=repr(back)), failed="circuit-operation-tags", clause="tags on a CircuitOperation survive the round trip (or the circuit is refused)"))
    except (ValueError, TypeError):
        pass
    # a NamedQubit whose name reads as a line or grid id: one fixed input, reported under its own name
    named = cirq.Circuit(cirq.X(cirq.NamedQubit("3")) ** 0.5, cirq.Y(cirq.NamedQubit("1_2")))
    cases += 1
    try:
        back = ser.deserialize(ser.serialize(named))
        if back != named:
            fails.append(dict(args=dict(circuit=repr(named), back=repr(back)), failed="qubit-id-ambiguity", clause="a NamedQubit comes back as the same NamedQubit (or the circuit is refused)"))
    except (ValueError, TypeError):
        pass
    return dict(function="cirq-google/cirq_google/serialization/circuit_serializer.py:CircuitSerializer", case="circuit-roundtrip",
                bound="seeded circuits: 14 gate shapes, numeric/symbolic/near-equal exponents, tags that collide with qubit ids and with each other under == (1, True, 1.0), nested and "
                      "repeated CircuitOperations with each wrapper field set (negative repetitions, repetition ids, parameter and key maps with symbolic values, remapped qubits), grid/named/line qubits including negative coordinates and names with separators", cases=cases, distinct=cases, failures=len(fails), exhaustive=False, _fails=fails[:3])
standin_circuit_roundtrip.prop = "C16"


def _equal_circuits(a, b):
    import cirq

    if len(a) != len(b):
        return False
    for ma, mb in zip(a, b):
        oa, ob = sorted(ma.operations, key=lambda o: sorted(map(repr, o.qubits))), sorted(mb.operations, key=lambda o: sorted(map(repr, o.qubits)))
        if len(oa) != len(ob):
            return False
        for x, y in zip(oa, ob):
            if frozenset(x.qubits) != frozenset(y.qubits):
                return False
            tx = [t for t in x.tags if not type(t).__name__.startswith("Calibration")]
            ty = [t for t in y.tags if not type(t).__name__.startswith("Calibration")]
            if tx != ty:  # the property promises an EQUAL circuit: tags are compared with == (1.0 may come back as 1)
                return False
            ux, uy = x.untagged, y.untagged
            if isinstance(ux, cirq.CircuitOperation) or isinstance(uy, cirq.CircuitOperation):
                if not (isinstance(ux, cirq.CircuitOperation) and isinstance(uy, cirq.CircuitOperation)):
                    return False
                if not _same_wrapper(ux, uy) or not _equal_circuits(ux.circuit.unfreeze(), uy.circuit.unfreeze()):
                    return False
                continue
            if ux == uy or cirq.approx_eq(ux, uy, atol=1e-6):
                continue
            if cirq.is_measurement(ux) or cirq.is_measurement(uy):
                return False
            # same linear map on the same qubits (covers float32 rounding and symmetric-gate qubit reordering)
            qs = sorted(ux.qubits)
            try:
                a_, b_ = cirq.Circuit(ux), cirq.Circuit(uy)
                if cirq.is_parameterized(a_) or cirq.is_parameterized(b_):
                    a_, b_ = cirq.resolve_parameters(a_, {"s": 0.123}), cirq.resolve_parameters(b_, {"s": 0.123})
                if not cirq.equal_up_to_global_phase(a_.unitary(qubit_order=qs), b_.unitary(qubit_order=qs), atol=1e-5):
                    return False
            except Exception:
                return False
    return True


def _tagkey(t):
    return (type(t).__name__, repr(t))


def _same_unitary_or_symbolic(x, y):
    import cirq

    if cirq.is_parameterized(x) or cirq.is_parameterized(y):
        import sympy
        try:
            rx = cirq.resolve_parameters(x, {"s": 0.123})
            ry = cirq.resolve_parameters(y, {"s": 0.123})
            return cirq.equal_up_to_global_phase(cirq.unitary(rx), cirq.unitary(ry), atol=1e-5)
        except Exception:
            return False
    if cirq.has_unitary(x) and cirq.has_unitary(y):
        return cirq.equal_up_to_global_phase(cirq.unitary(x), cirq.unitary(y), atol=1e-5)
    return x == y


def standin_results_roundtrip(tier, seed):
    import cirq
    from cirq_google.api import v2

    rng = random.Random(seed)
    cases, fails = 0, []
    for reps in list(range(0, 21)) + [63, 64, 65]:
        for instances in (1, 2, 3):
            q = rng.choice([[cirq.GridQubit(0, i) for i in range(3)], [cirq.GridQubit(0, i) for i in range(3)], cirq.LineQubit.range(3), [cirq.GridQubit(-1, 2), cirq.LineQubit(-1), cirq.NamedQubit("q")]])
            order = rng.sample(q, 3)
            recs = np.array([[[rng.randrange(2) for _ in range(3)] for _ in range(instances)] for _ in range(reps)], dtype=np.uint8).reshape(reps, instances, 3)
            r = cirq.ResultDict(params=cirq.ParamResolver({"a": 0.5}), records={"k": recs})
            mi = [v2.MeasureInfo("k", order, instances, [False] * 3, ())]
            try:
                proto = v2.results_to_proto([[r]], mi)
                back = v2.results_from_proto(proto, mi)[0][0]
            except Exception as ex:
                fails.append(dict(args=dict(repetitions=reps, instances=instances, order=repr(order)), failed="results-raised", clause=f"{ex!r}"))
                continue
            cases += 1
            # the message itself, decoded by hand: every per-qubit entry holds the bits of THAT qubit (bit i of byte i // 8, least significant first)
            try:
                mr = proto.sweep_results[0].parameterized_results[0].measurement_results[0]
                for qmr in mr.qubit_measurement_results:
                    qb = v2.qubit_from_proto_id(qmr.qubit.id)
                    col = recs[:, :, order.index(qb)].reshape(-1)
                    got_bits = [(qmr.results[i // 8] >> (i % 8)) & 1 for i in range(reps * instances)]
                    if got_bits != col.astype(int).tolist():
                        fails.append(dict(args=dict(repetitions=reps, instances=instances, order=repr(order), qubit=repr(qb)), failed="results-packed-bits",
                                          clause=f"the packed bits stored for {qb!r} are not that qubit's measurement results"))
                        break
            except (IndexError, AttributeError) as ex:
                fails.append(dict(args=dict(repetitions=reps, instances=instances), failed="results-message-shape", clause=f"unexpected message structure: {ex!r}"))
            if not np.array_equal(back.records["k"], recs) or back.params != r.params:
                fails.append(dict(args=dict(repetitions=reps, instances=instances, order=repr(order)), failed="results-roundtrip",
                                  clause="results_from_proto(results_to_proto(r)) != r"))
            # the decoded result as the job layer hands it on (an EngineResult carrying the job's id): the same records
            if reps in (0, 1, 5, 64):
                try:
                    import datetime

                    import cirq_google

                    er = cirq_google.EngineResult.from_result(back, job_id="job-1")
                    if not np.array_equal(er.records["k"], recs) or er.params != r.params or er.job_id != "job-1":
                        fails.append(dict(args=dict(repetitions=reps, instances=instances), failed="results-engine-result", clause="EngineResult.from_result(decoded result) does not carry the decoded records"))
                except Exception as ex:
                    fails.append(dict(args=dict(repetitions=reps, instances=instances), failed="results-engine-result", clause=f"EngineResult.from_result(decoded result) raised {ex!r}"))
    return dict(function="cirq-google/cirq_google/api/v2/results.py:results_to_proto/results_from_proto", case="results-roundtrip",
                bound="repetitions 0..20, 63, 64, 65 x instances 1..3 x permuted qubit order x grid / line / mixed qubit types", cases=cases, distinct=cases, failures=len(fails), exhaustive=False, _fails=fails[:3])
standin_results_roundtrip.prop = "C16"


def standin_sweeps_roundtrip(tier, seed):
    import cirq
    from cirq_google.api import v2

    cases, fails = 0, []
    sweeps = [cirq.UnitSweep, cirq.Points("a", [1, 2.5, -3]), cirq.Linspace("a", 0, 1, 5), cirq.Linspace("b", 1, 1, 1), cirq.Zip(cirq.Points("a", [1, 2]), cirq.Linspace("b", 0, 1, 2)),
              cirq.Product(cirq.Points("a", [1.0, 2.0]), cirq.Zip(cirq.Points("b", [1, 2]), cirq.Points("c", [3, 4]))), cirq.Points("a", [0.1 + 0.2]), cirq.Points("a", []),
              cirq.Concat(cirq.Points("a", [1, 2]), cirq.Points("a", [3])), cirq.ZipLongest(cirq.Points("a", [1, 2, 3]), cirq.Points("b", [4]))]
    try:
        from cirq_google.study import FiniteRandomVariable as _FRV
        sweeps += [_FRV("a", {0: 0.5, 1: 0.5}, seed=3, length=6), _FRV("a", {1.5: 0.25, -2.0: 0.5, 0.25: 0.25}, seed=11, length=9), cirq.Zip(_FRV("a", {3: 1, 1: 2, 2: 1}, seed=5, length=4), cirq.Points("b", [1, 2, 3, 4]))]
    except ImportError:
        pass
    try:
        import tunits

        ns, us, GHz, MHz = tunits.ns, tunits.us, tunits.GHz, tunits.MHz
        sweeps += [cirq.Linspace("t", 1 * ns, 10 * ns, 4), cirq.Linspace("t", 1 * ns, 10 * us, 4), cirq.Linspace("t", 2 * us, 500 * ns, 3), cirq.Linspace("f", 4.5 * GHz, 4700 * MHz, 5),
                   cirq.Points("t", [1 * ns, 2 * us, 0.5 * us]), cirq.Points("f", [5 * GHz]), cirq.Zip(cirq.Linspace("t", 1 * ns, 1 * us, 3), cirq.Points("a", [1, 2, 3])),
                   cirq.Product(cirq.Linspace("f", 1 * MHz, 1 * GHz, 2), cirq.Points("t", [3 * ns, 4 * us]))]
    except ImportError:
        tunits = None

    def num(v):
        if tunits is not None and isinstance(v, tunits.Value):
            return float(v.value_in_base_units())
        return float(v)

    for s in sweeps:
        try:
            msg = v2.sweep_to_proto(s)
            back = v2.sweep_from_proto(msg)
        except (ValueError, TypeError):
            continue
        except Exception as ex:
            fails.append(dict(args=dict(sweep=repr(s)), failed="sweep-raised", clause=f"sweep_to_proto/sweep_from_proto raised {ex!r} (neither a round trip nor a clean rejection)"))
            continue
        cases += 1
        a = [{str(k): num(v) for k, v in r.param_dict.items()} for r in s]
        b = [{str(k): num(v) for k, v in r.param_dict.items()} for r in back]
        if len(a) != len(b) or any(set(x) != set(y) or any(abs(x[k] - y[k]) > 1e-6 * max(1, abs(x[k])) for k in x) for x, y in zip(a, b)):
            fails.append(dict(args=dict(sweep=repr(s), back=repr(back)), failed="sweep-roundtrip", clause="sweep_from_proto(sweep_to_proto(s)) enumerates different assignments"))
    # what a single sweep carries along (device parameters with a path and an index, 0 being an index; plain metadata): kept through the message
    try:
        from cirq_google.study import DeviceParameter

        for idx_ in (None, 0, 1, 7):
            for mk_ in (lambda md: cirq.Points("a", [1.0, 2.0], metadata=md), lambda md: cirq.Linspace("a", 0, 1, 3, metadata=md)):
                s_ = mk_(DeviceParameter(path=["x", "y"], idx=idx_))
                cases += 1
                try:
                    back = v2.sweep_from_proto(v2.sweep_to_proto(s_))
                    md = getattr(back, "metadata", None)
                    if md is None or list(getattr(md, "path", [])) != ["x", "y"] or getattr(md, "idx", "missing") != idx_:
                        fails.append(dict(args=dict(sweep=repr(s_), back=repr(back)), failed="sweep-metadata", clause=f"a device parameter with idx={idx_!r} comes back as {md!r}"))
                except Exception as ex:
                    fails.append(dict(args=dict(sweep=repr(s_)), failed="sweep-raised", clause=f"{ex!r}"))
    except ImportError:
        pass
    # the older v1 message (products of zips of single sweeps): round trip or clean refusal
    from cirq_google.api import v1

    for s in sweeps:
        if tunits is not None and any(isinstance(v, tunits.Value) for r in list(s)[:1] for v in r.param_dict.values()):
            continue
        try:
            back = v1.sweep_from_proto(v1.sweep_to_proto(s, repetitions=7))
        except (ValueError, TypeError):
            continue
        except Exception as ex:
            if isinstance(s, cirq.Points) and len(s) == 0:
                continue
            fails.append(dict(args=dict(sweep=repr(s)), failed="v1-sweep-raised", clause=f"v1 sweep_to_proto/sweep_from_proto raised {ex!r} (neither a round trip nor a clean rejection)"))
            continue
        cases += 1
        a = [{str(k): float(v) for k, v in r.param_dict.items()} for r in s]
        b = [{str(k): float(v) for k, v in r.param_dict.items()} for r in back]
        if len(a) != len(b) or any(set(x) != set(y) or any(abs(x[k] - y[k]) > 1e-6 * max(1, abs(x[k])) for k in x) for x, y in zip(a, b)):
            fails.append(dict(args=dict(sweep=repr(s), back=repr(back)), failed="v1-sweep-roundtrip", clause="v1.sweep_from_proto(v1.sweep_to_proto(s)) enumerates different assignments"))
    return dict(function="cirq-google/cirq_google/api/v2/sweeps.py", case="sweep-roundtrip", bound="18 sweep shapes incl. empty, single-point linspace, nested product/zip, concat, zip-longest, values with (mixed) physical units; the unit-free ones also through the v1 message",
                cases=cases, distinct=cases, failures=len(fails), exhaustive=False, _fails=fails[:3])
standin_sweeps_roundtrip.prop = "C16"
def standin_run_contexts(tier, seed):
    """run contexts as the engine writes them (plain and gzip-compressed; one repetition count or one per sweep) read back by the engine job"""
    import cirq
    from cirq_google.api import v2
    from cirq_google.engine.engine_job import _deserialize_run_context
    from google.protobuf import any_pb2

    cases, fails = 0, []
    sweepables = [None, cirq.Linspace("a", 0, 1, 3), [cirq.Points("a", [1, 2]), cirq.Points("b", [0.5])], cirq.Zip(cirq.Points("a", [1, 2]), cirq.Points("b", [3, 4])),
                  cirq.Product(cirq.Points("a", [1.0, 2.0]), cirq.Linspace("b", 0, 1, 2)), {"a": 0.25}]
    for sw in sweepables:
        want_sweeps = cirq.to_sweeps(sw)
        for reps in (1, 100, 12345, [7] * len(want_sweeps), list(range(3, 3 + len(want_sweeps)))):
            for comp in (False, True):
                try:
                    msg = v2.run_context_to_proto(sw, reps, compress_proto=comp)
                except (ValueError, TypeError):
                    continue
                cases += 1
                a = any_pb2.Any()
                a.Pack(msg)
                got_reps, got_sweeps = _deserialize_run_context(a)
                want_reps = list(reps) if isinstance(reps, list) else [reps] * len(want_sweeps)
                def pts(sws):
                    return [[{str(k): float(v) for k, v in r.param_dict.items()} for r in x] for x in sws]
                if list(got_reps) != want_reps or pts(got_sweeps) != pts(want_sweeps):
                    fails.append(dict(args=dict(sweepable=repr(sw), repetitions=repr(reps), compressed=comp, got=repr((got_reps, got_sweeps))[:600]), failed="run-context-roundtrip",
                                      clause="the run context the engine writes (run_context_to_proto) is read back by EngineJob with the same repetitions and the same sweeps"))
    return dict(function="cirq-google/cirq_google/api/v2/sweeps.py:run_context_to_proto", case="run-context-roundtrip", bound="6 sweepables x 5 repetition forms x plain/gzip-compressed",
                cases=cases, distinct=cases, failures=len(fails), exhaustive=True, _fails=fails[:3])
standin_run_contexts.prop = "C16"


def standin_conditions_roundtrip(tier, seed):
    """classical controls through the circuit wire format: every condition kind, every record index (first, last, explicit),
    bit masks, controlled sub-circuits; the conditions read back must be the conditions written"""
    import itertools

    import cirq
    import cirq_google as cg
    import sympy

    a, b = cirq.GridQubit(1, 1), cirq.GridQubit(1, 2)
    ser = cg.CIRCUIT_SERIALIZER
    conds = []
    for idx in (-1, 0, 1, -2, 2):
        conds.append(cirq.KeyCondition(cirq.MeasurementKey("m"), index=idx))
        conds.append(cirq.BitMaskKeyCondition("m", index=idx))
        conds.append(cirq.BitMaskKeyCondition("m", index=idx, target_value=1, equal_target=True, bitmask=1))
        conds.append(cirq.BitMaskKeyCondition("m", index=idx, target_value=0, equal_target=False))
    conds += [cirq.SympyCondition(sympy.Eq(sympy.Symbol("m"), 1)), cirq.SympyCondition(sympy.Symbol("m") > 0), cirq.KeyCondition(cirq.MeasurementKey("m", path=("p",)))]
    cases, fails = 0, []
    subs = [lambda: cirq.X(b), lambda: cirq.CircuitOperation(cirq.FrozenCircuit(cirq.X(b), cirq.Z(b) ** 0.5))]
    for cond, mk in itertools.product(conds, subs):
        try:
            op = mk().with_classical_controls(cond)
            c = cirq.Circuit(cirq.measure(a, key="m"), cirq.X(a), cirq.measure(a, key="m"), cirq.measure(a, key="m"), op)
            msg = ser.serialize(c)
        except (ValueError, TypeError, NotImplementedError):
            continue  # a refusal is fine
        cases += 1
        try:
            back = ser.deserialize(msg)
        except Exception as ex:
            fails.append(dict(args=dict(condition=repr(cond)), failed="condition-roundtrip", clause=f"deserialize(serialize(c)) raised {ex!r}"))
            continue
        got = [o.classical_controls for o in back.all_operations() if o.classical_controls]
        if got != [frozenset({cond})] and got != [op.classical_controls]:
            fails.append(dict(args=dict(condition=repr(cond), read_back=repr(got)), failed="condition-roundtrip", clause="the classical condition read back differs from the one written"))
    seen, uniq = set(), []
    for f in fails:
        k = f["args"]["condition"][:30]
        if k not in seen:
            seen.add(k)
            uniq.append(f)
    return dict(function="cirq-google/cirq_google/serialization/arg_func_langs.py:condition_to_proto/condition_from_proto", case="condition-roundtrip",
                bound="23 conditions (key / bit-mask with indices -2..2, masks, sympy, pathed key) x 2 controlled operations", cases=cases, distinct=cases, failures=len(fails),
                exhaustive=True, _fails=uniq[:3])
standin_conditions_roundtrip.prop = "C16"

def standin_device_specs(tier, seed):
    """device specifications: spec -> GridDevice -> spec -> GridDevice is the identity on qubits (isolated ones included), pairs and gates, and
    the specification lists exactly the qubits / pairs the device object validates"""
    import cirq
    import cirq_google
    from cirq_google.api import v2

    rng = random.Random(seed + 3)
    cases, fails = 0, []
    gate_fields = ["cz", "sqrt_iswap", "phased_xz", "virtual_zpow", "physical_zpow", "meas", "wait", "syc", "inv_sqrt_iswap", "coupler_pulse", "fsim_via_model", "cz_pow_gate", "reset"]
    for it in range(25 if tier == "quick" else 300):
        grid = [cirq.GridQubit(r, c) for r in range(rng.randrange(1, 4)) for c in range(rng.randrange(1, 4))]
        qubits = rng.sample(grid, rng.randrange(1, len(grid) + 1))
        adjacent = [(a, b) for a in qubits for b in qubits if a < b and a.is_adjacent(b)]
        pairs = rng.sample(adjacent, rng.randrange(0, len(adjacent) + 1)) if adjacent else []   # qubits outside every pair are isolated
        spec = v2.device_pb2.DeviceSpecification()
        spec.valid_qubits.extend(sorted(v2.qubit_to_proto_id(x) for x in qubits))
        tgt = spec.valid_targets.add()
        tgt.name = "2_qubit_targets"
        tgt.target_ordering = v2.device_pb2.TargetSet.SYMMETRIC
        for a, b in pairs:
            t = tgt.targets.add()
            t.ids.extend([v2.qubit_to_proto_id(a), v2.qubit_to_proto_id(b)])
        chosen = [f for f in gate_fields if rng.random() < 0.6 and hasattr(v2.device_pb2.GateSpecification(), f)] or ["phased_xz"]
        for f in chosen:
            g = spec.valid_gates.add()
            getattr(g, f).SetInParent()
            if rng.random() < 0.5:
                g.gate_duration_picos = rng.choice([0, 1000, 25000])
        try:
            dev = cirq_google.GridDevice.from_proto(spec)
        except ValueError:
            continue
        cases += 1
        args = dict(specification=str(spec)[:1500])
        try:
            spec2 = dev.to_proto()
            dev2 = cirq_google.GridDevice.from_proto(spec2)
        except Exception as ex:
            fails.append(dict(args=args, failed="device-spec-raised", clause=f"to_proto / from_proto of a device built from a valid specification raised {ex!r}"))
            continue
        ids = lambda sp: sorted(sp.valid_qubits)
        pairset = lambda sp: sorted(tuple(sorted(t.ids)) for ts in sp.valid_targets for t in ts.targets if len(t.ids) == 2)
        gates = lambda sp: sorted(g.WhichOneof("gate") for g in sp.valid_gates)
        if ids(spec2) != ids(spec) or pairset(spec2) != pairset(spec) or gates(spec2) != gates(spec):
            what = "qubits" if ids(spec2) != ids(spec) else "pairs" if pairset(spec2) != pairset(spec) else "gates"
            fails.append(dict(args=dict(args, written=str(spec2)[:800]), failed="device-spec-roundtrip", clause=f"the specification a device writes differs in its {what} from the one it was built from: {ids(spec2) if what == 'qubits' else pairset(spec2) if what == 'pairs' else gates(spec2)}"))
            continue
        if dev2 != dev or dev2.metadata.qubit_set != dev.metadata.qubit_set or set(dev2.metadata.qubit_pairs) != set(dev.metadata.qubit_pairs):
            fails.append(dict(args=args, failed="device-spec-roundtrip", clause="the device rebuilt from its own specification differs from the device"))
            continue
        # the specification describes exactly what the device validates
        if dev.metadata.qubit_set != frozenset(qubits) or {frozenset(p) for p in dev.metadata.qubit_pairs} != {frozenset(p) for p in pairs}:
            fails.append(dict(args=args, failed="device-spec-meaning", clause="the device's qubits / pairs are not those of the specification"))
            continue
        probe1 = cirq.PhasedXZGate(x_exponent=0.3, z_exponent=0.1, axis_phase_exponent=0.2)
        if "phased_xz" in chosen:
            for x in grid:
                ok = True
                try:
                    dev.validate_operation(probe1.on(x))
                except ValueError:
                    ok = False
                if ok != (x in qubits):
                    fails.append(dict(args=dict(args, qubit=repr(x)), failed="device-spec-meaning", clause=f"validate_operation on {x!r}: accepted={ok}, listed in the specification={x in qubits}"))
                    break
    return dict(function="cirq-google/cirq_google/devices/grid_device.py:GridDevice.from_proto/to_proto", case="device-specs",
                bound="seeded specifications: 1-9 grid qubits (some in no pair), random subsets of the adjacent pairs, random gate sets with / without durations",
                cases=cases, distinct=cases, failures=len(fails), exhaustive=False, _fails=fails[:3])
standin_device_specs.prop = "C16"

def standin_ndarrays(tier, seed):
    """array messages (the arguments of internal gates and tags travel as these): every dtype x shapes of 1-3 dimensions x memory layouts (row-major,
    column-major, a transposed view, a strided slice, a reversed view): the decoded array has the shape, dtype and entries of the one given, through
    serialized bytes; the same for InternalGate / InternalTag carrying such arrays"""
    import cirq
    import cirq_google
    from cirq_google.api.v2 import ndarrays

    rng = np.random.RandomState(seed + 17)
    F_ = "cirq-google/cirq_google/api/v2/ndarrays.py:to_*_array/from_*_array"
    kinds = [("float64", np.float64), ("float32", np.float32), ("float16", np.float16), ("int64", np.int64), ("int32", np.int32), ("int16", np.int16), ("int8", np.int8), ("uint8", np.uint8),
             ("complex128", np.complex128), ("complex64", np.complex64), ("bitarray", np.bool_)]
    cases, fails = 0, []
    for name, dt in kinds:
        to_f = getattr(ndarrays, "to_bitarray" if name == "bitarray" else f"to_{name}_array", None)
        from_f = getattr(ndarrays, "from_bitarray" if name == "bitarray" else f"from_{name}_array", None)
        if to_f is None or from_f is None:
            continue
        for shape in ((5,), (3, 4), (2, 3, 4), (4, 4), (1, 7), (9, 2)):
            base = rng.randint(0, 2, size=shape).astype(dt) if name == "bitarray" else (rng.randint(-100, 100, size=shape) + (1j * rng.randint(-9, 9, size=shape) if "complex" in name else 0)).astype(dt) if name != "uint8" else rng.randint(0, 255, size=shape).astype(dt)
            layouts = {"row-major": np.ascontiguousarray(base), "column-major": np.asfortranarray(base), "transposed view": np.ascontiguousarray(base.T).T,
                       "strided slice": np.repeat(base, 2, axis=-1)[..., ::2], "reversed view": base[::-1]}
            for lname, arr in layouts.items():
                cases += 1
                want = np.array(arr)
                try:
                    msg = to_f(arr)
                    msg2 = type(msg)()
                    msg2.ParseFromString(msg.SerializeToString())
                    back = from_f(msg2)
                except Exception as ex:
                    fails.append(dict(args=dict(dtype=name, shape=list(shape), layout=lname), failed="ndarray-roundtrip-raised", clause=f"{ex!r}"))
                    continue
                if back.shape != want.shape or not np.array_equal(back, want) or (name != "bitarray" and back.dtype != want.dtype):
                    fails.append(dict(args=dict(dtype=name, shape=list(shape), layout=lname, given=want.tolist(), decoded=np.asarray(back).tolist()), failed="ndarray-roundtrip",
                                      clause=f"a {name} array of shape {list(shape)} given as a {lname} decodes with other entries, shape or dtype"))
    # internal gates / tags carrying arrays of each layout
    m = rng.randint(-5, 5, size=(3, 4)).astype(np.float64)
    for lname, arr in (("row-major", m), ("column-major", np.asfortranarray(m)), ("transposed view", np.ascontiguousarray(m.T).T)):
        cases += 1
        try:
            from cirq_google.serialization import arg_func_langs as afl

            g = cirq_google.InternalGate("G", "mod", 1, w=arr)
            msg = afl.internal_gate_arg_to_proto(g) if hasattr(afl, "internal_gate_arg_to_proto") else None
            if msg is not None:
                back = afl.internal_gate_from_proto(msg)
                if not np.array_equal(np.asarray(back.gate_args["w"]), m):
                    fails.append(dict(args=dict(layout=lname, given=m.tolist(), decoded=np.asarray(back.gate_args["w"]).tolist()), failed="ndarray-roundtrip", clause=f"an InternalGate carrying a {lname} array comes back with other entries"))
            t = cirq_google.InternalTag(name="T", package="p", w=arr)
            tb = cirq_google.InternalTag.from_proto(t.to_proto())
            if not np.array_equal(np.asarray(tb.tag_args["w"]), m):
                fails.append(dict(args=dict(layout=lname, given=m.tolist(), decoded=np.asarray(tb.tag_args["w"]).tolist()), failed="ndarray-roundtrip", clause=f"an InternalTag carrying a {lname} array comes back with other entries"))
        except Exception as ex:
            fails.append(dict(args=dict(layout=lname), failed="ndarray-roundtrip-raised", clause=f"{ex!r}"))
    seen, uniq = set(), []
    for f_ in fails:
        key = (f_["failed"], f_["args"].get("dtype"), f_["args"].get("layout"))
        if key not in seen:
            seen.add(key)
            uniq.append(f_)
    return dict(function=F_, case="ndarrays", bound="11 array message kinds x 6 shapes x 5 memory layouts; InternalGate / InternalTag with a 3x4 array in 3 layouts", cases=cases, distinct=cases, failures=len(uniq), exhaustive=False, _fails=uniq[:4])
standin_ndarrays.prop = "C16"

STANDINS = [standin_bits_native, standin_circuit_roundtrip, standin_results_roundtrip, standin_sweeps_roundtrip, standin_run_contexts, standin_conditions_roundtrip, standin_device_specs, standin_ndarrays]

NOT_COVERED = [
    "circuit/sweep/result/device protos themselves (protobuf reflection, float32 rounding): bounded round trips only; device specifications not exercised",
    "constants-table invariant of the circuit serializer (shared constants never mix up operations): probed by adversarial tags only",
]
ASSUMPTIONS = ["numpy contracts assumed in C16_bits (np.pad, reshape, [:, ::-1], packbits/unpackbits MSB-first, tobytes/frombuffer, astype, slicing); cross-checked natively for n <= 130"]
EXPLANATION = ("C16: pack_bits/unpack_bits proved for any length against the bit-level formula (numpy calls through assumed contracts, cross-checked natively); "
               "everything protobuf-based is a bounded round trip. ")
