"""C17 — the IonQ payload entry of one operation denotes the operation's unitary up to global phase, for ALL parameter values.

Deductive (trigpoly): the REAL `cirq_ionq.Serializer._serialize_op` runs on gates with symbolic exponents / phases / angles;
the returned JSON entry is interpreted with IonQ's documented gate matrices (QIS gates x, y, z, h, s, si, t, ti, v, vi, rx, ry,
rz, xx, yy, zz, swap, cnot and the native gates gpi, gpi2, ms, zz — written below from docs.ionq.com, in exact arithmetic) and must
be proportional to the documented matrix of the Cirq gate (contracts/gate_specs.py; for the native gates: their own real
`_unitary_`, i.e. the payload and the simulator agree).  `_near_mod_n(e, t, 2)` is explored as in C19: generic outcome plus
the family e = t + 2K at K = 0, 1, -1.  The float written into the JSON document is assumed to be the exact value."""
import time
from fractions import Fraction

import numpy as np

from pyvc import api, paths, trigpoly
from pyvc.trigpoly import Angle, TrigPoly
from contracts import gate_specs as gs
from contracts.C03_gates import _rep
from contracts.C04_kernels import _CmathShim, _MathShim
from contracts.C15_closed_forms import kron, expi, I2, X, Y, Z, O
from contracts.C19_qasm import proportional_exact, _solve

F = "cirq-ionq/cirq_ionq/serializer.py"
PI = gs.PI


def rot(P, angle):
    """exp(-i angle P / 2)"""
    return expi(-(Angle.of(angle) / 2), P)


def ionq_matrix(op):
    g = op["gate"]
    c1 = TrigPoly.const
    table = {"x": X, "not": X, "y": Y, "z": Z, "h": gs.h_pow(Fraction(1)), "s": O([[1, 0], [0, c1(1j)]]), "si": O([[1, 0], [0, c1(-1j)]]),
             "t": O([[1, 0], [0, gs.cis(PI * Fraction(1, 4))]]), "ti": O([[1, 0], [0, gs.cis(PI * Fraction(-1, 4))]]),
             "swap": O([[1, 0, 0, 0], [0, 0, 1, 0], [0, 1, 0, 0], [0, 0, 0, 1]]), "cnot": O([[1, 0, 0, 0], [0, 1, 0, 0], [0, 0, 0, 1], [0, 0, 1, 0]])}
    if g in table:
        return table[g]
    if g == "v":
        return rot(X, PI * Fraction(1, 2))
    if g == "vi":
        return rot(X, PI * Fraction(-1, 2))
    if g in ("rx", "ry", "rz"):
        return rot({"rx": X, "ry": Y, "rz": Z}[g], op["rotation"])
    if g in ("xx", "yy", "zz") and "rotation" in op:
        P = {"xx": kron(X, X), "yy": kron(Y, Y), "zz": kron(Z, Z)}[g]
        return rot(P, op["rotation"])
    if g == "gpi":
        p = Angle.of(op["phase"]) * 2 * PI
        return O([[0, (-p).cis()], [p.cis(), 0]])
    if g == "gpi2":
        p = Angle.of(op["phase"]) * 2 * PI
        s = trigpoly._const_sqrt(Fraction(1, 2))
        mi = TrigPoly.const(-1j)
        return O([[s, mi * (-p).cis() * s], [mi * p.cis() * s, s]])
    if g == "ms":
        p0, p1 = (Angle.of(x) * 2 * PI for x in op["phases"])
        th = Angle.of(op.get("angle", Fraction(1, 4))) * 2 * PI
        c, s = (th / 2).cos(), (th / 2).sin()
        mi = TrigPoly.const(-1j)
        z = TrigPoly()
        return O([[c, z, z, mi * (-(p0 + p1)).cis() * s], [z, c, mi * (-(p0 - p1)).cis() * s, z], [z, mi * (p0 - p1).cis() * s, c, z], [mi * (p0 + p1).cis() * s, z, z, c]])
    if g == "zz":
        th = Angle.of(op["phase"]) * 2 * PI
        a, b = (-(th / 2)).cis(), (th / 2).cis()
        z = TrigPoly()
        return O([[a, z, z, z], [z, b, z, z], [z, z, b, z], [z, z, z, a]])
    raise NotImplementedError(g)


class _Ctx:
    def __init__(self):
        self.eq = []

    def decide_angle_equal(self, a, b):
        self.eq.append((a, b))
        return False

    def decide_poly_equal(self, a, b):
        return False

    def decide_undecided(self, what):
        return False

    def decide_abs_order(self, src, o):
        # abs(src) <= tolerance: generic outcome False; the family src == 0 is rerun concretely
        self.eq.append((src, Angle.of(0)))
        return False

    def decide_undecided_order(self, what):
        return False

    def integer_symbol(self, a, o):
        self.n = getattr(self, "n", 0) + 1
        return f"int#{self.n}"


def _families():
    import cirq
    import cirq_ionq
    import cirq_ionq.ionq_native_gates as ng

    ng.cmath, ng.math = _CmathShim(), _MathShim()
    fams = []

    def eig(cls, mat, nq):
        fams.append(dict(name=cls.__name__, nq=nq, params=["e", "s"], make=lambda e, s, cls=cls: cls(exponent=e, global_shift=s), spec=lambda e, s, mat=mat: mat(e)))

    eig(cirq.XPowGate, gs.x_pow, 1)
    eig(cirq.YPowGate, gs.y_pow, 1)
    eig(cirq.ZPowGate, gs.z_pow, 1)
    eig(cirq.HPowGate, gs.h_pow, 1)
    eig(cirq.XXPowGate, gs.xx_pow, 2)
    eig(cirq.YYPowGate, gs.yy_pow, 2)
    eig(cirq.ZZPowGate, gs.zz_pow, 2)
    eig(cirq.CNotPowGate, gs.cx_pow, 2)
    eig(cirq.SwapPowGate, gs.swap_pow, 2)
    native = lambda g: np.asarray(cirq.unitary(g), dtype=object)
    fams.append(dict(name="GPIGate", nq=1, params=["phi"], make=lambda phi: cirq_ionq.GPIGate(phi=phi), spec=None))
    fams.append(dict(name="GPI2Gate", nq=1, params=["phi"], make=lambda phi: cirq_ionq.GPI2Gate(phi=phi), spec=None))
    fams.append(dict(name="MSGate", nq=2, params=["phi0", "phi1", "theta"], make=lambda phi0, phi1, theta: cirq_ionq.MSGate(phi0=phi0, phi1=phi1, theta=theta), spec=None))
    fams.append(dict(name="ZZGate", nq=2, params=["theta"], make=lambda theta: cirq_ionq.ZZGate(theta=theta), spec=None))
    return fams


def check_serializer():
    import cirq
    import cirq_ionq

    ser = cirq_ionq.Serializer()
    reps = []
    for fam in _families():
        obls, seen, work = [], set(), [{}]
        while work and len(seen) < 40:
            assign = work.pop(0)
            tag = tuple(sorted(assign.items()))
            if tag in seen:
                continue
            seen.add(tag)
            label = ", ".join(f"{p}={assign[p]}" if p in assign else f"{p}=*" for p in fam["params"])
            vals = {p: (assign[p] if p in assign else Angle.sym(p)) for p in fam["params"]}
            t0 = time.time()
            ctx = _Ctx()
            st, detail, entry = "proved", "", None
            for orient in ((0, 1), (1, 0)) if fam["nq"] == 2 else ((0,),):
                qs = [cirq.LineQubit(i) for i in orient]
                try:
                    trigpoly.CTX = ctx
                    try:
                        gate = fam["make"](**vals)
                        try:
                            entry = ser._serialize_op(gate.on(*qs))
                        except ValueError:
                            entry = None  # refused: not serialisable at this exponent (the target gateset decomposes it first)
                        want = fam["spec"](**vals) if fam["spec"] else np.asarray(cirq.unitary(gate), dtype=object)
                    finally:
                        trigpoly.CTX = None
                    if entry is not None:
                        targets = entry.get("targets") if "targets" in entry else ([entry["control"], entry["target"]] if "control" in entry else [entry["target"]])
                        if list(targets) != [q.x for q in qs]:
                            st, detail = "failed", f"{fam['name']}({label}) on qubits {orient}: targets {targets}"
                            break
                        ok, d = proportional_exact(ionq_matrix(entry), want)
                        if not ok:
                            st, detail = "failed", f"{fam['name']}({label}) is sent as {entry!r}: {d}"
                            break
                except Exception as ex:  # engine limit: not a verdict
                    st, detail = "error", f"{type(ex).__name__}: {ex}"
                    break
            o = paths.Obligation(f"C17/{F}:Serializer._serialize_op#payload-denotes-unitary[{fam['name']}; {label}]", "engine", st, (time.time() - t0) * 1e3, "trigpoly",
                                 detail=detail or ("" if entry is not None else "refused (ValueError): not sent"))
            o.case = fam["name"]
            o.concrete = dict(gate=fam["name"], assignment={k: str(v) for k, v in assign.items()})
            obls.append(o)
            for a, b in ctx.eq:
                r = _solve(a, Angle.of(b))
                if r is None:
                    continue
                s, vs = r
                if s in assign or s not in fam["params"]:
                    continue
                for v in vs:
                    work.append({**assign, s: v})
        reps.append(_rep(f"{F}:Serializer._serialize_op[{fam['name']}]", obls, "C17"))
    return reps


ENGINE_CHECKS = [check_serializer]

CANARIES = [
    dict(name="rz rotation in half turns", file=F, engine_check=0,
         find="        return {'gate': 'rz', 'targets': targets, 'rotation': gate.exponent * np.pi}", replace="        return {'gate': 'rz', 'targets': targets, 'rotation': gate.exponent}"),
    dict(name="v and vi exchanged", file=F, engine_check=0,
         find="        elif self._near_mod_n(gate.exponent, 0.5, 2):\n            return {'gate': 'v', 'targets': targets}", replace="        elif self._near_mod_n(gate.exponent, 0.5, 2):\n            return {'gate': 'vi', 'targets': targets}"),
    dict(name="cnot control and target exchanged", file=F, engine_check=0,
         find="            return {'gate': 'cnot', 'control': targets[0], 'target': targets[1]}", replace="            return {'gate': 'cnot', 'control': targets[1], 'target': targets[0]}"),
]
NOT_COVERED = ["pauliexp entries (PauliStringPhasorGate), measurement entries, metadata and job settings: stand-in (C17_payloads.py)", "AQT operation lists: stand-in"]
ASSUMPTIONS = ["IonQ gate meanings as documented at docs.ionq.com (transcribed in ionq_matrix)", "JSON number formatting is exact", "cmath.exp / math.cos on symbolic angles (shims) are the exact functions"]
EXPLANATION = "C17: every QIS and native gate entry the IonQ serializer emits proved to denote the gate's unitary up to global phase for all exponents / phases / angles (trigpoly); "
