"""C12 — lexical scoping of classical conditions and sub-circuit equivalence.

Deductive part: Condition._with_rescoped_keys_ — for scope paths of length 0..4 (loop unrolled) and EVERY set of bindable
keys (membership of each candidate key is a free boolean: all 2^(n+1) patterns are explored symbolically), the condition is
rebound to the key prefixed with the LONGEST prefix of the path that is bindable (innermost enclosing scope), and left
unchanged when none is.  Everything else (wrapped vs unrolled circuits) is a bounded stand-in."""
import z3

from pyvc import sym
from pyvc.api import Contract, Case
from pyvc.sym import wrap

F = "cirq-core/cirq/value/condition.py"
BIND = z3.Function("bindable_prefix_len", z3.IntSort(), z3.BoolSort())
BASE_PATH = ("inner",)


class _KeySet(sym.Sym):
    """frozenset of bindable keys, seen only through membership tests of `key prefixed with path[:m]` (free boolean per m)"""

    def __init__(self, base_key, path):
        self.base, self.path = base_key, path

    def __contains__(self, k):
        for m in range(len(self.path) + 1):
            if k == self.base.with_key_path_prefix(*self.path[:m]):
                return bool(wrap(BIND(m)))
        raise sym.OutOfReach(f"membership test of an unexpected key {k!r}")


def B(m):
    return wrap(BIND(m))


B._pyvc_native_ok = True


def _setup(n):
    def setup(interp):
        import cirq

        key = cirq.MeasurementKey("k", path=BASE_PATH)
        path = tuple(f"scope{i}" for i in range(n))
        return {"self": cirq.KeyCondition(key), "path": path, "bindable_keys": _KeySet(key, path), "KEY": key, "N": n}
    return setup


def _ens(n):
    out = []
    for m in range(n + 1):
        later = " or ".join(f"B({j})" for j in range(m + 1, n + 1)) or "False"
        out.append(f"not (B({m}) and not ({later})) or result == self.replace_key(KEY, KEY.with_key_path_prefix(*path[:{m}]))")
    none = " or ".join(f"B({j})" for j in range(0, n + 1))
    out.append(f"({none}) or result == self")
    return out


Contract(
    F + ":Condition._with_rescoped_keys_", "C12",
    cases=[Case(f"path length {n}", {}, setup=_setup(n), ensures=_ens(n)) for n in range(0, 5)],
    env={"B": B}, inline=[F + ":KeyCondition.replace_key"],
    notes="path length <= 4 (loop unrolled); all bindable sets; key names generic",
)

CANARIES = [
    dict(name="prefixes tried outermost-first", file=F, function=F + ":Condition._with_rescoped_keys_",
         find="                back_path = path[: len(path) - i]\n", replace="                back_path = path[:i]\n"),
]


# ---- ClassicallyControlledOperation._with_rescoped_keys_: the sub-operation is rescoped too ------------------------------------
from pyvc.interp import SRec
from pyvc.sym import SObj

FO = "cirq-core/cirq/ops/classically_controlled_operation.py"
OpS2, CondS2 = sym.sort("ScOp"), sym.sort("ScCond")
RESC_OP = z3.Function("rescoped_operation", OpS2, OpS2)       # with_rescoped_keys(op, path, bindable_keys) for the fixed path / keys of the call
RESC_COND = z3.Function("rescoped_condition", CondS2, CondS2)
_BUILT = {}


def _m_rescope(interp, args, kwargs):
    x = args[0]
    if isinstance(x, SObj) and x.sortname == "ScOp":
        return SObj(RESC_OP(x.e), "ScOp")
    if isinstance(x, SObj) and x.sortname == "ScCond":
        return SObj(RESC_COND(x.e), "ScCond")
    return NotImplemented


def _wcc(op):
    def with_classical_controls(*conds):
        _BUILT["result"] = (op, tuple(conds))
        return ("CONTROLLED", op, tuple(conds))
    with_classical_controls._pyvc_native_ok = True
    return with_classical_controls


SObj.ATTRS["ScOp"] = {"with_classical_controls": _wcc}


def _cco(k):
    def mk(name):
        import cirq

        sub = sym.fresh_obj("ScOp", "sub")
        conds = tuple(sym.fresh_obj("ScCond", f"c{i}") for i in range(k))
        _BUILT.clear()
        _BUILT.update(sub=sub, conds=conds)
        return SRec(cirq.ClassicallyControlledOperation, {"_sub_operation": sub, "_conditions": conds})
    return mk


def rescoped_all(result):
    """result is `rescoped(sub).with_classical_controls(*rescoped conditions)` (in order)"""
    if not (isinstance(result, tuple) and len(result) == 3 and result[0] == "CONTROLLED"):
        return False
    _, op, conds = result
    sub, cs = _BUILT["sub"], _BUILT["conds"]
    t = [op.e == RESC_OP(sub.e)] + [c.e == RESC_COND(o.e) for c, o in zip(conds, cs)]
    return wrap(z3.And(*t)) if len(conds) == len(cs) else False


rescoped_all._pyvc_native_ok = True

Contract(
    FO + ":ClassicallyControlledOperation._with_rescoped_keys_", "C12",
    cases=[Case(f"{k} condition(s)", {"self": _cco(k), "path": ("const", ("scope",)), "bindable_keys": ("const", frozenset())}) for k in (1, 2)],
    ensures=["rescoped_all(result)"],
    env={"rescoped_all": rescoped_all},
    models={("cirq.protocols.measurement_key_protocol", "with_rescoped_keys"): _m_rescope},
    notes="the sub-operation (it may be a sub-circuit with conditions of its own) and every condition are rescoped with the same path and keys, and recombined in order",
)

CANARIES = CANARIES + [
    dict(name="controlled operation does not rescope its sub-operation", file=FO, function=FO + ":ClassicallyControlledOperation._with_rescoped_keys_",
         find="        sub_operation = protocols.with_rescoped_keys(self._sub_operation, path, bindable_keys)\n", replace="        sub_operation = self._sub_operation\n"),
]


# the other two key-moving methods have the same shape: f(sub).with_classical_controls(*[f(c) for c in conditions])
for _meth, _mod_fn, _extra in (("_with_measurement_key_mapping_", "with_measurement_key_mapping", {"key_map": ("const", {"a": "z"})}),
                               ("_with_key_path_prefix_", "with_key_path_prefix", {"prefix": ("const", ("p",))})):
    Contract(
        FO + f":ClassicallyControlledOperation.{_meth}", "C12",
        cases=[Case(f"{k} condition(s)", {"self": _cco(k), **_extra}) for k in (1, 2)],
        ensures=["rescoped_all(result)"],
        env={"rescoped_all": rescoped_all},
        models={("cirq.protocols.measurement_key_protocol", _mod_fn): _m_rescope},
        notes="the key transformation is applied to the sub-operation (it may carry control keys of its own) and to every condition, recombined in order",
    )
CANARIES = CANARIES + [
    dict(name="controlled operation does not remap the keys of its sub-operation", file=FO, function=FO + ":ClassicallyControlledOperation._with_measurement_key_mapping_",
         find="        sub_operation = protocols.with_measurement_key_mapping(self._sub_operation, key_map)\n        sub_operation = self._sub_operation if sub_operation is NotImplemented else sub_operation\n        return sub_operation.with_classical_controls(*conditions)",
         replace="        sub_operation = self._sub_operation\n        return sub_operation.with_classical_controls(*conditions)"),
]


# ---- replace_key of the key-based conditions: everything but the key survives ---------------------------------------------------
from pyvc.interp import SRec as _SRec


def _keycond(name):
    import cirq

    return _SRec(cirq.KeyCondition, {"key": sym.fresh_obj("MKey", "key"), "index": sym.fresh_int("index")})


def _maskcond(with_mask):
    def mk(name):
        import cirq

        return _SRec(cirq.BitMaskKeyCondition, {"key": sym.fresh_obj("MKey", "key"), "index": sym.fresh_int("index"), "target_value": sym.fresh_int("target"),
                                                "equal_target": sym.fresh_bool("equal"), "bitmask": sym.fresh_int("mask") if with_mask else None})
    return mk


def _m_evolve(interp, args, kwargs):
    """attrs.evolve(inst, **changes): a copy of the record with the named fields replaced"""
    (inst,) = args
    if isinstance(inst, _SRec):
        fields = dict(object.__getattribute__(inst, "_fields"))
        fields.update(kwargs)
        return _SRec(object.__getattribute__(inst, "_cls"), fields)
    return NotImplemented


Contract(
    F + ":KeyCondition.replace_key", "C12",
    params={"self": _keycond, "current": "obj:MKey", "replacement": "obj:MKey"},
    ensures=["result.key == (replacement if self.key == current else self.key)", "result.index == self.index"],
    notes="keys abstract; the index (which record of the key is tested) must survive a renaming of the key",
)
Contract(
    F + ":BitMaskKeyCondition.replace_key", "C12",
    cases=[Case("with a bitmask", {"self": _maskcond(True), "current": "obj:MKey", "replacement": "obj:MKey"}, ensures=["result.bitmask == self.bitmask"]),
           Case("bitmask None", {"self": _maskcond(False), "current": "obj:MKey", "replacement": "obj:MKey"}, ensures=["result.bitmask is None"])],
    ensures=["result.key == (replacement if self.key == current else self.key)", "result.index == self.index", "result.target_value == self.target_value",
             "result.equal_target == self.equal_target"],
    models={("attr._make", "evolve"): _m_evolve, ("attr._funcs", "evolve"): _m_evolve},
    notes="keys abstract; index, mask, target and comparison sense must survive a renaming of the key",
)
CANARIES = CANARIES + [
    dict(name="KeyCondition.replace_key resets the index", file=F, function=F + ":KeyCondition.replace_key",
         find="        return KeyCondition(replacement, self.index) if self.key == current else self", replace="        return KeyCondition(replacement) if self.key == current else self"),
    dict(name="BitMaskKeyCondition.replace_key rebuilds a bare key condition", file=F, function=F + ":BitMaskKeyCondition.replace_key",
         find="        return attrs.evolve(self, key=replacement) if self.key == current else self", replace="        return attrs.evolve(self, key=replacement, bitmask=None) if self.key == current else self"),
]


def _replay_replace_key(ob, seed):
    """concrete call of the real replace_key on conditions whose non-key fields are all non-default"""
    import cirq

    m, n = cirq.MeasurementKey("m"), cirq.MeasurementKey("n")
    for c in (cirq.KeyCondition(m, index=0), cirq.BitMaskKeyCondition(m, index=0, target_value=2, equal_target=True, bitmask=6)):
        try:
            r = c.replace_key(m, n)
        except Exception as ex:
            return dict(args=dict(condition=repr(c), current="m", replacement="n"), failed="replace_key", clause=f"raised {ex!r}")
        want = type(c)(n, **{f: getattr(c, f) for f in ("index", "target_value", "equal_target", "bitmask") if hasattr(c, f)})
        if r != want:
            return dict(args=dict(condition=repr(c), current="m", replacement="n"), failed="replace_key", clause=f"replace_key gives {r!r}; only the key may change: {want!r}")
    return None


REPLAYERS = dict(globals().get("REPLAYERS", {}), **{F + ":KeyCondition.replace_key": _replay_replace_key, F + ":BitMaskKeyCondition.replace_key": _replay_replace_key})
