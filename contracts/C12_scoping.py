"""C12 — lexical scoping of classical conditions and sub-circuit equivalence.

Deductive part: Condition._with_rescoped_keys_ — for scope paths of length 0..4 (loop unrolled) and EVERY set of bindable
keys (membership of each candidate key is a free boolean: all 2^(n+1) patterns are explored symbolically), the condition is
rebound to the key prefixed with the LONGEST prefix of the path that is bindable (innermost enclosing scope), and left
unchanged when none is.  Everything else (wrapped vs unrolled circuits) is a bounded stand-in."""
import z3

from pyvc import sym
from pyvc.api import Contract, Case
from pyvc.sym import wrap

F = "cirq-core/cirq/value/condition.py"
BIND = z3.Function("bindable_prefix_len", z3.IntSort(), z3.BoolSort())
BASE_PATH = ("inner",)


class _KeySet(sym.Sym):
    """frozenset of bindable keys, seen only through membership tests of `key prefixed with path[:m]` (free boolean per m)"""

    def __init__(self, base_key, path):
        self.base, self.path = base_key, path

    def __contains__(self, k):
        for m in range(len(self.path) + 1):
            if k == self.base.with_key_path_prefix(*self.path[:m]):
                return bool(wrap(BIND(m)))
        raise sym.OutOfReach(f"membership test of an unexpected key {k!r}")


def B(m):
    return wrap(BIND(m))


B._pyvc_native_ok = True


def _setup(n):
    def setup(interp):
        import cirq

        key = cirq.MeasurementKey("k", path=BASE_PATH)
        path = tuple(f"scope{i}" for i in range(n))
        return {"self": cirq.KeyCondition(key), "path": path, "bindable_keys": _KeySet(key, path), "KEY": key, "N": n}
    return setup


def _ens(n):
    out = []
    for m in range(n + 1):
        later = " or ".join(f"B({j})" for j in range(m + 1, n + 1)) or "False"
        out.append(f"not (B({m}) and not ({later})) or result == self.replace_key(KEY, KEY.with_key_path_prefix(*path[:{m}]))")
    none = " or ".join(f"B({j})" for j in range(0, n + 1))
    out.append(f"({none}) or result == self")
    return out


Contract(
    F + ":Condition._with_rescoped_keys_", "C12",
    cases=[Case(f"path length {n}", {}, setup=_setup(n), ensures=_ens(n)) for n in range(0, 5)],
    env={"B": B},
    notes="path length <= 4 (loop unrolled); all bindable sets; key names generic",
)

CANARIES = [
    dict(name="prefixes tried outermost-first", file=F, function=F + ":Condition._with_rescoped_keys_",
         find="                back_path = path[: len(path) - i]\n", replace="                back_path = path[:i]\n"),
]
