"""C10 — bounded stand-ins (NOT counted as proved): sweep enumeration, resolution vs substitution, sweeps vs per-point simulation."""
import itertools
import random

import numpy as np


def _points_spec(s):
    """the assignments a sweep DEFINES (written from the class docstrings), as a list of {key: value}"""
    import cirq

    if isinstance(s, cirq.Points):
        return [{s.key: v} for v in s.points]
    if isinstance(s, cirq.Linspace):
        n = s.length
        return [{s.key: s.start}] if n == 1 else [{s.key: s.start + (s.stop - s.start) * i / (n - 1)} for i in range(n)]
    if isinstance(s, cirq.ZipLongest):
        parts = [_points_spec(f) for f in s.sweeps]
        n = max(map(len, parts)) if parts else 0
        return [{k: v for p in parts for k, v in p[min(i, len(p) - 1)].items()} for i in range(n)]
    if isinstance(s, cirq.Zip):
        parts = [_points_spec(f) for f in s.sweeps]
        n = min(map(len, parts)) if parts else 0
        return [{k: v for p in parts for k, v in p[i].items()} for i in range(n)]
    if isinstance(s, cirq.Product):
        parts = [_points_spec(f) for f in s.factors]
        return [{k: v for d in combo for k, v in d.items()} for combo in itertools.product(*parts)]
    if isinstance(s, cirq.Concat):
        return [d for f in s.sweeps for d in _points_spec(f)]
    if isinstance(s, cirq.ListSweep):
        return [dict(r.param_dict) for r in s.resolver_list]
    if s is cirq.UnitSweep or type(s).__name__ == "_Unit":
        return [{}]
    raise NotImplementedError(type(s))


def _gen_sweep(rng, depth, names):
    import cirq

    r = rng.random()
    if r > 0.93 and len(names) >= 3:
        # a list of resolvers over the same keys, each written in its own key order
        ks = [names.pop() for _ in range(rng.randrange(1, 4))]
        rows = []
        ragged = rng.random() < 0.3  # resolvers that do not all assign the same parameters (the wire format must refuse these, not merge them)
        for _ in range(rng.randrange(1, 4)):
            order = rng.sample(ks, len(ks))
            if ragged:
                order = order[:rng.randrange(0, len(order) + 1)]
            rows.append({k_: rng.randrange(-4, 5) / 4 for k_ in order})
        return cirq.ListSweep(rows)
    if depth == 0 or r < 0.35:
        k = names.pop() if names else "z"
        return rng.choice([lambda: cirq.Points(k, [rng.randrange(-3, 4) / 2 for _ in range(rng.randrange(0, 4))]),
                           lambda: cirq.Linspace(k, rng.randrange(-2, 3), rng.randrange(-2, 3), rng.randrange(1, 5))])()
    kids = [_gen_sweep(rng, depth - 1, names) for _ in range(rng.randrange(1, 4))]
    if r < 0.55:
        return cirq.Product(*kids)
    if r < 0.75:
        return cirq.Zip(*kids)
    if r < 0.85 and all(len(k) > 0 for k in kids):
        return cirq.ZipLongest(*kids)
    same = kids[0]
    # Concat needs identical keys: concatenate variants of one single-key sweep
    if isinstance(same, (cirq.Points, cirq.Linspace)):
        return cirq.Concat(same, cirq.Points(same.key, [9.5, -9.5]), same)
    return cirq.Product(*kids)


def standin_sweeps(tier, seed):
    import cirq

    rng = random.Random(seed)
    cases, fails = 0, []
    for _ in range(300 if tier == "quick" else 1500):
        names = [f"s{i}" for i in range(12)]
        try:
            s = _gen_sweep(rng, rng.randrange(0, 4), names)
        except ValueError:
            continue
        want = _points_spec(s)
        cases += 1

        def asdict(r):
            return {str(k): v for k, v in r.param_dict.items()}
        want_s = [{str(k): v for k, v in d.items()} for d in want]
        got = [asdict(r) for r in s]
        ctx = dict(sweep=repr(s))
        if len(s) != len(want):
            fails.append(dict(args=ctx, failed="len", clause=f"len() = {len(s)} but the sweep defines {len(want)} assignments"))
        if got != want_s and not _close(got, want_s):
            fails.append(dict(args=ctx, failed="iteration", clause="iteration differs from the assignments the sweep defines"))
        n = len(want)
        for i in list(range(-n - 1, n + 1)):
            try:
                g = asdict(s[i])
                if not (-n <= i < n) or not _close([g], [want_s[i]]):
                    fails.append(dict(args=dict(ctx, index=i), failed="getitem", clause="indexing differs from iteration"))
            except IndexError:
                if -n <= i < n:
                    fails.append(dict(args=dict(ctx, index=i), failed="getitem", clause="IndexError for an in-range index"))
        for sl in (slice(None, None, 2), slice(1, None), slice(None, -1), slice(None, None, -1), slice(-3, 5, 2)):
            g = [asdict(r) for r in s[sl]]
            if not _close(g, want_s[sl]):
                fails.append(dict(args=dict(ctx, slice=repr(sl)), failed="slice", clause="slicing differs from slicing the list of assignments"))
        # through the wire formats that carry sweeps: the same assignments come back (or the sweep is refused)
        try:
            from cirq_google.api import v2 as _v2
            back = _v2.sweep_from_proto(_v2.sweep_to_proto(s))
            gb = [asdict(r) for r in back]
            if not _close(gb, want_s):
                fails.append(dict(args=dict(ctx, back=repr(back)[:600]), failed="wire-roundtrip", clause="the sweep read back from the v2 message enumerates different assignments"))
        except (ImportError, ValueError, TypeError, NotImplementedError):
            pass
        except IndexError:
            pass  # empty Points: recorded under C16 as a known finding of the wire format
        # operators: a + b zips the two sweeps as they are (whatever their own kind), a * b is their product
        try:
            t = _gen_sweep(rng, rng.randrange(0, 3), names)
        except ValueError:
            t = None
        if t is not None:
            wt = [{str(k): v for k, v in d.items()} for d in _points_spec(t)]
            cases += 1
            try:
                zs = [asdict(r) for r in (s + t)]
                wz = [dict(want_s[i], **wt[i]) for i in range(min(len(want_s), len(wt)))]
                if not _close(zs, wz):
                    fails.append(dict(args=dict(a=repr(s), b=repr(t)), failed="add", clause=f"a + b is not the zip of a's and b's assignments: {len(zs)} points, expected {len(wz)}"))
                ps_ = [asdict(r) for r in (s * t)]
                wp = [dict(x, **y) for x in want_s for y in wt]
                if not _close(ps_, wp):
                    fails.append(dict(args=dict(a=repr(s), b=repr(t)), failed="mul", clause="a * b is not the product of a's and b's assignments (a-major)"))
            except ValueError:
                pass
        if len(fails) >= 4:
            break
    return dict(function="cirq-core/cirq/study/sweeps.py[len, iteration, indexing, slicing]", case="sweeps",
                bound="seeded nested sweeps (depth <= 3, fan-out <= 3) of Points/Linspace/Product/Zip/ZipLongest/Concat/ListSweep (resolvers with their own key orders), also read back from the v2 wire message; every index in [-n-1, n], 5 slices; a + b and a * b of two such sweeps",
                cases=cases, distinct=cases, failures=len(fails), exhaustive=False, _fails=fails[:4])
standin_sweeps.prop = "C10"


def _close(a, b):
    if len(a) != len(b):
        return False
    for x, y in zip(a, b):
        if set(x) != set(y) or any(abs(x[k] - y[k]) > 1e-12 for k in x):
            return False
    return True


def standin_resolution(tier, seed):
    """resolve-then-compute == substitute-then-compute; sweeps == per-point simulation"""
    import cirq
    import sympy

    rng = random.Random(seed)
    cases, fails = 0, []
    a, b, c = sympy.symbols("a b c")
    exprs = [a, 2 * a, a + b, a * b, a ** 2, a - b / 2, sympy.pi * a / 4, (a + 1) * (b - 1), a + b + c, -a]
    q = cirq.LineQubit.range(3)
    for _ in range(60 if tier == "quick" else 250):
        vals = {"a": rng.choice([0.25, -0.5, 1.0, 0.37]), "b": rng.choice([0.5, 2.0, -0.25]), "c": rng.choice([0.1, 1.5])}
        e1, e2 = rng.choice(exprs), rng.choice(exprs)
        gates = [cirq.X ** e1, cirq.ZPowGate(exponent=e2, global_shift=0.25), cirq.CZ ** e1, cirq.rx(e2), cirq.FSimGate(e1, e2), cirq.PhasedXPowGate(phase_exponent=e1, exponent=e2),
                 cirq.PhasedISwapPowGate(phase_exponent=e1, exponent=e2, global_shift=0.5), cirq.ISWAP ** e2, cirq.ZZ ** e1, cirq.XXPowGate(exponent=e1, global_shift=-0.5),
                 cirq.PhasedXZGate(x_exponent=e1, z_exponent=e2, axis_phase_exponent=0.25), cirq.PhasedFSimGate(e1, e2, 0.1, e1, 0.2)]
        res = cirq.ParamResolver(vals)
        for g in gates:
            cases += 1
            try:
                resolved = cirq.resolve_parameters(g, res)
                u = cirq.unitary(resolved)
            except Exception as ex:
                fails.append(dict(args=dict(gate=repr(g), values=vals), failed="resolve-raised", clause=f"{ex!r}"))
                continue
            # substitute numbers into the constructor arguments by ordinary algebra and rebuild the same gate family
            sub = lambda x: float(sympy.sympify(x).subs({a: vals["a"], b: vals["b"], c: vals["c"]})) if isinstance(x, sympy.Basic) else x
            want = cirq.unitary(_rebuild(g, sub))
            if not np.allclose(u, want, atol=1e-8):
                fails.append(dict(args=dict(gate=repr(g), values=vals), failed="resolve-vs-substitute",
                                  clause="resolving parameters changes more than the symbols: unitary differs from the gate built with the substituted numbers"))
            # parameter names: exactly the symbols written into the gate, also through a sub-circuit operation; is_parameterized agrees
            syms_ = {str(x) for e_ in (e1, e2) for x in (e_.free_symbols if isinstance(e_, sympy.Basic) else ())}
            import re as _re
            used = set(_re.findall(r"Symbol\('(\w+)'\)", repr(g))) & syms_
            names_ = cirq.parameter_names(g)
            if names_ != used or cirq.is_parameterized(g) != bool(used):
                fails.append(dict(args=dict(gate=repr(g)), failed="parameter-names", clause=f"parameter_names = {sorted(names_)}, is_parameterized = {cirq.is_parameterized(g)}; the gate was built from the symbols {sorted(used)}"))
            else:
                qs_ = cirq.LineQubit.range(cirq.num_qubits(g))
                co = cirq.CircuitOperation(cirq.FrozenCircuit(g.on(*qs_)))
                if cirq.parameter_names(co) != used:
                    fails.append(dict(args=dict(gate=repr(g)), failed="parameter-names", clause=f"a sub-circuit operation around the gate reports parameter names {sorted(cirq.parameter_names(co))}, expected {sorted(used)}"))
                elif used and not np.allclose(cirq.unitary(cirq.Circuit(cirq.resolve_parameters(co, res))), want, atol=1e-8):
                    fails.append(dict(args=dict(gate=repr(g), values=vals), failed="resolve-through-subcircuit", clause="resolving a sub-circuit operation around the gate differs from substituting the numbers"))
            # unrelated symbols stay; composition of resolvers
            partial = cirq.resolve_parameters(g, cirq.ParamResolver({"a": vals["a"]}))
            full = cirq.resolve_parameters(partial, cirq.ParamResolver({"b": vals["b"], "c": vals["c"]}))
            if not cirq.is_parameterized(full) and not np.allclose(cirq.unitary(full), want, atol=1e-8):
                fails.append(dict(args=dict(gate=repr(g), values=vals), failed="compositional", clause="resolving a then (b, c) differs from resolving all at once"))
        # one-step vs recursive resolution through every kind of wrapper around a parameterized operation: with the chain {a: b, b: c} one step
        # gives b, the recursive form gives c; with the swap {a: b, b: a} one step gives b
        if _ == 0:
            base_op = cirq.X(q[0]) ** a
            wrappers = {
                "plain": lambda o: o, "tagged": lambda o: o.with_tags("t"), "classically controlled": lambda o: o.with_classical_controls("m"),
                "controlled": lambda o: o.controlled_by(q[1]), "sub-circuit": lambda o: cirq.CircuitOperation(cirq.FrozenCircuit(o)),
                "controlled and tagged": lambda o: o.with_classical_controls("m").with_tags("t"), "moment": lambda o: cirq.Moment(o), "circuit": lambda o: cirq.Circuit(o, cirq.Z(q[1]) ** b),
            }
            # a symbol outside the body: the repetition count of a sub-circuit, the assignments a sub-circuit carries
            wrappers["sub-circuit repeated a symbolic number of times"] = lambda o: cirq.CircuitOperation(cirq.FrozenCircuit(cirq.X(q[0])), repetitions=a)
            wrappers["sub-circuit carrying an assignment to the symbol"] = lambda o: cirq.CircuitOperation(cirq.FrozenCircuit(cirq.X(q[0]) ** c), param_resolver={c: a})
            if hasattr(cirq, "If"):
                wrappers["if"] = lambda o: cirq.If("m", o)
            for wname, wrap_ in wrappers.items():
                w = wrap_(base_op)
                extra = {"b"} if wname == "circuit" else set()
                for mapping, once_want, rec_want in (({a: b, b: c}, {"b"} | ({"c"} if extra else set()), {"c"}), ({a: b, b: a}, {"b"} | ({"a"} if extra else set()), None), ({a: 2 * b}, {"b"}, {"b"})):
                    cases += 1
                    try:
                        got_once = cirq.parameter_names(cirq.resolve_parameters_once(w, mapping))
                        if got_once != once_want:
                            fails.append(dict(args=dict(wrapper=wname, mapping=repr(mapping), got=sorted(got_once)), failed="resolve-once", clause=f"resolve_parameters_once through '{wname}' leaves the symbols {sorted(got_once)}, expected {sorted(once_want)}"))
                        if rec_want is not None:
                            got_rec = cirq.parameter_names(cirq.resolve_parameters(w, mapping))
                            if got_rec != rec_want:
                                fails.append(dict(args=dict(wrapper=wname, mapping=repr(mapping), got=sorted(got_rec)), failed="resolve-recursive", clause=f"recursive resolution through '{wname}' leaves {sorted(got_rec)}, expected {sorted(rec_want)}"))
                    except RecursionError as ex:
                        fails.append(dict(args=dict(wrapper=wname, mapping=repr(mapping)), failed="resolve-once", clause=f"one-step resolution through '{wname}' recursed: {type(ex).__name__}"))
        # composition of resolvers: resolving with r1 and then r2 equals resolving once with the composed resolver, also when both
        # assign the same symbol (the inner assignment wins, and its value is then resolved by the outer one)
        for _c in range(3):
            keys1 = rng.sample([a, b, c], rng.randrange(1, 3))
            free = [sy for sy in (a, b, c) if sy not in keys1]  # r1's values mention only symbols r1 does not assign: one step == recursive
            pool_v = [0.9, 0.3, -0.5] + free + [free[0] + 0.1, 2 * free[-1]]
            r1 = {sy: rng.choice(pool_v) for sy in keys1}
            r2 = {sy: rng.choice([0.9, 0.3, -0.5, 1.25]) for sy in rng.sample([a, b, c], rng.randrange(1, 4))}
            x = rng.choice(exprs)
            cases += 1
            by_hand = sympy.sympify(x).subs(r1, simultaneous=True)
            by_hand = sympy.sympify(by_hand).subs(r2, simultaneous=True)
            try:
                composed = cirq.resolve_parameters(cirq.ParamResolver(r1), cirq.ParamResolver(r2))
                once = cirq.resolve_parameters_once(cirq.ParamResolver(r1), cirq.ParamResolver(r2))
                got1 = composed.value_of(x)
                got2 = once.value_of(x, recursive=False)
                seq = cirq.ParamResolver(r2).value_of(cirq.ParamResolver(r1).value_of(x))
            except Exception as ex:
                continue
            for label, got in (("resolve_parameters(r1, r2)", got1), ("resolve_parameters_once(r1, r2)", got2), ("value_of twice", seq)):
                probe = {a: 0.7310, b: -0.4127, c: 1.3359}  # whatever symbols remain are compared at a generic point
                d_ = complex(sympy.sympify(got).subs(probe)) - complex(sympy.sympify(by_hand).subs(probe))
                if abs(d_) > 1e-9:
                    fails.append(dict(args=dict(expression=repr(x), r1=repr(r1), r2=repr(r2), via=label), failed="resolver-composition",
                                      clause=f"{label} gives {got} for the expression; substituting r1 and then r2 by hand gives {by_hand}"))
                    break
        # linear combinations of gates / operations: resolving equals substituting term by term and ADDING (terms may become equal)
        for G in (cirq.X, cirq.Z, cirq.Y):
            ea, eb = rng.choice([a, b, a + b, 2 * a]), rng.choice([a, b, c, a * b])
            ca, cb = rng.choice([2, 0.5, -1, 1j]), rng.choice([3, 1, -0.5])
            lc = ca * G ** ea + cb * G ** eb
            cases += 1
            for pt in ({"a": 1.0, "b": 1.0, "c": 1.0}, vals):
                sub_ = lambda x: float(sympy.sympify(x).subs({a: pt["a"], b: pt["b"], c: pt["c"]}))
                want_m = ca * cirq.unitary(G ** sub_(ea)) + cb * cirq.unitary(G ** sub_(eb))
                try:
                    rl = cirq.resolve_parameters(lc, pt)
                    if len(rl) == 0:
                        if not np.allclose(want_m, 0, atol=1e-8):
                            fails.append(dict(args=dict(combination=repr(lc), values=pt), failed="linear-combination-resolve", clause="resolving made every term vanish although the substituted sum is not zero"))
                        continue
                    got_m = rl.matrix()
                except Exception as ex:
                    fails.append(dict(args=dict(combination=repr(lc), values=pt), failed="linear-combination-resolve-raised", clause=f"{ex!r}"))
                    continue
                if not np.allclose(got_m, want_m, atol=1e-8):
                    fails.append(dict(args=dict(combination=repr(lc), values=pt), failed="linear-combination-resolve", clause="resolving a linear combination of gates differs from substituting term by term and adding"))
            q_ = cirq.LineQubit(0)
            lo = cirq.LinearCombinationOfOperations({(G ** ea).on(q_): ca}) + cirq.LinearCombinationOfOperations({(G ** eb).on(q_): cb})
            pt = {"a": 1.0, "b": 1.0, "c": 1.0}
            sub_ = lambda x: float(sympy.sympify(x).subs({a: 1.0, b: 1.0, c: 1.0}))
            want_o = ca * cirq.unitary(G ** sub_(ea)) + cb * cirq.unitary(G ** sub_(eb))
            try:
                ro = cirq.resolve_parameters(lo, pt)
                if len(ro) and not np.allclose(ro.matrix(), want_o, atol=1e-8):
                    fails.append(dict(args=dict(combination=repr(lo), values=pt), failed="linear-combination-resolve", clause="resolving a linear combination of operations differs from substituting term by term and adding"))
            except Exception:
                pass
        # sweeps: simulate_sweep == per-point simulation, incl. SWAPs and entangling prefix (prefix reuse)
        circ = cirq.Circuit(cirq.H(q[0]), cirq.CNOT(q[0], q[1]), cirq.X(q[2]) ** 0.3, cirq.Y(q[1]) ** e1, cirq.SWAP(q[0], q[1]), cirq.CZ(q[1], q[2]) ** e2,
                            cirq.SWAP(q[1], q[2]), cirq.rz(e1)(q[0]))
        sweep = cirq.Zip(cirq.Points("a", [0.25, -0.5, 1.0]), cirq.Points("b", [0.5, 2.0, -0.25]), cirq.Points("c", [0.1, 1.5, 0.1]))
        for sim in (cirq.Simulator(), cirq.Simulator(split_untangled_states=False), cirq.DensityMatrixSimulator()):
            cases += 1
            rs = sim.simulate_sweep(circ, sweep, qubit_order=q)
            for r, pr in zip(rs, sweep):
                single = sim.simulate(cirq.resolve_parameters(circ, pr), qubit_order=q)
                x = r.final_state_vector if hasattr(r, "final_state_vector") else r.final_density_matrix
                y = single.final_state_vector if hasattr(single, "final_state_vector") else single.final_density_matrix
                if not np.allclose(x, y, atol=1e-6):
                    fails.append(dict(args=dict(simulator=type(sim).__name__, circuit=repr(circ), point=repr(pr)), failed="sweep-vs-point",
                                      clause="simulate_sweep differs from simulating the resolved circuit"))
                    break
        if len(fails) >= 4:
            break
    return dict(function="cirq-core/cirq/{study,protocols/resolve_parameters,sim}[resolution and sweeps]", case="resolution",
                bound="12 parameterized gate families x 10 expression shapes x seeded values; 3-point zipped sweep on a 3-qubit circuit with SWAPs x 3 simulators",
                cases=cases, distinct=cases, failures=len(fails), exhaustive=False, _fails=fails[:4])
standin_resolution.prop = "C10"



def standin_value_of(tier, seed):
    """ParamResolver.value_of against plain substitution for every expression form x every partial / full assignment on a value grid
    (negative bases, zero, symbolic left-overs); string values in resolver-like dictionaries"""
    import warnings

    import cirq
    import sympy

    a, b, c = sympy.symbols("a b c")
    forms = [a, 2 ** a, a ** b, sympy.sqrt(a), a ** 0.5, a ** -1, (a + b) ** 2, 2 ** (a + b), sympy.exp(a), sympy.sin(a * sympy.pi), a / b, sympy.Abs(a), a ** 2 + b ** 2, a * b * c,
             a - b - c, sympy.pi ** a, (a * b) ** c, sympy.cos(a) + 1, a ** sympy.Rational(1, 3), sympy.Max(a, b), a % 2, sympy.floor(a), 1 / (a + b), sympy.log(a + 3),
             sympy.Piecewise((a, a > 0), (b, True)), sympy.I * a]
    vals = {a: [0.25, -4, 2, 0], b: [0.5, 3, -0.25], c: [1.5, -2]}
    cases, fails = 0, []
    for f in forms:
        for keys in ([a], [b], [a, b], [a, b, c], [c]):
            for vs in itertools.product(*[vals[k] for k in keys]):
                asg = dict(zip(keys, vs))
                try:
                    want = sympy.sympify(f).subs(asg)
                except Exception:
                    continue
                if want.has(sympy.zoo, sympy.nan, sympy.oo, -sympy.oo):
                    continue
                cases += 1
                shown = {str(k): v for k, v in asg.items()}
                try:
                    with warnings.catch_warnings():
                        warnings.simplefilter("ignore")
                        got = cirq.ParamResolver(shown).value_of(f)
                except Exception as ex:
                    fails.append(dict(args=dict(expression=str(f), values=shown), failed="value_of-raised", clause=f"value_of raised {ex!r}; substitution gives {want}"))
                    continue
                if want.free_symbols:
                    ok = isinstance(got, sympy.Basic) and got.free_symbols == want.free_symbols and abs(complex((got - want).subs({s_: 0.37 for s_ in want.free_symbols}))) < 1e-9
                else:
                    try:
                        ok = abs(complex(got) - complex(want)) < 1e-9
                    except Exception:
                        ok = False
                if not ok:
                    fails.append(dict(args=dict(expression=str(f), values=shown, got=repr(got)), failed="value_of-vs-substitution", clause=f"value_of gives {got!r}, substitution gives {want}"))
    # a string value names a parameter: one resolver, not one per character
    for d, n_points in (({"a": "theta"}, 1), ({"a": "theta", "b": 0.5}, 1), ({"a": "xy", "b": [1, 2, 3]}, 3)):
        cases += 1
        with warnings.catch_warnings():
            warnings.simplefilter("ignore")
            got = list(cirq.to_resolvers(d))
        if len(got) != n_points or any(r.param_dict.get("a") != d["a"] for r in got):
            fails.append(dict(args=dict(sweepable=repr(d), got=repr(got)[:300]), failed="string-valued-dict", clause=f"to_resolvers gives {len(got)} resolvers; expected {n_points}, each mapping a to the parameter named {d['a']!r}"))
    seen, uniq = set(), []
    for f_ in fails:
        k = (f_["failed"], f_["args"].get("expression"))
        if k not in seen:
            seen.add(k)
            uniq.append(f_)
    return dict(function="cirq-core/cirq/study/resolver.py:ParamResolver.value_of", case="value-of", bound="26 expression forms x 5 assignment subsets x value grid {0.25, -4, 2, 0} x {0.5, 3, -0.25} x {1.5, -2} (exhaustive over the grid)",
                cases=cases, distinct=cases, failures=len(uniq), exhaustive=True, _fails=uniq[:4])
standin_value_of.prop = "C10"

def _rebuild(g, sub):
    import cirq

    if isinstance(g, cirq.PhasedISwapPowGate):
        return cirq.PhasedISwapPowGate(phase_exponent=sub(g.phase_exponent), exponent=sub(g.exponent), global_shift=g.global_shift)
    if isinstance(g, cirq.PhasedXPowGate):
        return cirq.PhasedXPowGate(phase_exponent=sub(g.phase_exponent), exponent=sub(g.exponent), global_shift=g.global_shift)
    if isinstance(g, cirq.PhasedXZGate):
        return cirq.PhasedXZGate(x_exponent=sub(g.x_exponent), z_exponent=sub(g.z_exponent), axis_phase_exponent=sub(g.axis_phase_exponent))
    if isinstance(g, cirq.PhasedFSimGate):
        return cirq.PhasedFSimGate(sub(g.theta), sub(g.zeta), sub(g.chi), sub(g.gamma), sub(g.phi))
    if isinstance(g, cirq.FSimGate):
        return cirq.FSimGate(sub(g.theta), sub(g.phi))
    if isinstance(g, (cirq.Rx, cirq.Ry, cirq.Rz)):
        return type(g)(rads=sub(g._rads))
    if isinstance(g, cirq.EigenGate):
        return g._with_exponent(sub(g.exponent)) if not hasattr(g, "_dimension") else type(g)(exponent=sub(g.exponent), global_shift=g.global_shift, dimension=g.dimension)
    raise NotImplementedError(type(g))


def standin_resolve_after_edits(tier, seed):
    """parameter queries and resolution stay right along edit histories of a circuit (cached is_parameterized / parameter_names):
    after every edit, resolving the edited circuit equals resolving a circuit rebuilt from its moments, leaves no symbol behind,
    and parameter_names agrees with the rebuilt circuit.  Uses the C05 edit-history driver (all public mutators, copies, +, radd)."""
    import random

    import cirq
    import sympy

    from contracts import C05_history as H

    rng = random.Random(seed + 17)
    n = 150 if tier == "quick" else 2500
    ops = H._alphabet()
    res = cirq.ParamResolver({"s": 0.5, "t": 0.25})
    cases, fails = 0, []
    for h in range(n):
        start = rng.choices(ops, k=rng.randrange(0, 4))
        c = cirq.Circuit(start)
        hist = [f"c = Circuit({start!r})"]
        for step in range(rng.randrange(1, 6)):
            if rng.random() < 0.5:
                _ = cirq.is_parameterized(c), cirq.parameter_names(c)  # a query fills the caches
                hist.append("query is_parameterized / parameter_names")
            method = rng.choice(H.METHODS)
            try:
                c, desc, _err = H._step(c, rng, method, ops)
            except Exception:
                break
            hist.append(desc)
            cases += 1
            rebuilt = cirq.Circuit(c.moments, tags=c.tags)
            why = None
            try:
                r1, r2 = cirq.resolve_parameters(c, res), cirq.resolve_parameters(rebuilt, res)
                if cirq.parameter_names(c) != cirq.parameter_names(rebuilt) or cirq.is_parameterized(c) != cirq.is_parameterized(rebuilt):
                    why = f"parameter_names / is_parameterized of the edited circuit ({sorted(cirq.parameter_names(c))}) differ from a circuit rebuilt from its moments ({sorted(cirq.parameter_names(rebuilt))})"
                elif r1 != r2:
                    why = "resolving the edited circuit differs from resolving a circuit rebuilt from its moments"
                elif cirq.is_parameterized(cirq.Circuit(r1.moments)):
                    why = "a symbol is left in the resolved circuit"
            except Exception as ex:
                why = f"resolve_parameters raised {ex!r}"
            if why:
                fails.append(dict(args=dict(history=hist), failed="resolve-after-edit", clause=why))
                break
        if len(fails) >= 2:
            break
    return dict(function="cirq-core/cirq/circuits/circuit.py:Circuit._resolve_parameters_/_parameter_names_ along edit histories", case="resolve-after-edits",
                bound=f"{n} seeded histories of <= 5 edits over 19 mutators / copies / additions with interleaved queries; alphabet of 15 operations, 3 of them parameterized",
                cases=cases, distinct=cases, failures=len(fails), exhaustive=False, _fails=fails[:2])
standin_resolve_after_edits.prop = "C10"

def standin_flatten(tier, seed):
    """flattening preserves every gate's value for every assignment: flatten / flatten_with_sweep / flatten_with_params, re-flattening
    an already flat circuit extended by new expression gates, bare symbols whose names look like generated names, user-seeded maps"""
    import cirq
    import sympy
    from cirq.study import flatten_expressions as fe

    rng = random.Random(seed)
    cases, fails = 0, []
    x, y, z = sympy.symbols("x y z")
    exprs = [x, y, x + 1, 2 * y, x * y, x ** 2, -z, x / 2 + y, x + y + z, sympy.pi * x / 4, (x + 1) * (y - 1), 1 - x]
    q = cirq.LineQubit.range(2)

    def odd_names(es):
        # bare symbols named like what the default naming would generate for the expressions in play (and suffixed variants)
        out = []
        for e in es:
            n = e.name if isinstance(e, sympy.Symbol) else f"<{e!s}>"
            out += [sympy.Symbol(n), sympy.Symbol(n + "_1")]
        return out

    def gate_ops(es):
        pool = [lambda e: cirq.X(q[0]) ** e, lambda e: cirq.Z(q[1]) ** e, lambda e: cirq.CZ(q[0], q[1]) ** e, lambda e: cirq.rx(e).on(q[1]),
                lambda e: cirq.YY(q[0], q[1]) ** e, lambda e: cirq.PhasedXPowGate(phase_exponent=e, exponent=0.5).on(q[0]),
                lambda e: cirq.ZPowGate(exponent=e, global_shift=0.25).on(q[0]), lambda e: cirq.FSimGate(e, 0.25).on(q[0], q[1])]
        return [rng.choice(pool)(e) for e in es]

    def assignment(symbols):
        return {s: rng.choice([0.25, -0.5, 1.0, 0.37, 2.0, -1.25, 0.1]) for s in symbols}

    def unitary_at(circ, params):
        return cirq.unitary(cirq.resolve_parameters(circ, cirq.ParamResolver(params)))

    def check(label, circ, flat, emap, assigns, detail):
        nonlocal cases
        for params in assigns:
            cases += 1
            try:
                want = unitary_at(circ, params)
                got = unitary_at(flat, emap.transform_params(params))
            except Exception as ex:
                fails.append(dict(args=dict(circuit=repr(circ), params=repr(params), **detail), failed=label + "-raised", clause=f"{ex!r}"))
                return
            if not np.allclose(got, want, atol=1e-8):
                fails.append(dict(args=dict(circuit=repr(circ), flattened=repr(flat), expression_map=repr(dict(emap)), params=repr(params), **detail), failed=label,
                                  clause="the flattened circuit resolved with the transformed parameters differs from the original circuit resolved with the parameters"))
                return

    for it in range(40 if tier == "quick" else 400):
        es = [rng.choice(exprs) for _ in range(rng.randrange(1, 4))]
        mode = rng.choice(["plain", "odd-symbols", "odd-symbols", "reflatten", "seeded-map", "sweep"])
        if mode == "odd-symbols":
            bare = [rng.choice(odd_names(es)) for _ in range(rng.randrange(1, 3))]
            order = es + bare
            if rng.random() < 0.5:
                rng.shuffle(order)
            circ = cirq.Circuit(gate_ops(order))
        else:
            circ = cirq.Circuit(gate_ops(es))
        syms = sorted(cirq.parameter_symbols(circ), key=str)
        assigns = [assignment(syms) for _ in range(3)]
        if mode in ("plain", "odd-symbols"):
            flat, emap = cirq.flatten(circ)
            check("flatten", circ, flat, emap, assigns, dict(mode=mode))
            fl2, rs = cirq.flatten_with_params(circ, assigns[0])
            cases += 1
            if not np.allclose(cirq.unitary(cirq.resolve_parameters(fl2, rs)), unitary_at(circ, assigns[0]), atol=1e-8):
                fails.append(dict(args=dict(circuit=repr(circ), params=repr(assigns[0]), mode=mode), failed="flatten_with_params", clause="flatten_with_params changes the value of the circuit"))
        elif mode == "reflatten":
            # an already flat circuit gets new expression gates IN FRONT and is flattened again
            flat1, emap1 = cirq.flatten(circ)
            more = [rng.choice(exprs) for _ in range(rng.randrange(1, 3))]
            circ2 = cirq.Circuit(gate_ops(more)) + flat1
            syms2 = sorted(cirq.parameter_symbols(circ2), key=str)
            flat2, emap2 = cirq.flatten(circ2)
            check("re-flatten", circ2, flat2, emap2, [assignment(syms2) for _ in range(3)], dict(mode=mode, first_stage=repr(circ)))
        elif mode == "seeded-map":
            # a flattener that starts from a user map: one expression is pre-assigned to a symbol that another gate uses bare
            pre = sympy.Symbol(rng.choice(["x", "<x + 1>", "w", "<2*y>"]))
            if not isinstance(es[0], sympy.Symbol):
                es[0] = x  # a user map may only be keyed by symbols
            flattener = fe._ParamFlattener({es[0]: pre})
            bare = rng.choice([pre, sympy.Symbol("<x + 1>"), x])
            circ = cirq.Circuit(gate_ops(es + [bare]))
            syms = sorted(cirq.parameter_symbols(circ), key=str)
            flat = flattener.flatten(circ)
            emap = fe.ExpressionMap(flattener.param_dict)
            check("flatten-with-initial-map", circ, flat, emap, [assignment(syms) for _ in range(3)], dict(mode=mode, initial_map=repr({es[0]: pre})))
        else:
            sweep = cirq.Zip(*[cirq.Points(str(s), [rng.choice([0.25, -0.5, 1.0, 0.37]) for _ in range(3)]) for s in syms]) if syms else cirq.UnitSweep
            flat, fsweep = cirq.flatten_with_sweep(circ, sweep)
            for pr, fpr in zip(cirq.to_resolvers(sweep), cirq.to_resolvers(fsweep)):
                cases += 1
                if not np.allclose(cirq.unitary(cirq.resolve_parameters(flat, fpr)), cirq.unitary(cirq.resolve_parameters(circ, pr)), atol=1e-8):
                    fails.append(dict(args=dict(circuit=repr(circ), sweep=repr(sweep), point=repr(pr)), failed="flatten_with_sweep",
                                      clause="a point of the flattened sweep gives the flattened circuit a different value than the original point gives the original circuit"))
                    break
            if len(list(cirq.to_resolvers(fsweep))) != len(list(cirq.to_resolvers(sweep))):
                fails.append(dict(args=dict(circuit=repr(circ), sweep=repr(sweep)), failed="flatten_with_sweep-length", clause="the transformed sweep has a different number of points"))
        if len(fails) >= 4:
            break
    return dict(function="cirq-core/cirq/study/flatten_expressions.py[flatten, flatten_with_sweep, flatten_with_params, ExpressionMap]", case="flatten",
                bound="seeded 2-qubit circuits of 1-5 parameterized gates (8 families, 12 expression shapes), bare symbols named like generated names, re-flattening, user-seeded maps, zipped sweeps; 3 assignments each",
                cases=cases, distinct=cases, failures=len(fails), exhaustive=False, _fails=fails[:4])
standin_flatten.prop = "C10"


def standin_sample_frames(tier, seed):
    """Sampler.sample / run_sweep / run_batch over sweepables that expand to SEVERAL sweeps naming the same symbols in different orders: every
    row (result) is labelled with the assignment the circuit was actually run with — the circuit is deterministic, so the outcome tells"""
    import cirq
    import sympy

    rng = random.Random(seed + 5)
    cases, fails = 0, []
    names = ["s", "t", "u"]
    q = cirq.LineQubit.range(3)
    circ = cirq.Circuit([cirq.X(q[i]) ** sympy.Symbol(n) for i, n in enumerate(names)], [cirq.measure(q[i], key="m" + n) for i, n in enumerate(names)])

    def rand_sweepable():
        kind = rng.choice(["dicts", "sweeps", "mixed", "resolvers"])
        def point(order=None):
            order = order or rng.sample(names, 3)
            return {n: rng.choice([0, 1]) for n in order}
        def sweep():
            order = rng.sample(names, 3)
            k = rng.choice(["product", "zip", "points-zip-product"])
            if k == "product":
                return cirq.Product(*[cirq.Points(n, [rng.choice([0, 1]) for _ in range(rng.randrange(1, 3))]) for n in order])
            if k == "zip":
                L = rng.randrange(1, 4)
                return cirq.Zip(*[cirq.Points(n, [rng.choice([0, 1]) for _ in range(L)]) for n in order])
            return cirq.Zip(cirq.Points(order[0], [0, 1]), cirq.Points(order[1], [1, 0])) * cirq.Points(order[2], [rng.choice([0, 1])])
        if kind == "dicts":
            return [point() for _ in range(rng.randrange(2, 5))]
        if kind == "resolvers":
            return [cirq.ParamResolver(point()) for _ in range(rng.randrange(2, 4))]
        if kind == "sweeps":
            return [sweep() for _ in range(rng.randrange(2, 4))]
        return [sweep(), point(), sweep()]

    for it in range(40 if tier == "quick" else 400):
        sw = rand_sweepable()
        for sname, sampler in (("Simulator", cirq.Simulator(seed=1)), ("DensityMatrixSimulator", cirq.DensityMatrixSimulator(seed=1)), ("ZerosSampler-free path: StabilizerSampler", cirq.StabilizerSampler(seed=1))):
            cases += 1
            try:
                df = sampler.sample(circ, repetitions=2, params=sw)
            except Exception as ex:
                fails.append(dict(args=dict(sampler=sname, params=repr(sw)), failed="sample-raised", clause=f"{type(ex).__name__}: {str(ex)[:160]}"))
                continue
            expected_points = [dict(r.param_dict) for r in cirq.to_resolvers(sw)]
            if len(df) != 2 * len(expected_points):
                fails.append(dict(args=dict(sampler=sname, params=repr(sw)), failed="sample-rows", clause=f"{len(df)} rows for {len(expected_points)} assignments x 2 repetitions"))
                continue
            for i, row in enumerate(df.to_dict("records")):
                lab = {n: int(row[n]) for n in names}
                out = {n: int(row["m" + n]) for n in names}
                want = {str(k): int(v) for k, v in expected_points[i // 2].items()}
                if lab != out or lab != want:
                    fails.append(dict(args=dict(sampler=sname, params=repr(sw), row=i), failed="sample-labels",
                                      clause=f"row {i} is labelled {lab}, its outcomes show the circuit ran with {out}, and the {i // 2}-th assignment of the sweepable is {want}"))
                    break
            # run_sweep keeps the same order
            res = sampler.run_sweep(circ, params=sw, repetitions=1)
            for r, want_p in zip(res, expected_points):
                got = {n: int(r.measurements["m" + n][0][0]) for n in names}
                if got != {str(k): int(v) for k, v in want_p.items()} or {str(k): int(v) for k, v in r.params.param_dict.items()} != got:
                    fails.append(dict(args=dict(sampler=sname, params=repr(sw)), failed="run_sweep-order", clause=f"a run_sweep result is labelled {dict(r.params.param_dict)} but its outcomes are {got}"))
                    break
        if len(fails) >= 4:
            break
    return dict(function="cirq-core/cirq/work/sampler.py:Sampler.sample / run_sweep[assignment labels]", case="sample-frames",
                bound="seeded sweepables (lists of dicts / resolvers / products / zips over 3 symbols listed in random orders) x 3 samplers x a deterministic 3-qubit circuit", cases=cases,
                distinct=cases, failures=len(fails), exhaustive=False, _fails=fails[:4])
standin_sample_frames.prop = "C10"


STANDINS = [standin_sweeps, standin_resolution, standin_value_of, standin_resolve_after_edits, standin_flatten, standin_sample_frames]


def _replay_own(ob, seed):
    r = standin_resolution("thorough", seed)
    hits = [f for f in r["_fails"] if f["failed"] == "sweep-vs-point"]
    return hits[0] if hits else None


REPLAYERS = {"cirq-core/cirq/sim/simulation_state.py:SimulationState.copy[ownership]": _replay_own}
NOT_COVERED = [
    "sweep classes: __len__/param_tuples generators, slicing, Linspace values: bounded stand-in only",
    "ParamResolver.value_of fast paths, serialization of symbols, transformers on parameterized circuits: not covered or bounded",
]
ASSUMPTIONS = ["abstract sweep: len() and the items of iteration are uninterpreted; itertools.islice / next are modelled (assume_contract)",
               "ownflow: fields other than _classical_data/_state are shared after SimulationState.copy()"]
EXPLANATION = ("C10: integer indexing of sweeps proved over an abstract sweep; the copy-on-write discipline behind sweep prefix reuse proved by the "
               "ownership analysis; enumeration of sweeps, resolution vs substitution and sweep-vs-point simulation bounded. ")
