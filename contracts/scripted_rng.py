"""A scripted random source: enumerates every branch of a randomised computation exactly (no statistics).

`ScriptedRNG` is a numpy RandomState whose draws follow a script; each draw logs the probability vector the caller
passed.  `enumerate_branches(run)` explores the tree of draws depth-first and returns [(probability, outcome)]."""
import numpy as np


class InvalidDistribution(ValueError):
    """raised where numpy.random would raise ValueError: the fault lies with the code that asked for the draw (see pyvc/runner.py)"""


class ScriptedRNG(np.random.RandomState):
    def __init__(self, script):
        super().__init__(0)
        self.script = list(script)
        self.pos = 0
        self.prob = 1.0
        self.pending = []  # alternatives discovered at the first unscripted draw points: (prefix, option)

    def _decide(self, probs):
        probs = np.asarray(probs, dtype=float)
        if not np.all(np.isfinite(probs)) or np.any(probs < -1e-9) or abs(float(probs.sum()) - 1.0) > 1e-6:
            # what numpy's own generator does with such a vector: the caller handed over something that is not a distribution
            raise InvalidDistribution(f"probabilities are not a distribution: {probs.tolist()[:8]}")
        options = [i for i, p in enumerate(probs) if p > 1e-12]
        if self.pos < len(self.script):
            c = self.script[self.pos]
        else:
            c = options[0]
            for alt in options[1:]:
                self.pending.append(self.script[: self.pos] + [alt])
            self.script.append(c)
        self.pos += 1
        self.prob *= float(probs[c])
        return c

    def choice(self, a, size=None, replace=True, p=None):
        n = a if isinstance(a, (int, np.integer)) else len(a)
        if p is None:
            p = np.full(n, 1.0 / n)
        if size is None:
            c = self._decide(p)
            return c if isinstance(a, (int, np.integer)) else list(a)[c]
        k = int(np.prod(size))
        out = [self._decide(p) for _ in range(k)]
        vals = np.array(out if isinstance(a, (int, np.integer)) else [list(a)[c] for c in out])
        return vals.reshape(size)

    def randint(self, low, high=None, size=None, dtype=int):
        if high is None:
            low, high = 0, low
        n = high - low
        if size is None:
            return low + self._decide(np.full(n, 1.0 / n))
        k = int(np.prod(size))
        return (low + np.array([self._decide(np.full(n, 1.0 / n)) for _ in range(k)])).reshape(size)

    def random(self, size=None):
        """a uniform draw used only through subtraction of weights and comparison with constants (Kraus sampling): returned
        lazily; each comparison that the interval of still-possible values does not settle becomes a scripted decision"""
        if size is not None:
            raise NotImplementedError("vector of continuous draws")
        return LazyUniform(self, [0.0, 1.0], 0.0)

    random_sample = random
    rand = random


class LazyUniform:
    """u - off for a uniform u whose value is only known to lie in cell = [lo, hi)"""

    def __init__(self, rng, cell, off):
        self.rng, self.cell, self.off = rng, cell, off

    def __sub__(self, w):
        return LazyUniform(self.rng, self.cell, self.off + float(w))

    __isub__ = __sub__

    def __add__(self, w):
        return LazyUniform(self.rng, self.cell, self.off - float(w))

    def _below(self, c):
        """u - off < c  <=>  u < off + c"""
        t = self.off + float(c)
        lo, hi = self.cell
        if t <= lo:
            return False
        if t >= hi:
            return True
        pr = (t - lo) / (hi - lo)
        k = self.rng._decide([pr, 1 - pr])
        if k == 0:
            self.cell[1] = t
            return True
        self.cell[0] = t
        return False

    def __lt__(self, c):
        return self._below(c)

    def __ge__(self, c):
        return not self._below(c)

    def __le__(self, c):
        return self._below(c)  # equality has probability zero

    def __gt__(self, c):
        return not self._below(c)


def enumerate_branches(run, max_branches=512):
    """run(rng) -> outcome.  Returns list of (probability, outcome) over every branch with positive probability."""
    work = [[]]
    out = []
    while work:
        script = work.pop()
        rng = ScriptedRNG(script)
        outcome = run(rng)
        out.append((rng.prob, outcome))
        work.extend(rng.pending)
        if len(out) > max_branches:
            raise RuntimeError("too many branches")
    return out
