"""C13 — stabilizer tableau update rules equal conjugation by the gate's matrix, for every tableau of every size.

Engine (boolcol): the REAL CliffordTableau.apply_* methods run on a proxy tableau whose columns only support element-wise
boolean operations (anything else leaves the verified fragment).  Element-wise code treats every row independently, so
running it on the complete truth table of one row's relevant bits (x, z of the touched axes and the sign bit) decides the
update for every row of every tableau.  The expected new row is computed from the documented gate matrix by conjugating
the 4 (16) Paulis:  U P U^dagger = +- P'."""
import ast
import itertools
import os
import time

import numpy as np

from pyvc import api, paths
from pyvc.sym import OutOfReach

F = "cirq-core/cirq/qis/clifford_tableau.py"


class Col:
    """a boolean column (one entry per truth-table row); only element-wise operations"""

    def __init__(self, v):
        self.v = np.asarray(v, dtype=bool)

    def copy(self):
        return Col(self.v.copy())

    def __xor__(self, o):
        return Col(self.v ^ _v(o))

    __rxor__ = __xor__

    def __and__(self, o):
        return Col(self.v & _v(o))

    __rand__ = __and__

    def __or__(self, o):
        return Col(self.v | _v(o))

    def __invert__(self):
        return Col(~self.v)

    __ixor__ = __xor__
    __iand__ = __and__
    __ior__ = __or__


def _v(o):
    if isinstance(o, Col):
        return o.v
    if isinstance(o, (bool, np.bool_)):
        return bool(o)
    raise OutOfReach(f"non element-wise operand {type(o).__name__}")


class Matrix:
    """xs / zs: columns addressed as [:, axis] only"""

    def __init__(self, cols):
        self.cols = cols
        self.written = set()

    def __getitem__(self, idx):
        if isinstance(idx, tuple) and len(idx) == 2 and idx[0] == slice(None) and isinstance(idx[1], (int, np.integer)):
            return Col(self.cols[int(idx[1])].v)
        if isinstance(idx, tuple) and len(idx) == 2 and idx == (slice(None, -1), slice(None)):
            return self
        raise OutOfReach(f"tableau indexed as {idx!r} (not a whole column)")

    def __setitem__(self, idx, val):
        if isinstance(idx, tuple) and len(idx) == 2 and idx[0] == slice(None) and isinstance(idx[1], (int, np.integer)):
            self.cols[int(idx[1])] = Col(_v(val) if not isinstance(_v(val), bool) else np.full(len(self.cols[0].v), _v(val)))
            self.written.add(int(idx[1]))
            return
        raise OutOfReach(f"tableau assigned at {idx!r} (not a whole column)")


class Vector:
    """rs: addressed as [:] only"""

    def __init__(self, col):
        self.col = col

    def __getitem__(self, idx):
        if idx == slice(None):
            return Col(self.col.v)
        if idx == slice(None, -1):
            return self
        raise OutOfReach(f"rs indexed as {idx!r}")

    def __setitem__(self, idx, val):
        if idx == slice(None):
            self.col = Col(_v(val))
            return
        raise OutOfReach(f"rs assigned at {idx!r}")


PAULI = {(0, 0): np.eye(2), (1, 0): np.array([[0, 1], [1, 0]]), (1, 1): np.array([[0, -1j], [1j, 0]]), (0, 1): np.array([[1, 0], [0, -1]])}


def _pauli(bits):
    m = np.eye(1)
    for i in range(0, len(bits), 2):
        m = np.kron(m, PAULI[(bits[i], bits[i + 1])])
    return m


def conjugation_table(U, k):
    """{(x1,z1,..): ((x1',z1',..), sign_flip)} with U P U^dagger = (-1)^flip P'"""
    table = {}
    for bits in itertools.product((0, 1), repeat=2 * k):
        P = _pauli(bits)
        Q = U @ P @ U.conj().T
        found = None
        for bits2 in itertools.product((0, 1), repeat=2 * k):
            P2 = _pauli(bits2)
            if np.allclose(Q, P2, atol=1e-9):
                found = (bits2, 0)
            elif np.allclose(Q, -P2, atol=1e-9):
                found = (bits2, 1)
        if found is None:
            raise ValueError("not a Clifford")
        table[bits] = found
    return table


def _spec_matrix(name, e):
    """documented matrices (numeric) from contracts/gate_specs.py"""
    from fractions import Fraction
    from contracts import gate_specs as gs
    from pyvc import trigpoly
    from pyvc.trigpoly import Angle

    f = {"x": gs.x_pow, "y": gs.y_pow, "z": gs.z_pow, "h": gs.h_pow, "cz": gs.cz_pow, "cx": gs.cx_pow}[name]
    return trigpoly.numeric(f(Angle.of(Fraction(e).limit_denominator(8))), {})


def _exponent_only_mod(fn_node, param="exponent"):
    """the parameter is used only as `exponent % c` (so the method depends on the exponent only through its residue)"""
    parents = {}
    for n in ast.walk(fn_node):
        for c in ast.iter_child_nodes(n):
            parents[c] = n
    for n in ast.walk(fn_node):
        if isinstance(n, ast.Name) and n.id == param and isinstance(n.ctx, ast.Load):
            p = parents.get(n)
            if not (isinstance(p, ast.BinOp) and isinstance(p.op, ast.Mod) and p.left is n and isinstance(p.right, ast.Constant)):
                # passing it on to another apply_* is fine if that one satisfies the same rule (apply_h -> apply_y/apply_x with constants)
                return False
    return True


def _make_tableau(n_axes, truth):
    import cirq

    t = cirq.CliffordTableau.__new__(cirq.CliffordTableau)
    rows = len(truth)
    rng = np.random.RandomState(7)
    xs = {a: Col(rng.rand(rows) < 0.5) for a in range(n_axes)}
    zs = {a: Col(rng.rand(rows) < 0.5) for a in range(n_axes)}
    t.n = n_axes
    t._xs, t._zs, t._rs = Matrix(xs), Matrix(zs), Vector(Col(np.zeros(rows, dtype=bool)))
    return t


def check_apply(name, k):
    def check():
        import cirq

        key = f"{F}:CliffordTableau.apply_{name}"
        obls = []
        src = api.SOURCE_OVERRIDES.get(F) or open(os.path.join(api.REPO, F)).read()
        cls = next(n for n in ast.parse(src).body if isinstance(n, ast.ClassDef) and n.name == "CliffordTableau")
        fn = next(n for n in cls.body if isinstance(n, ast.FunctionDef) and n.name == f"apply_{name}")
        ok = _exponent_only_mod(fn)
        o = paths.Obligation(f"C13/{key}#exponent-enters-only-through-residues", "frame", "proved" if ok else "failed", 0.0, "boolcol(ast)",
                             detail="" if ok else "the exponent is used other than as `exponent % const`")
        obls.append(o)
        exps = [0.5, 1, 1.5, 0, 2, -0.5, -1, 2.5, 3, 4.5] if k == 1 and name != "h" else [1, 0, 2, 3, -1]
        n_axes = 4
        placements = [(1,), (3,)] if k == 1 else [(0, 2), (3, 1)]
        for e in exps:
            U = _spec_matrix(name, e)
            table = conjugation_table(U, k)
            for axes in placements:
                t0 = time.time()
                truth = list(itertools.product((0, 1), repeat=2 * k + 1))
                t = _make_tableau(n_axes, truth)
                for i, a in enumerate(axes):
                    t._xs.cols[a] = Col([row[2 * i] for row in truth])
                    t._zs.cols[a] = Col([row[2 * i + 1] for row in truth])
                t._rs.col = Col([row[-1] for row in truth])
                before = {(m, a): getattr(t, m).cols[a].v.copy() for m in ("_xs", "_zs") for a in range(n_axes)}
                status, detail = "proved", ""
                try:
                    getattr(t, f"apply_{name}")(*axes, e)
                    for ri, row in enumerate(truth):
                        bits2, flip = table[tuple(row[:-1])]
                        got = tuple(int(b) for i, a in enumerate(axes) for b in (t._xs.cols[a].v[ri], t._zs.cols[a].v[ri]))
                        got_r = int(t._rs.col.v[ri])
                        if got != tuple(bits2) or got_r != (row[-1] ^ flip):
                            status = "failed"
                            detail = (f"row with (x,z) bits {row[:-1]} sign {row[-1]} on axes {axes}: tableau gives bits {got} sign {got_r}, "
                                      f"U P U^dagger gives bits {tuple(bits2)} sign {row[-1] ^ flip}")
                            break
                    for (m, a), v in before.items():
                        if a not in axes and not np.array_equal(getattr(t, m).cols[a].v, v):
                            status, detail = "failed", f"column {a} of {m} changed although the gate acts on axes {axes}"
                except OutOfReach as ex:
                    status, detail = "out-of-reach", str(ex)
                except ValueError as ex:
                    status, detail = "failed", f"raised {ex!r} for a Clifford exponent"
                o = paths.Obligation(f"C13/{key}#conjugation[exponent={e}; axes={axes}]", "engine", status, (time.time() - t0) * 1e3, "boolcol", detail=detail)
                o.case = f"apply_{name}"
                o.concrete = dict(exponent=e, axes=list(axes))
                obls.append(o)
        # non-Clifford exponents must be rejected
        for e in ([0.25, 0.3] if k == 1 and name != "h" else [0.5, 0.25]):
            t = _make_tableau(4, list(itertools.product((0, 1), repeat=2 * k + 1)))
            try:
                getattr(t, f"apply_{name}")(*placements[0], e)
                st, det = "failed", f"exponent {e} accepted although the gate is not Clifford there"
            except ValueError:
                st, det = "proved", ""
            except OutOfReach as ex:
                st, det = "out-of-reach", str(ex)
            obls.append(paths.Obligation(f"C13/{key}#rejects-non-clifford[exponent={e}]", "engine", st, 0.0, "boolcol", detail=det))
        rep = api.FunctionReport.__new__(api.FunctionReport)
        rep.key, rep.prop, rep.sha, rep.dropped = key, "C13", None, ["method executed as is on column proxies (nothing dropped)"]
        bad = [o for o in obls if o.status != "proved"]
        rep.obligations = [o for o in obls if o.status != "out-of-reach"]
        rep.status = "proved" if not bad else ("failed" if any(o.status == "failed" for o in bad) else "out-of-reach")
        rep.out_of_reach = "; ".join(o.detail for o in bad if o.status == "out-of-reach")[:400] or None
        rep.error, rep.paths, rep.wall, rep.cases, rep.trace = None, len(obls), sum(o.ms for o in obls) / 1e3, [], set()
        return [rep]
    check.__name__ = f"apply_{name}"
    return check


ENGINE_CHECKS = [check_apply("x", 1), check_apply("y", 1), check_apply("z", 1), check_apply("h", 1), check_apply("cz", 2), check_apply("cx", 2)]

CANARIES = [
    dict(name="apply_x(0.5) updates the sign after the x column", file=F, engine_check=0,
         find="        if effective_exponent == 0.5:\n            self.xs[:, axis] ^= self.zs[:, axis]\n            self.rs[:] ^= self.xs[:, axis] & self.zs[:, axis]\n        elif effective_exponent == 1:\n            self.rs[:] ^= self.zs[:, axis]",
         replace="        if effective_exponent == 0.5:\n            self.rs[:] ^= self.xs[:, axis] & self.zs[:, axis]\n            self.xs[:, axis] ^= self.zs[:, axis]\n        elif effective_exponent == 1:\n            self.rs[:] ^= self.zs[:, axis]"),
    dict(name="apply_cx sign term", file=F, engine_check=5,
         find="        self.rs[:] ^= (\n            self.xs[:, control_axis]\n            & self.zs[:, target_axis]\n            & (~(self.xs[:, target_axis] ^ self.zs[:, control_axis]))\n        )\n        self.xs[:, target_axis] ^= self.xs[:, control_axis]\n        self.zs[:, control_axis] ^= self.zs[:, target_axis]\n\n    def apply_global_phase",
         replace="        self.rs[:] ^= (\n            self.xs[:, control_axis]\n            & self.zs[:, target_axis]\n            & (self.xs[:, target_axis] ^ self.zs[:, control_axis])\n        )\n        self.xs[:, target_axis] ^= self.xs[:, control_axis]\n        self.zs[:, control_axis] ^= self.zs[:, target_axis]\n\n    def apply_global_phase"),
    dict(name="apply_z(1.5) uses the Z^0.5 sign rule", file=F, engine_check=2,
         find="            self.rs[:] ^= self.xs[:, axis] & (~self.zs[:, axis])\n            self.zs[:, axis] ^= self.xs[:, axis]",
         replace="            self.rs[:] ^= self.xs[:, axis] & self.zs[:, axis]\n            self.zs[:, axis] ^= self.xs[:, axis]"),
]
