"""C04 — bounded stand-in (NOT counted as proved): every description of one operation agrees.

For a library of gates x parameter grid x qubit layouts (permuted, non-adjacent, grid) x wrappers: the reported unitary vs
in-place application on permuted axes of a larger tensor, vs the ordered product of decompose_once / full decompose, vs
Kraus / mixture / superoperator, vs act_on of the state-vector and density-matrix simulation states; and the
has_unitary / has_kraus / has_mixture / is_measurement answers vs what those calls return."""
import itertools
import random

import numpy as np

from contracts import refsim

F = "cirq-core/cirq/ops+protocols"


def gate_library(rng=None):
    import cirq

    es = [1, 0.5, -0.5, 0.25, 0.37, 2, 1.5]
    gl = []
    for e in es:
        gl += [cirq.X ** e, cirq.Y ** e, cirq.Z ** e, cirq.H ** e, cirq.CZ ** e, cirq.CNOT ** e, cirq.SWAP ** e, cirq.ISWAP ** e,
               cirq.XX ** e, cirq.YY ** e, cirq.ZZ ** e, cirq.CCZ ** e, cirq.CCX ** e]
    gl += [cirq.XPowGate(exponent=0.3, global_shift=-0.5), cirq.ZPowGate(exponent=0.7, global_shift=0.25), cirq.CZPowGate(exponent=0.5, global_shift=0.5),
           cirq.rx(0.3), cirq.ry(1.1), cirq.rz(-0.7), cirq.S, cirq.T, cirq.I, cirq.IdentityGate(2), cirq.CSWAP, cirq.TOFFOLI, cirq.FREDKIN,
           cirq.FSimGate(0.4, 0.3), cirq.FSimGate(np.pi / 2, np.pi / 6), cirq.FSimGate(np.pi, 0.2), cirq.PhasedFSimGate(0.3, 0.1, 0.2, 0.4, 0.5),
           cirq.PhasedFSimGate(np.pi, 0, 0.2, 0.1, 0.3), cirq.PhasedISwapPowGate(phase_exponent=0.3, exponent=0.6), cirq.PhasedXPowGate(phase_exponent=0.2, exponent=0.7),
           cirq.PhasedXZGate(x_exponent=0.3, z_exponent=0.6, axis_phase_exponent=0.1), cirq.SQRT_ISWAP, cirq.SQRT_ISWAP_INV, cirq.givens(0.4),
           cirq.QuantumFourierTransformGate(3), cirq.QuantumFourierTransformGate(2, without_reverse=True), cirq.QubitPermutationGate([2, 0, 1]),
           cirq.MatrixGate(cirq.testing.random_unitary(4, random_state=1)), cirq.DiagonalGate([0.1, 0.2, 0.3, 0.4]), cirq.TwoQubitDiagonalGate([0.1, 0.2, 0.3, 0.5]),
           cirq.ThreeQubitDiagonalGate([0.1 * k for k in range(8)]), cirq.ControlledGate(cirq.Y ** 0.3), cirq.ControlledGate(cirq.ISWAP ** 0.5, control_values=[0]),
           cirq.ControlledGate(cirq.X, num_controls=2, control_values=[0, 1]), cirq.ControlledGate(cirq.Z ** 0.5, control_values=cirq.SumOfProducts([(0, 1), (1, 0)])),
           cirq.ParallelGate(cirq.X ** 0.3, 2), cirq.MSGate(rads=0.4), cirq.DensePauliString("XYZ", coefficient=1j), cirq.PauliStringPhasorGate(cirq.DensePauliString("XZ"), exponent_neg=0.3),
           cirq.ZPowGate(exponent=0.4, dimension=3), cirq.XPowGate(exponent=1, dimension=3), cirq.GlobalPhaseGate(1j), cirq.ParallelGate(cirq.XPowGate(dimension=3), 2), cirq.ParallelGate(cirq.ZPowGate(dimension=3) ** 0.5, 2),
           cirq.BooleanHamiltonianGate(["a", "b"], ["a ^ b"], 0.3), cirq.UniformSuperpositionGate(3, 2)]
    # matrix gates whose analytic synthesis loses a phase that the decomposition has to put back: -1, +-i and generic phases times named matrices
    X_, Y_, Z_, H_ = (cirq.unitary(g) for g in (cirq.X, cirq.Y, cirq.Z, cirq.H))
    for ph in (-1, 1j, -1j, np.exp(0.3j)):
        gl += [cirq.MatrixGate(ph * m) for m in (np.eye(2), X_, Y_, Z_, H_, np.eye(4), cirq.unitary(cirq.CZ), cirq.unitary(cirq.CNOT), cirq.unitary(cirq.SWAP), np.diag([-1, 1, 1, 1]))]
    gl += [cirq.MatrixGate(-cirq.unitary(cirq.CCZ)), cirq.MatrixGate(np.exp(0.7j) * cirq.testing.random_unitary(8, random_state=2)), cirq.MatrixGate(-np.eye(8)),
           cirq.MatrixGate(cirq.testing.random_unitary(2, random_state=3)), cirq.MatrixGate(cirq.testing.random_unitary(3, random_state=4), qid_shape=(3,))]
    # controlled gates whose sub-gate carries a global shift: the shift becomes a relative phase; exponent*shift at and around integers
    for cls in (cirq.XPowGate, cirq.YPowGate, cirq.ZPowGate):
        for e, s in ((1, 1), (1, -1), (2, 0.5), (2, -0.5), (3, 1 / 3), (1, 2), (0.5, 2), (1, 0.5), (0.3, -0.5), (1, 0.25)):
            gl.append(cirq.ControlledGate(cls(exponent=e, global_shift=s)))
    gl += [cirq.ControlledGate(cirq.rx(2 * np.pi)), cirq.ControlledGate(cirq.ry(-2 * np.pi)), cirq.ControlledGate(cirq.rz(6 * np.pi)), cirq.ControlledGate(cirq.rz(np.pi)),
           cirq.ControlledGate(cirq.CZPowGate(exponent=1, global_shift=1)), cirq.ControlledGate(cirq.CZPowGate(exponent=2, global_shift=-0.5)),
           cirq.ControlledGate(cirq.rx(2 * np.pi), num_controls=2), cirq.ControlledGate(cirq.XPowGate(exponent=1, global_shift=1), control_values=[0])]
    _a, _b, _c = cirq.LineQubit.range(3)
    gl += [cirq.CliffordGate.CNOT, cirq.CliffordGate.CZ, cirq.CliffordGate.SWAP, cirq.CliffordGate.from_op_list([cirq.H(_a), cirq.CNOT(_a, _b), cirq.S(_b)], [_a, _b]),
           cirq.CliffordGate.from_op_list([cirq.CNOT(_c, _a), cirq.S(_a), cirq.H(_b), cirq.CZ(_b, _c)], [_a, _b, _c]), cirq.SingleQubitCliffordGate.X_sqrt, cirq.SingleQubitCliffordGate.H]
    gl += [cirq.ZPowGate(dimension=3, global_shift=0.5, exponent=0.3), cirq.XPowGate(dimension=3, global_shift=-0.25, exponent=1.5), cirq.ZPowGate(dimension=4, global_shift=1, exponent=2)]  # qudit clock / shift powers with a global shift
    return gl


def _layouts(n, rng):
    import cirq

    lines = [cirq.LineQubit.range(n), list(reversed(cirq.LineQubit.range(n))), [cirq.LineQubit(2 * i) for i in range(n)]]
    if n == 3:
        q = cirq.LineQubit.range(4)
        lines += [[q[0], q[2], q[1]], [q[0], q[2], q[3]], [q[3], q[0], q[1]], [q[1], q[0], q[2]], [q[2], q[0], q[1]], [q[1], q[2], q[0]]]
    if n == 2:
        lines += [[cirq.GridQubit(0, 0), cirq.GridQubit(0, 1)], [cirq.GridQubit(1, 1), cirq.GridQubit(0, 1)]]
    lines += [[cirq.NamedQubit(f"n{i}") for i in range(n)]]
    return lines


def _product_unitary(ops, qubits):
    import cirq

    qs = list(qubits)
    extra = sorted({q for op in ops for q in op.qubits} - set(qs))
    allq = qs + extra
    U = np.eye(int(np.prod([q.dimension for q in allq])), dtype=complex)
    for op in ops:
        U = refsim.embed(cirq.unitary(op), list(op.qubits), allq) @ U
    return U, allq


def standin_protocols(tier, seed):
    import cirq

    rng = random.Random(seed)
    cases, fails, distinct = 0, [], set()

    def bad(what, gate, **kw):
        fails.append(dict(args=dict(gate=repr(gate), **kw), failed=what, clause=what))

    for gate in gate_library():
        n = cirq.num_qubits(gate)
        shape = cirq.qid_shape(gate)
        layouts = _layouts(n, rng) if all(d == 2 for d in shape) else [[cirq.LineQid(i, dimension=d) for i, d in enumerate(shape)]]
        u = cirq.unitary(gate, None)
        if u is None:
            continue
        if not cirq.has_unitary(gate):
            bad("has_unitary() is False although unitary() returns a matrix", gate)
        for qs in layouts if tier == "thorough" else layouts[: 9]:
            op = gate.on(*qs)
            cases += 1
            distinct.add((repr(gate), tuple(map(repr, qs))))
            # (a) in-place application on permuted axes of a larger tensor
            total = n + 1
            axes = rng.sample(range(total), n)
            tshape = [2] * total
            for a, d in zip(axes, shape):
                tshape[a] = d
            t = np.array([complex(rng.gauss(0, 1), rng.gauss(0, 1)) for _ in range(int(np.prod(tshape)))]).reshape(tshape)
            try:
                res = cirq.apply_unitary(op, cirq.ApplyUnitaryArgs(t.copy(), np.full(tshape, 3 + 1j), axes))
            except Exception as ex:
                bad(f"apply_unitary raised {ex!r}", gate, axes=axes, tensor_shape=tshape)
                continue
            want = np.moveaxis(np.tensordot(u.reshape(list(shape) * 2), t, axes=(list(range(n, 2 * n)), axes)), list(range(n)), axes)
            if not np.allclose(res, want, atol=1e-7):
                bad("apply_unitary on permuted axes differs from unitary()", gate, axes=axes)
            # (b) decompositions
            try:
                with_phases = cirq.decompose_once(op, None, context=cirq.DecompositionContext(cirq.SimpleQubitManager(), extract_global_phases=True))
            except Exception as ex:
                with_phases = None
                bad(f"decompose_once(extract_global_phases=True) raised {type(ex).__name__}: {ex}", gate, qubits=list(map(repr, qs)))
            for label, dec in (("decompose_once", cirq.decompose_once(op, None)), ("decompose", cirq.decompose(op)), ("decompose_once(extract_global_phases=True)", with_phases)):
                if dec is None or not all(cirq.has_unitary(o) for o in dec):
                    continue
                U, allq = _product_unitary(dec, qs)
                if len(allq) == len(qs):
                    if not cirq.allclose_up_to_global_phase(U, u, atol=1e-6) or not np.allclose(U, u, atol=1e-6):
                        # decompositions must agree exactly unless the gate documents a phase freedom; report exact mismatch only
                        if not cirq.allclose_up_to_global_phase(U, u, atol=1e-6):
                            bad(f"{label}() product differs from unitary() (beyond a global phase)", gate, qubits=list(map(repr, qs)))
                        else:
                            bad(f"{label}() product differs from unitary() by a global phase", gate, qubits=list(map(repr, qs)))
            # (c) kraus / mixture / superoperator
            ks = cirq.kraus(op)
            if len(ks) != 1 or not np.allclose(ks[0], u, atol=1e-8):
                bad("kraus() of a unitary operation is not (unitary,)", gate)
            if n <= 2 and not np.allclose(cirq.kraus_to_superoperator(ks), np.kron(u, u.conj()), atol=1e-7):
                bad("superoperator differs from U (x) conj(U)", gate)
            # (d) act_on: state vector and density matrix simulation states
            if all(d == 2 for d in shape) and n <= 3:
                order = list(qs)
                psi = np.array([complex(rng.gauss(0, 1), rng.gauss(0, 1)) for _ in range(2 ** n)])
                psi /= np.linalg.norm(psi)
                st = cirq.StateVectorSimulationState(qubits=order, initial_state=psi.astype(np.complex128), dtype=np.complex128)
                cirq.act_on(op, st)
                if not np.allclose(st.target_tensor.reshape(-1), u @ psi, atol=1e-6):
                    bad("act_on(StateVectorSimulationState) differs from unitary()", gate)
                dm = cirq.DensityMatrixSimulationState(qubits=order, initial_state=np.outer(psi, psi.conj()).astype(np.complex128), dtype=np.complex128)
                try:
                    cirq.act_on(op, dm)
                except Exception as ex:
                    fails.append(dict(args=dict(gate=repr(gate)), failed="act_on(DensityMatrixSimulationState) raised",
                                      clause=f"act_on(DensityMatrixSimulationState) raised {ex!r} for a unitary operation"))
                    continue
                if not np.allclose(dm.target_tensor.reshape(2 ** n, 2 ** n), u @ np.outer(psi, psi.conj()) @ u.conj().T, atol=1e-6):
                    bad("act_on(DensityMatrixSimulationState) differs from U rho U^dagger", gate)
            # (d') act_on of the stabilizer states (CH form and tableau) for operations that claim a stabilizer effect: the operation's qubits sit at
            #      arbitrary (also descending) axes of a larger register that holds an entangled stabilizer state
            if all(d == 2 for d in shape) and 1 <= n <= 3 and cirq.has_stabilizer_effect(op):
                extra = cirq.NamedQubit("spectator")
                reg = list(qs) + [extra]
                rng.shuffle(reg)
                prefix = [cirq.H(reg[0])] + [cirq.CNOT(reg[0], x) for x in reg[1:]] + [cirq.S(reg[-1]), cirq.H(reg[1])]
                psi0 = cirq.Circuit(prefix).final_state_vector(qubit_order=reg, dtype=np.complex128)
                want_psi = cirq.Circuit(prefix, op).final_state_vector(qubit_order=reg, dtype=np.complex128)
                ch = cirq.StabilizerChFormSimulationState(qubits=reg, prng=np.random.RandomState(0), initial_state=0)
                tb = cirq.CliffordTableauSimulationState(cirq.CliffordTableau(len(reg)), qubits=reg, prng=np.random.RandomState(0))
                try:
                    for o in prefix + [op]:
                        cirq.act_on(o, ch)
                        cirq.act_on(o, tb)
                except TypeError:
                    ch = tb = None   # a claimed stabilizer effect without a stabilizer route: reported by the predicate checks
                if ch is not None:
                    if not np.allclose(ch.state.state_vector(), want_psi, atol=1e-6):
                        bad("act_on(StabilizerChFormSimulationState) differs from unitary() (phase included)", gate, register=list(map(repr, reg)))
                    for stab in tb.tableau.stabilizers():
                        M = cirq.unitary(stab)
                        if not np.allclose(M @ want_psi, want_psi, atol=1e-6):
                            bad("act_on(CliffordTableauSimulationState): a stabilizer of the tableau does not stabilise U|psi>", gate, register=list(map(repr, reg)))
                            break
            # (e) wrappers
            if not np.allclose(cirq.unitary(op.with_tags("t")), u, atol=1e-9):
                bad("with_tags changed the unitary", gate)
            inv = cirq.inverse(op, None)
            if inv is not None and not np.allclose(cirq.unitary(inv) @ u, np.eye(len(u)), atol=1e-7):
                bad("inverse(op) * op != I", gate)
            if all(d == 2 for d in shape) and n <= 2:
                cq = cirq.NamedQubit("ctl")
                cu = cirq.unitary(op.controlled_by(cq))
                wantc = np.block([[np.eye(len(u)), np.zeros_like(u)], [np.zeros_like(u), u]])
                if not np.allclose(cu, wantc, atol=1e-8):
                    bad("controlled_by(q) is not the block matrix diag(I, U)", gate)
            if len({f["failed"] for f in fails}) >= 4:
                break
        if len({f["failed"] for f in fails}) >= 4:
            break
    seen_kinds, uniq = set(), []
    for f in fails:
        if f["failed"] not in seen_kinds:
            seen_kinds.add(f["failed"])
            uniq.append(f)
    fails = uniq
    return dict(function=F + "[unitary, apply_unitary, decompose, kraus, act_on, wrappers]", case="protocol-coherence",
                bound="~130 gates (13 families x 7 exponents + 45 others incl. qudit, controlled, diagonal, QFT, permutation) x up to 10 qubit layouts "
                      "(permuted, gapped, grid, named) x random axes",
                cases=cases, distinct=len(distinct), failures=len(fails), exhaustive=False, _fails=fails[:3])
standin_protocols.prop = "C04"


def standin_predicates_vs_values(tier, seed):
    """the yes/no protocol answers of an operation, and of every wrapper around it, agree with what the value-returning protocols
    return: has_unitary <-> unitary, has_kraus <-> kraus, has_mixture <-> mixture, is_measurement <-> measurement keys; and a
    wrapper (tags, virtual tag, nested tags, qubit remapping, a moment, a circuit operation) answers like the wrapped operation"""
    import cirq

    q = cirq.LineQubit.range(3)
    u = cirq.testing.random_unitary(2, random_state=3)
    base = [cirq.X(q[0]), cirq.CZ(q[0], q[1]) ** 0.3, cirq.bit_flip(0.1)(q[0]), cirq.depolarize(0.2)(q[0]), cirq.amplitude_damp(0.3)(q[0]), cirq.generalized_amplitude_damp(0.2, 0.3)(q[0]),
            cirq.phase_damp(0.4)(q[0]), cirq.ResetChannel()(q[0]), cirq.KrausChannel([np.sqrt(0.5) * u, np.sqrt(0.5) * np.eye(2)])(q[0]), cirq.MixedUnitaryChannel([(0.5, u), (0.5, np.eye(2))])(q[0]),
            cirq.X.with_probability(0.3)(q[0]), cirq.measure(q[0], q[1], key="m"), cirq.measure_single_paulistring(cirq.X(q[0]) * cirq.Z(q[1]), key="p"), cirq.X(q[0]).with_classical_controls("k"),
            cirq.depolarize(0.1, n_qubits=2)(q[0], q[1]), cirq.I(q[0]), cirq.global_phase_operation(1j), cirq.WaitGate(cirq.Duration(nanos=1))(q[0]), cirq.X(q[0]) ** cirq.Symbol("t") if hasattr(cirq, "Symbol") else cirq.X(q[0])]
    wrappers = {"bare": lambda o: o, "with_tags": lambda o: o.with_tags("t"), "virtual tag": lambda o: o.with_tags(cirq.VirtualTag()), "nested tags": lambda o: cirq.TaggedOperation(o.with_tags("a"), "b"),
                "empty tag wrapper": lambda o: cirq.TaggedOperation(o), "remapped qubits": lambda o: o.transform_qubits({q[0]: q[2], q[2]: q[0]}),
                "moment": lambda o: cirq.Moment(o), "circuit operation": lambda o: cirq.CircuitOperation(cirq.FrozenCircuit(o))}
    cases, fails = 0, []

    def bad(what, **kw):
        fails.append(dict(args={k: repr(v)[:300] for k, v in kw.items()}, failed=what, clause=what))

    for o in base:
        ref = None
        for wname, w in wrappers.items():
            try:
                x = w(o)
            except Exception:
                continue
            cases += 1
            ans = {}
            for pred, val in ((cirq.has_unitary, lambda v: cirq.unitary(v, None)), (cirq.has_kraus, lambda v: cirq.kraus(v, None)), (cirq.has_mixture, lambda v: cirq.mixture(v, None))):
                try:
                    yes, got = bool(pred(x)), val(x)
                except Exception as ex:
                    bad(f"{pred.__name__} / its value protocol raised {type(ex).__name__}", operation=o, wrapper=wname)
                    continue
                ans[pred.__name__] = yes
                if yes != (got is not None):
                    bad(f"{pred.__name__}() is {yes} although the value protocol returns {'a value' if got is not None else 'nothing'}", operation=o, wrapper=wname)
            ans["is_measurement"] = cirq.is_measurement(x)
            if ans["is_measurement"] != bool(cirq.measurement_key_names(x)):
                bad("is_measurement() disagrees with measurement_key_names()", operation=o, wrapper=wname)
            if wname == "bare":
                ref = ans
            elif ref is not None and wname != "circuit operation" and ans != ref:
                bad(f"a wrapper answers the yes/no protocols differently from the operation it wraps: {ans} vs {ref}", operation=o, wrapper=wname)
            if ref is not None and wname not in ("bare", "remapped qubits", "circuit operation") and ref.get("has_kraus") and cirq.kraus(o, None) is not None and cirq.kraus(x, None) is not None:
                a, b = cirq.kraus_to_superoperator(cirq.kraus(o)), cirq.kraus_to_superoperator(cirq.kraus(x))
                if a.shape != b.shape or not np.allclose(a, b, atol=1e-8):
                    bad("kraus() of a wrapper describes a different map", operation=o, wrapper=wname)
    # one witness per (kind of disagreement, wrapper, operation class): each is matched against the known findings on its own
    seen, uniq = set(), []
    for f in fails:
        k = (f["failed"].split(":")[0], f["args"].get("wrapper"), f["args"].get("operation", "")[:24])
        if k not in seen:
            seen.add(k)
            uniq.append(f)
    return dict(function=F + "[has_* / is_* predicates vs value protocols, through wrappers]", case="predicates-vs-values",
                bound="19 operations (unitary, mixture, non-mixture channels, measurements, classical control, parameterized) x 8 wrappers", cases=cases, distinct=cases,
                failures=len(fails), exhaustive=True, _fails=uniq)
standin_predicates_vs_values.prop = "C04"


def standin_subcircuit_operations(tier, seed):
    """a sub-circuit operation as an OPERATION: its reported matrix, its decomposition, in-place application, the simulators and its
    inverse / controlled wrappers all give (product of the body's matrices) ** repetitions, also for one-qubit bodies (matrix fast path),
    negative repetitions, parameters bound through param_resolver, a global phase inside the body and remapped qubits"""
    import cirq
    import sympy
    from contracts import refsim

    rng = random.Random(seed + 31)
    cases, fails = 0, []
    a = sympy.Symbol("a")
    q = cirq.LineQubit.range(3)

    def bad(what, op, **kw):
        if sum(1 for f in fails if f["failed"] == what) < 2:
            fails.append(dict(args=dict(operation=repr(op), **{k: repr(v) for k, v in kw.items()}), failed=what, clause=what))

    bodies = [
        ("T;H", [cirq.T(q[0]), cirq.H(q[0])], {}), ("X**0.5", [cirq.X(q[0]) ** 0.5], {}), ("X", [cirq.X(q[0])], {}),
        ("X**a;T  (a bound to 0.5)", [cirq.X(q[0]) ** a, cirq.T(q[0])], {a: 0.5}), ("rz(a);H  (a bound to 0.3)", [cirq.rz(a).on(q[0]), cirq.H(q[0])], {a: 0.3}),
        ("T;global phase i", [cirq.T(q[0]), cirq.global_phase_operation(1j)], {}), ("Y**0.25;global phase;S", [cirq.Y(q[0]) ** 0.25, cirq.global_phase_operation(np.exp(0.4j)), cirq.S(q[0])], {}),
        ("H;CNOT;T", [cirq.H(q[0]), cirq.CNOT(q[0], q[1]), cirq.T(q[1])], {}), ("CZ**a;X**0.5 (a bound to 0.25)", [cirq.CZ(q[0], q[1]) ** a, cirq.X(q[1]) ** 0.5], {a: 0.25}),
        ("ISWAP**0.5;global phase", [cirq.ISWAP(q[0], q[1]) ** 0.5, cirq.global_phase_operation(-1j)], {}),
    ]
    for label, body, binding in bodies:
        used = sorted({x for o in body for x in o.qubits})
        flat_body = [cirq.resolve_parameters(o, binding) for o in body]
        U1 = refsim.ref_unitary(cirq.Circuit(flat_body), used)
        for reps in (-3, -2, -1, 0, 1, 2, 3):
            for variant in ("repetitions", "inverse()", "**-1", "qubit map"):
                op = cirq.CircuitOperation(cirq.FrozenCircuit(body), param_resolver=binding or None)
                order = list(used)
                try:
                    if variant == "repetitions":
                        op = op.repeat(reps) if reps != 1 else op
                        k = reps
                    elif variant == "inverse()":
                        op = cirq.inverse(op.repeat(reps) if reps != 1 else op)
                        k = -reps
                    elif variant == "**-1":
                        op = (op.repeat(reps) if reps != 1 else op) ** -1
                        k = -reps
                    else:
                        tgt = rng.sample(q, len(used))
                        op = (op.repeat(reps) if reps != 1 else op).with_qubit_mapping(dict(zip(used, tgt)))
                        order, k = tgt, reps
                except Exception:
                    continue
                want = np.linalg.matrix_power(U1, k)
                cases += 1
                try:
                    if not cirq.has_unitary(op):
                        bad("has_unitary is False for a sub-circuit operation of unitary operations", op, body=label)
                        continue
                    got = cirq.unitary(op)
                except Exception as ex:
                    bad(f"cirq.unitary raised {type(ex).__name__} although has_unitary is True", op, body=label)
                    continue
                got = refsim.embed(got, list(op.qubits), order) if list(op.qubits) != order else got
                if not np.allclose(got, want, atol=1e-8):
                    bad("the reported matrix is not (product of the body's matrices) ** repetitions", op, body=label, repetitions=k)
                dec = cirq.Circuit(cirq.decompose(op))
                du = refsim.ref_unitary(dec, order) if len(dec.all_qubits()) else np.eye(len(want)) * (cirq.unitary(dec)[0, 0] if len(dec) else 1)
                if du.shape == want.shape and not np.allclose(du, want, atol=1e-8):
                    bad("the decomposition multiplies to a different matrix", op, body=label, repetitions=k)
                psi = np.array([complex(rng.gauss(0, 1), rng.gauss(0, 1)) for _ in range(len(want))])
                psi /= np.linalg.norm(psi)
                for sim in (cirq.Simulator(dtype=np.complex128), cirq.Simulator(dtype=np.complex128, split_untangled_states=False)):
                    r = sim.simulate(cirq.Circuit(op), initial_state=psi, qubit_order=order)
                    if not np.allclose(r.final_state_vector, want @ psi, atol=1e-7):
                        bad("the state-vector simulator applies a different matrix", op, body=label, repetitions=k)
                rho = cirq.DensityMatrixSimulator(dtype=np.complex128).simulate(cirq.Circuit(op), initial_state=psi, qubit_order=order).final_density_matrix
                if not np.allclose(rho, np.outer(want @ psi, (want @ psi).conj()), atol=1e-7):
                    bad("the density-matrix simulator applies a different channel", op, body=label, repetitions=k)
                if len(order) <= 2:
                    ctl = cirq.NamedQubit("ctl")
                    try:
                        cu = cirq.unitary(cirq.Circuit(op.controlled_by(ctl)).unitary(qubit_order=[ctl] + order))
                    except Exception as ex:
                        bad(f"the controlled sub-circuit operation has no matrix ({type(ex).__name__})", op, body=label)
                        continue
                    wantc = np.block([[np.eye(len(want)), np.zeros_like(want)], [np.zeros_like(want), want]])
                    if not np.allclose(cu, wantc, atol=1e-8):
                        bad("controlled_by(q) of the sub-circuit operation is not diag(I, U)", op, body=label, repetitions=k)
    return dict(function="cirq-core/cirq/circuits/circuit_operation.py:CircuitOperation[as an operation: unitary, decomposition, simulators, inverse, control]", case="subcircuit-operations",
                bound="10 bodies (one- and two-qubit, bound parameters, global phases) x repetitions -3..3 x {repeat, inverse(), **-1, qubit map}", cases=cases, distinct=cases,
                failures=len(fails), exhaustive=True, _fails=fails[:4])
standin_subcircuit_operations.prop = "C04"
def standin_control_values(tier, seed):
    """controlled operations under EVERY assignment of control values (1-3 controls, a qutrit control, sums of products): the matrix by definition
    (the sub-gate's matrix on the block the control values select, identity elsewhere) against cirq.unitary of gate.controlled(...) / op.controlled_by(...),
    the decomposition, apply_unitary on a random state and the simulator; for a global phase, a rotation, a two-qubit gate"""
    import itertools

    import cirq

    cases, fails = 0, []
    rs = np.random.RandomState(seed + 5)
    subs = [("global phase", cirq.GlobalPhaseGate(np.exp(0.7j)), 0), ("global phase -1", cirq.GlobalPhaseGate(-1), 0), ("Y**0.3", cirq.Y ** 0.3, 1), ("Z**0.4", cirq.Z ** 0.4, 1), ("ISWAP**0.5", cirq.ISWAP ** 0.5, 2)]
    for (sname, sub, nt), k in itertools.product(subs, (1, 2, 3)):
        dims_options = [(2,) * k] + ([(3,) + (2,) * (k - 1), (2,) * (k - 1) + (3,)] if k <= 2 else [])
        for dims in dims_options:
            ctrls = [cirq.LineQid(i, dimension=d) for i, d in enumerate(dims)]
            targets = [cirq.LineQid(10 + i, dimension=2) for i in range(nt)]
            qs = ctrls + targets
            # every control takes one value or a SET of values (a control on "0 or 1", on "0 or 2")
            options = [list(range(d)) + [(0, 1)] + ([(0, 2)] if d == 3 else []) for d in dims]
            for cv in itertools.product(*options):
                cases += 1
                D = int(np.prod(dims))
                T = 2 ** nt
                want = np.eye(D * T, dtype=complex)
                for combo in itertools.product(*[(v,) if isinstance(v, int) else v for v in cv]):
                    idx = 0
                    for v, d in zip(combo, dims):
                        idx = idx * d + v
                    want[idx * T:(idx + 1) * T, idx * T:(idx + 1) * T] = cirq.unitary(sub)
                args = dict(sub_gate=sname, control_dimensions=list(dims), control_values=list(cv))
                try:
                    forms = {
                        "gate.controlled(...)": sub.controlled(num_controls=k, control_values=list(cv), control_qid_shape=dims).on(*qs),
                        "op.controlled_by(...)": sub.on(*targets).controlled_by(*ctrls, control_values=list(cv)),
                        "ControlledGate(...)": cirq.ControlledGate(sub, num_controls=k, control_values=list(cv), control_qid_shape=dims).on(*qs),
                    }
                    psi = rs.randn(D * T) + 1j * rs.randn(D * T)
                    psi = (psi / np.linalg.norm(psi)).astype(np.complex128)
                    for fname, op in forms.items():
                        views = {
                            "cirq.unitary": cirq.unitary(op),
                            "decompose": cirq.Circuit(cirq.decompose(op)).unitary(qubit_order=qs, qubits_that_should_be_present=qs),
                            "decompose_once": cirq.Circuit(cirq.decompose_once(op, default=[op])).unitary(qubit_order=qs, qubits_that_should_be_present=qs),
                        }
                        problem = next((v for v, m in views.items() if not np.allclose(m, want, atol=1e-7)), None)
                        if problem is None:
                            out = cirq.Simulator(dtype=np.complex128).simulate(cirq.Circuit(op), qubit_order=qs, initial_state=psi.copy()).final_state_vector
                            if not np.allclose(out, want @ psi, atol=1e-6):
                                problem = "the simulator"
                        if problem:
                            fails.append(dict(args=dict(args, form=fname, view=problem), failed="control-values", clause=f"{fname} of {sname} with control values {list(cv)} over control dimensions {list(dims)}: {problem} disagrees with the matrix the control values define"))
                            break
                except Exception as ex:
                    fails.append(dict(args=args, failed="control-values-raised", clause=f"{ex!r}"))
        # sums of products over two qubit controls
        if k == 2:
            ctrls = cirq.LineQubit.range(2)
            targets = [cirq.LineQubit(10 + i) for i in range(nt)]
            qs = list(ctrls) + targets
            for rows in ([(0, 1)], [(0, 1), (1, 0)], [(0, 0), (1, 1)], [(1, 1), (0, 1), (1, 0)]):
                cases += 1
                T = 2 ** nt
                want = np.eye(4 * T, dtype=complex)
                for r_ in rows:
                    idx = r_[0] * 2 + r_[1]
                    want[idx * T:(idx + 1) * T, idx * T:(idx + 1) * T] = cirq.unitary(sub)
                try:
                    op = sub.on(*targets).controlled_by(*ctrls, control_values=cirq.SumOfProducts(rows))
                    views = {"cirq.unitary": cirq.unitary(op), "decompose": cirq.Circuit(cirq.decompose(op)).unitary(qubit_order=qs, qubits_that_should_be_present=qs)}
                    problem = next((v for v, m in views.items() if not np.allclose(m, want, atol=1e-7)), None)
                    if problem:
                        fails.append(dict(args=dict(sub_gate=sname, control_values=repr(rows), view=problem), failed="control-values", clause=f"{sname} controlled by the sum of products {rows}: {problem} disagrees with the matrix the control values define"))
                except Exception as ex:
                    fails.append(dict(args=dict(sub_gate=sname, control_values=repr(rows)), failed="control-values-raised", clause=f"{ex!r}"))
    seen, uniq = set(), []
    for f_ in fails:
        key = (f_["args"]["sub_gate"], f_["failed"])
        if key not in seen:
            seen.add(key)
            uniq.append(f_)
    return dict(function="cirq-core/cirq/ops/{controlled_gate,controlled_operation,global_phase_op,raw_types}.py[controlled(...) under every control value]", case="control-values",
                bound="5 sub-gates x 1-3 controls (qubits; a qutrit first or last for <= 2 controls) x every control-value assignment x 3 ways of building the operation x 4 views; 4 sums of products", cases=cases, distinct=cases, failures=len(uniq), exhaustive=True, _fails=uniq[:4])
standin_control_values.prop = "C04"


STANDINS = [standin_protocols, standin_predicates_vs_values, standin_subcircuit_operations, standin_control_values]
