"""C19 — the OpenQASM text of one operation denotes the operation's unitary up to global phase, for ALL parameter values.

Deductive (trigpoly): the REAL `_qasm_` methods run on symbolic parameters (through `cirq.qasm(op, args=...)`, with a QasmArgs
subclass that writes an exact parameter as a placeholder instead of rounding it); the emitted text is read by the independent
reader in contracts/qasm_reader.py, whose gate meanings are the qelib1.inc / stdgates.inc definitions evaluated in the same
exact arithmetic; the resulting matrix must be proportional (entry-wise cross-multiplication, an exact polynomial identity)
to the documented matrix of the gate (contracts/gate_specs.py).  Every `param == constant` test the code makes is recorded and
the run is repeated with the parameter fixed to that constant (and `param % 2 == c` with the representatives c, c+2, c-2);
`x % 2` on a symbolic value is x - 2K for a fresh integer symbol K (cis(pi q K) = 1 for even q, a sign atom for odd q); order
tests on symbolic values are explored both ways.  Returning None (no QASM form) is allowed: QasmOutput then decomposes, which
the circuit-level stand-in in C19_circuits.py covers."""
import itertools
import time
from fractions import Fraction

import numpy as np

from pyvc import api, paths, trigpoly
from pyvc.trigpoly import Angle, TrigPoly
from contracts import gate_specs as gs
from contracts import qasm_reader as qr
from contracts.C03_gates import _rep


class Exact:
    """exact arithmetic for the reader: angles are trigpoly Angles (radians), matrices hold TrigPolys"""
    exact = True
    pi = Angle({("pi",): 1})

    def __init__(self, placeholders):
        self.ph = placeholders

    def num(self, s):
        return Angle.of(Fraction(s))

    def placeholder(self, name):
        return self.ph[int(name[1:])]

    def U(self, th, ph, lm):
        th, ph, lm = Angle.of(th), Angle.of(ph), Angle.of(lm)
        c, s = (th / 2).cos(), (th / 2).sin()
        out = np.empty((2, 2), dtype=object)
        out[0, 0], out[0, 1], out[1, 0], out[1, 1] = c, -(lm.cis() * s), ph.cis() * s, (ph + lm).cis() * c
        return out

    def eye(self, n):
        out = np.empty((n, n), dtype=object)
        for i in range(n):
            for j in range(n):
                out[i, j] = TrigPoly.const(1 if i == j else 0)
        return out


def proportional_exact(A, B):
    """A == phi * B for a unit scalar phi, as functions of the parameters: A[i,j]*B[p] == A[p]*B[i,j] for a pivot p with B[p]
    not identically zero (both unitary: the identity on the dense set B[p] != 0 extends by continuity)."""
    A, B = np.asarray(A, dtype=object), np.asarray(B, dtype=object)
    if A.shape != B.shape:
        return False, f"shape {A.shape} vs {B.shape}"
    piv = None
    for idx in np.ndindex(B.shape):
        b = trigpoly._lift(B[idx])
        if b.t:
            piv = idx
            break
    if piv is None:
        return False, "specification matrix is zero"
    bp, ap = trigpoly._lift(B[piv]), trigpoly._lift(A[piv])
    if not ap.t:
        return False, f"entry {piv} of the QASM matrix is identically zero but the documented entry is {B[piv]!r}"
    for idx in np.ndindex(A.shape):
        l, r = trigpoly._lift(A[idx]) * bp, ap * trigpoly._lift(B[idx])
        if not l.same(r):
            return False, f"not proportional at entry {idx} (pivot {piv}): QASM gives {A[idx]!r}, documented {B[idx]!r}"
    return True, ""


class _Ctx:
    def __init__(self, script):
        self.script, self.pos, self.eq, self.nint, self.orders = list(script), 0, [], 0, 0

    def decide_angle_equal(self, a, b):
        self.eq.append((a, b))
        return False

    def decide_poly_equal(self, a, b):
        return False

    def decide_undecided(self, what):
        return False

    def _ord(self):
        d = self.script[self.pos] if self.pos < len(self.script) else False
        self.pos += 1
        return d

    def decide_order(self, a, o, op):
        return self._ord()

    def decide_undecided_order(self, what):
        # abs(e +- 0.5) <= epsilon: generic outcome (outside the epsilon window); the window's centre is a recorded special
        # value because canonicalisation compares with +-0.5 ... it does not: add it explicitly in the family's specials
        return False

    def integer_symbol(self, a, o):
        self.nint += 1
        return f"int#{self.nint}"


def _solve(a, b):
    """values of the single parameter symbol making a == b (a may contain one integer symbol K: family b + m*K)"""
    d = a - b
    if d is NotImplemented or d.imag:
        return None
    syms = sorted({s for k in d.m for s in k if s != "pi" and not s.startswith("int#")})
    if len(syms) != 1:
        return None
    s = syms[0]
    coef, const, period = d.m.get((s,), 0), d.m.get((), 0), 0
    for k, v in d.m.items():
        if k in ((s,), ()):
            continue
        if len(k) == 1 and k[0].startswith("int#"):
            period = v
            continue
        return None
    if coef == 0:
        return None
    base = -const / coef
    if period:
        return s, [base + (period / coef) * k for k in (0, 1, -1)]
    return s, [base]


class CapArgs:
    pass


def _cap_args(version, qubits, keys=()):
    import cirq

    class Cap(cirq.QasmArgs):
        def __init__(self):
            super().__init__(precision=10, version=version, qubit_id_map={q: f"q[{i}]" for i, q in enumerate(qubits)},
                             meas_key_id_map={k: f"m_{k}" for k in keys}, meas_key_bitcount={f"m_{k}": 1 for k in keys})
            self.ph = []

        def format_field(self, value, spec):
            if isinstance(value, (Angle, Fraction)):
                a = Angle.of(value)
                if spec == "half_turns":
                    if a.is_number() and a.number() == 0:
                        return "0"
                    self.ph.append(a)
                    return f"pi*${len(self.ph) - 1}"
                self.ph.append(a)
                return f"${len(self.ph) - 1}"
            return super().format_field(value, spec)

    return Cap()


def run_family(name, make, params, spec, nq, version, build_op=None, extra_specials=None, key=None):
    """Obligations for one gate family and language version; explores special values and order decisions."""
    import cirq

    qubits = cirq.LineQubit.range(nq)
    obls, seen, work = [], set(), [({}, ())]
    extra_specials = extra_specials or {}
    for p, vals in extra_specials.items():
        for v in vals:
            work.append(({p: Fraction(v)}, ()))
    texts = {}
    while work and len(seen) < 96:
        assign, script = work.pop(0)
        tag = (tuple(sorted(assign.items())), tuple(script))
        if tag in seen:
            continue
        seen.add(tag)
        label = ", ".join(f"{p}={assign[p]}" if p in assign else f"{p}=*" for p in params) + (f"; order{list(map(int, script))}" if script else "")
        t0 = time.time()
        ctx = _Ctx(script)
        vals = {p: (assign[p] if p in assign else Angle.sym(p)) for p in params}
        st, detail, text = "proved", "", None
        try:
            trigpoly.CTX = ctx
            try:
                gate = make(**vals)
                op = build_op(gate, qubits) if build_op else gate.on(*qubits)
                args = _cap_args(version, qubits)
                text = cirq.qasm(op, args=args, default=None)
            finally:
                trigpoly.CTX = None
            if text is not None:
                decl = f"qreg q[{nq}];" if version == "2.0" else f"qubit[{nq}] q;"
                inc = "qelib1.inc" if version == "2.0" else "stdgates.inc"
                prog = qr.parse(f'OPENQASM {version};\ninclude "{inc}";\n{decl}\n{text}')
                A = qr.unitary(prog, Exact(args.ph))
                B = spec(**vals)
                ok, detail = proportional_exact(A, B)
                st = "proved" if ok else "failed"
                if not ok:
                    detail = f"{name}({label}) emits {text!r}: {detail}"
        except qr.QasmError as e:
            st, detail = "failed", f"{name}({label}) emits {text!r} which a standard reader rejects: {e}"
        except Exception as e:  # engine limit: not a verdict
            st, detail = "error", f"{type(e).__name__}: {e}"
        texts[label] = text
        o = paths.Obligation(f"C19/{key}#qasm-denotes-unitary[{name}; {label}; v{version}]", "engine", st, (time.time() - t0) * 1e3, "trigpoly", detail=detail)
        o.case = name
        o.concrete = dict(gate=name, assignment={k: str(v) for k, v in assign.items()}, version=version, text=text)
        obls.append(o)
        # follow-up cases
        for a, b in ctx.eq:
            r = _solve(a, Angle.of(b))
            if r is None:
                continue
            s, vs = r
            if s in assign or s not in params:
                continue
            for v in vs:
                work.append(({**assign, s: v}, ()))
        for i in range(len(script), ctx.pos):
            work.append((assign, tuple(script) + (False,) * (i - len(script)) + (True,)))
    return obls, texts


def _blk(U):
    return gs.block_diag(np.array([[1, 0], [0, 1]], dtype=object), U) if len(U) == 2 else gs.block_diag(*([np.array([[1]], dtype=object)] * len(U)), U)


def _scaled(M, ph):
    M = np.asarray(M, dtype=object)
    out = np.empty(M.shape, dtype=object)
    for idx in np.ndindex(M.shape):
        out[idx] = trigpoly._lift(M[idx]) * ph
    return out


def _families():
    import cirq
    from cirq.circuits import qasm_output

    F = "cirq-core/cirq/ops/"
    fams = []

    def eig(cls, mat, nq, file):
        fams.append(dict(name=cls.__name__, key=f"{F}{file}:{cls.__name__}._qasm_", nq=nq, params=["e", "s"],
                         make=lambda e, s, cls=cls: cls(exponent=e, global_shift=s), spec=lambda e, s, mat=mat: mat(e)))

    eig(cirq.XPowGate, gs.x_pow, 1, "common_gates.py")
    eig(cirq.YPowGate, gs.y_pow, 1, "common_gates.py")
    eig(cirq.ZPowGate, gs.z_pow, 1, "common_gates.py")
    eig(cirq.HPowGate, gs.h_pow, 1, "common_gates.py")
    eig(cirq.CZPowGate, gs.cz_pow, 2, "common_gates.py")
    eig(cirq.CXPowGate, gs.cx_pow, 2, "common_gates.py")
    eig(cirq.SwapPowGate, gs.swap_pow, 2, "swap_gates.py")
    eig(cirq.ISwapPowGate, gs.iswap_pow, 2, "swap_gates.py")
    eig(cirq.CCZPowGate, gs.ccz_pow, 3, "three_qubit_gates.py")
    eig(cirq.CCXPowGate, gs.ccx_pow, 3, "three_qubit_gates.py")
    PI = gs.PI
    for cls, mat in ((cirq.Rx, gs.x_pow), (cirq.Ry, gs.y_pow), (cirq.Rz, gs.z_pow)):
        fams.append(dict(name=cls.__name__, key=f"{F}common_gates.py:{cls.__name__}._qasm_", nq=1, params=["r"],
                         make=lambda r, cls=cls: cls(rads=r * PI), make_num=lambda r, cls=cls: cls(rads=r * np.pi), spec=lambda r, mat=mat: mat(r), note="rads = pi * r"))
    fams.append(dict(name="CSwapGate", key=f"{F}three_qubit_gates.py:CSwapGate._qasm_", nq=3, params=[], make=lambda: cirq.CSWAP, spec=lambda: gs.cswap()))
    fams.append(dict(name="IdentityGate(2)", key=f"{F}identity.py:IdentityGate._qasm_", nq=2, params=[], make=lambda: cirq.IdentityGate(2),
                     spec=lambda: np.array([[1 if i == j else 0 for j in range(4)] for i in range(4)], dtype=object)))
    fams.append(dict(name="PhasedXPowGate", key=f"{F}phased_x_gate.py:PhasedXPowGate._qasm_", nq=1, params=["p", "t"],
                     make=lambda p, t: cirq.PhasedXPowGate(phase_exponent=p, exponent=t), spec=lambda p, t: gs.phased_x_pow(p, t),
                     specials={"t": ["1/2", "-1/2", "3/2", "1", "0"], "p": ["0", "1/2", "1"]}))
    fams.append(dict(name="PhasedXZGate", key=f"{F}phased_x_z_gate.py:PhasedXZGate._qasm_", nq=1, params=["x", "z", "a"],
                     make=lambda x, z, a: cirq.PhasedXZGate(x_exponent=x, z_exponent=z, axis_phase_exponent=a), spec=lambda x, z, a: gs.phased_xz(x, z, a)))
    fams.append(dict(name="QasmUGate", key="cirq-core/cirq/circuits/qasm_output.py:QasmUGate._qasm_", nq=1, params=["theta", "phi", "lmda"],
                     make=lambda theta, phi, lmda: qasm_output.QasmUGate(theta, phi, lmda),
                     spec=lambda theta, phi, lmda: gs._mm(gs._mm(gs.z_pow(phi), gs.y_pow(theta)), gs.z_pow(lmda)),
                     specials={"theta": ["5/2", "-1/2"], "phi": ["9/4", "-1/4"], "lmda": ["2", "-3/2"]}))
    # ControlledOperation: one control on a Pauli / Hadamard power
    for cls, mat in ((cirq.XPowGate, gs.x_pow), (cirq.YPowGate, gs.y_pow), (cirq.ZPowGate, gs.z_pow), (cirq.HPowGate, gs.h_pow)):
        fams.append(dict(name=f"ControlledOperation({cls.__name__})", key=f"{F}controlled_operation.py:ControlledOperation._qasm_", nq=2, params=["e", "s"],
                         make=lambda e, s, cls=cls: cls(exponent=e, global_shift=s), specials={"e": ["1"], "s": ["0"]},
                         build_op=lambda g, qs: cirq.ControlledOperation([qs[0]], g.on(qs[1])),
                         spec=lambda e, s, mat=mat: gs.block_diag(np.array([[1, 0], [0, 1]], dtype=object), _scaled(mat(e), gs.eig_phase(e, s)))))
        fams.append(dict(name=f"ControlledOperation({cls.__name__}; control on 0)", key=f"{F}controlled_operation.py:ControlledOperation._qasm_", nq=2, params=[],
                         make=lambda cls=cls: cls(exponent=1), build_op=lambda g, qs: cirq.ControlledOperation([qs[0]], g.on(qs[1]), control_values=[0]),
                         spec=lambda mat=mat: gs.block_diag(mat(Fraction(1)), np.array([[1, 0], [0, 1]], dtype=object))))
    return fams


def check_gate_qasm():
    reps = {}
    for fam in _families():
        for version in ("2.0", "3.0"):
            obls, _ = run_family(fam["name"], fam["make"], fam["params"], fam["spec"], fam["nq"], version, build_op=fam.get("build_op"),
                                 extra_specials=fam.get("specials"), key=fam["key"])
            reps.setdefault(fam["key"], []).extend(obls)
    return [_rep(k, v, "C19") for k, v in reps.items()]


ENGINE_CHECKS = [check_gate_qasm]


def _replay(ob, seed):
    """native replay of a failed obligation: concrete parameter values through the real to_qasm and the numeric reader"""
    import random

    import cirq

    c = ob.concrete or {}
    fam = next((f for f in _families() if f["name"] == c.get("gate")), None)
    if fam is None:
        return None
    rng = random.Random(seed)
    for attempt in range(40):
        vals = {}
        for p in fam["params"]:
            if p in c.get("assignment", {}):
                vals[p] = float(Fraction(c["assignment"][p]))
            else:
                vals[p] = rng.choice([0.3, -0.7, 1.3, 0.123, 0.25, 0.5, 1.0])
        try:
            gate = fam.get("make_num", fam["make"])(**vals)
        except Exception:
            continue
        qs = cirq.LineQubit.range(fam["nq"])
        op = fam["build_op"](gate, qs) if fam.get("build_op") else gate.on(*qs)
        circuit = cirq.Circuit(op)
        try:
            text = circuit.to_qasm(version=c.get("version", "2.0"), qubit_order=qs)
            U = qr.unitary(qr.parse(text))
            good = qr.proportional(U, cirq.unitary(circuit.unitary(qubit_order=qs)), atol=1e-6)
            why = "the OpenQASM text denotes a different unitary"
        except qr.QasmError as e:
            good, why = False, f"a standard OpenQASM reader rejects the text: {e}"
        except Exception:
            continue
        if not good:
            return dict(args=dict(gate=repr(gate), operation=repr(op), version=c.get("version"), qasm=text), failed=why, clause=ob.name,
                        how="cirq.Circuit(operation).to_qasm(version=...) read with contracts/qasm_reader.py vs cirq.unitary(operation)")
    return None


REPLAYERS = {"cirq-core/cirq/ops/": _replay, "cirq-core/cirq/circuits/qasm_output.py": _replay}

CANARIES = [
    dict(name="rx angle in full turns", file="cirq-core/cirq/ops/common_gates.py", engine_check=0,
         find="        return args.format('rx({0:half_turns}) {1};\\n', self._exponent, qubits[0])\n\n    @property",
         replace="        return args.format('rx({0:half_turns}) {1};\\n', 2 * self._exponent, qubits[0])\n\n    @property"),
    dict(name="S emitted as sdg", file="cirq-core/cirq/ops/common_gates.py", engine_check=0,
         find="            elif self._exponent == 0.5:\n                return args.format('s {0};\\n', qubits[0])",
         replace="            elif self._exponent == 0.5:\n                return args.format('sdg {0};\\n', qubits[0])"),
    dict(name="controlled X with a global shift emitted as cx", file="cirq-core/cirq/ops/controlled_operation.py", engine_check=0,
         find="                and gate.exponent == 1\n                and gate.global_shift == 0\n", replace="                and gate.exponent == 1\n"),
    dict(name="u3 arguments of PhasedXZGate swapped", file="cirq-core/cirq/ops/phased_x_z_gate.py", engine_check=0,
         find="            lmda=0.5 - self._axis_phase_exponent,", replace="            lmda=self._axis_phase_exponent - 0.5,"),
]
NOT_COVERED = [
    "rounding of parameters to `precision` decimals: the exact check writes parameters exactly (placeholder); the error bound after rounding is a stand-in clause",
    "MatrixGate / QasmTwoQubitGate (numeric KAK and single-qubit angle extraction): circuit-level stand-in only",
    "`param % 2 == c` families are represented by c, c+2, c-2",
]
ASSUMPTIONS = [
    "gate meanings are the qelib1.inc definitions (OpenQASM 2.0 paper plus the sx/sxdg/swap/cswap additions all current readers ship); stdgates.inc defines "
    "exactly the names in the OpenQASM 3.0 specification with the same matrices up to global phase",
    "trigpoly assumptions of C03 (floats as exact reals; independent unit atoms)",
]
EXPLANATION = ("C19: per-operation OpenQASM text (both language versions) proved to denote the documented unitary up to global phase for all real "
               "parameters with trigpoly + an independent reader on 20 gate families incl. QasmUGate and single-control ControlledOperation; ")
