"""C08 — gate algebra: powers, controls, predicates.

Deductive (trigpoly, all real parameter values): for each EigenGate family the REAL __pow__ / controlled() code runs on symbolic
exponents; the matrix of g**t is the documented matrix at exponent e*t with phase cis(pi e t s) (the power defined by the
eigen-decomposition), (g**a)**b is g**(ab), g**-1 g = I, and the specialised controlled() results (CZ/CCZ/CX/CCX) are the block
matrices diag(I, U).  Control-value algebra and the yes/no predicates are exhaustive-small / bounded stand-ins."""
import itertools
import time
from fractions import Fraction

import numpy as np

from pyvc import api, paths, trigpoly
from pyvc.trigpoly import Angle, TrigPoly, matrix_equal
from contracts import gate_specs as gs
from contracts.C03_gates import _rep, _ob


def _matmul(A, B):
    A, B = np.asarray(A, dtype=object), np.asarray(B, dtype=object)
    n, m, k = A.shape[0], B.shape[1], A.shape[1]
    out = np.empty((n, m), dtype=object)
    for i in range(n):
        for j in range(m):
            acc = TrigPoly()
            for l in range(k):
                a, b = trigpoly._lift(A[i, l]), trigpoly._lift(B[l, j])
                if a.t and b.t:
                    acc = acc + a * b
            out[i, j] = acc
    return out


def check_powers():
    import cirq

    fam = gs.eigen_families()
    e, s, t, a, b = (Angle.sym(x) for x in "estab")
    obls = []
    key = "cirq-core/cirq/ops/eigen_gate.py:EigenGate.__pow__"
    for name, sp in fam.items():
        def f_pow(sp=sp):
            g = sp["make"](e, s)
            gp = g ** t
            U = cirq.unitary(gp)
            M = np.asarray(sp["matrix"](e * t, s), dtype=object) * trigpoly._lift(sp["phase"](e * t, s))
            return matrix_equal(U, M)
        obls.append(_ob(f"C08/{key}#power[{name}: unitary(g**t) == documented matrix at exponent e*t, shift kept]", f_pow, case=name))

        def f_pp(sp=sp):
            g = sp["make"](e, s)
            lhs, rhs = (g ** a) ** b, g ** (a * b)
            ok = (lhs.exponent == rhs.exponent) and lhs._global_shift == rhs._global_shift
            return ok, "" if ok else f"(g**a)**b has exponent {lhs.exponent!r}, g**(ab) has {rhs.exponent!r}"
        obls.append(_ob(f"C08/{key}#power-of-power[{name}: (g**a)**b == g**(a*b)]", f_pp, case=name))

        def f_inv(sp=sp):
            g = sp["make"](e, s)
            U, Ui = cirq.unitary(g), cirq.unitary(g ** -1)
            n = len(U)
            return matrix_equal(_matmul(Ui, U), np.array([[1 if i == j else 0 for j in range(n)] for i in range(n)], dtype=object))
        obls.append(_ob(f"C08/{key}#inverse[{name}: unitary(g**-1) @ unitary(g) == I]", f_inv, case=name))

        def f_add(sp=sp):
            g = sp["make"](e, s)
            # powers add: g**a g**b == g**(a+b)   (matrix identity, independent atoms for a and b)
            Ua, Ub, Uab = cirq.unitary(g ** a), cirq.unitary(g ** b), cirq.unitary(g ** (a + b))
            return matrix_equal(_matmul(Ua, Ub), Uab)
        obls.append(_ob(f"C08/{key}#powers-add[{name}: g**a g**b == g**(a+b)]", f_add, case=name))
    return [_rep(key, obls, "C08")]


def check_controlled():
    import cirq

    e, s = Angle.sym("e"), Angle.sym("s")
    obls = []
    key = "cirq-core/cirq/ops/common_gates.py:{X,Z,CX,CZ}PowGate.controlled"

    def block(U):
        n = len(U)
        out = np.zeros((2 * n, 2 * n), dtype=object)
        for i in range(n):
            out[i, i] = 1
        out[n:, n:] = U
        return out

    cases = {"ZPowGate": cirq.ZPowGate, "XPowGate": cirq.XPowGate, "CZPowGate": cirq.CZPowGate, "CXPowGate": cirq.CXPowGate}
    for name, cls in cases.items():
        for shift, label in ((0, "s=0"), (s, "s=*"), (Fraction(-1, 2), "s=-1/2")):
            def f(cls=cls, shift=shift):
                g = cls(exponent=e, global_shift=shift)
                c = g.controlled()
                U = cirq.unitary(c)
                return matrix_equal(U, block(cirq.unitary(g)))
            obls.append(_ob(f"C08/{key}#controlled[{name}; {label}: unitary(g.controlled()) == diag(I, unitary(g))]", f, case=name))

            def f2(cls=cls, shift=shift):
                g = cls(exponent=e, global_shift=shift)
                c = g.controlled(control_values=[0])
                U = cirq.unitary(c)
                n = len(cirq.unitary(g))
                want = np.zeros((2 * n, 2 * n), dtype=object)
                want[:n, :n] = cirq.unitary(g)
                for i in range(n, 2 * n):
                    want[i, i] = 1
                return matrix_equal(U, want)
            obls.append(_ob(f"C08/{key}#controlled-on-0[{name}; {label}: unitary == diag(unitary(g), I)]", f2, case=name))
    # qudit gates must stay qudit
    for cls in (cirq.XPowGate, cirq.ZPowGate):
        def f3(cls=cls):
            g = cls(dimension=3)
            c = g.controlled()
            ok = cirq.qid_shape(c) == (2, 3) and np.allclose(cirq.unitary(c), np.block([[np.eye(3), np.zeros((3, 3))], [np.zeros((3, 3)), cirq.unitary(g)]]))
            return ok, "" if ok else f"controlled() of a qutrit gate is {c!r} with shape {cirq.qid_shape(c)}"
        obls.append(_ob(f"C08/{key}#controlled-qutrit[{cls.__name__}(dimension=3)]", f3, case=cls.__name__))
    return [_rep(key, obls, "C08")]


def check_phase_by():
    """phase_by(g, turns, i) is g conjugated by the Z rotation of `turns` full turns on qubit i, up to global phase: for all exponents
    (symbolic), at every multiple of 1/8 turn in [-1, 1] and two generic values (the code special-cases particular turns)."""
    import cirq

    e, s, ph = Angle.sym("e"), Angle.sym("s"), Angle.sym("p")
    key = "cirq-core/cirq/ops/common_gates.py:{X,Y,Z,CZ}PowGate._phase_by_ + PhasedXPowGate/PhasedXZGate._phase_by_"
    fams = {
        "XPowGate": (lambda: cirq.XPowGate(exponent=e, global_shift=s), 1), "YPowGate": (lambda: cirq.YPowGate(exponent=e, global_shift=s), 1),
        "ZPowGate": (lambda: cirq.ZPowGate(exponent=e, global_shift=s), 1), "CZPowGate": (lambda: cirq.CZPowGate(exponent=e, global_shift=s), 2),
        "PhasedXPowGate": (lambda: cirq.PhasedXPowGate(phase_exponent=ph, exponent=e), 1),
        "PhasedXZGate": (lambda: cirq.PhasedXZGate(x_exponent=e, z_exponent=Angle.sym("z"), axis_phase_exponent=ph), 1),
    }
    turns_list = [Fraction(k, 8) for k in range(-8, 9)] + [Fraction(1, 10), Fraction(-3, 7)]
    from contracts.C19_qasm import proportional_exact
    obls = []
    for name, (mk, nq) in fams.items():
        for idx in range(nq):
            for turns in turns_list:
                def f(name=name, mk=mk, nq=nq, idx=idx, turns=turns):
                    from contracts.C19_qasm import _Ctx as _QCtx
                    dyadic = Fraction(float(turns)) == turns
                    if not dyadic:
                        # turns that are not exact floats / outside Q(zeta_48): numeric comparison at several parameter values
                        import random as _r
                        rr = _r.Random(5)
                        for _ in range(6):
                            v = {k: rr.uniform(-2, 2) for k in ("e", "s", "p", "z")}
                            g = {"XPowGate": lambda: cirq.XPowGate(exponent=v["e"], global_shift=v["s"]), "YPowGate": lambda: cirq.YPowGate(exponent=v["e"], global_shift=v["s"]),
                                 "ZPowGate": lambda: cirq.ZPowGate(exponent=v["e"], global_shift=v["s"]), "CZPowGate": lambda: cirq.CZPowGate(exponent=v["e"], global_shift=v["s"]),
                                 "PhasedXPowGate": lambda: cirq.PhasedXPowGate(phase_exponent=v["p"], exponent=v["e"]),
                                 "PhasedXZGate": lambda: cirq.PhasedXZGate(x_exponent=v["e"], z_exponent=v["z"], axis_phase_exponent=v["p"])}[name]()
                            r = cirq.phase_by(g, float(turns), idx, default=None)
                            if r is None:
                                continue
                            zt = np.diag([1, np.exp(2j * np.pi * float(turns))])
                            Zr = zt if nq == 1 else (np.kron(zt, np.eye(2)) if idx == 0 else np.kron(np.eye(2), zt))
                            if not cirq.allclose_up_to_global_phase(cirq.unitary(r), Zr @ cirq.unitary(g) @ Zr.conj().T, atol=1e-7):
                                return False, f"phase_by({g!r}, {float(turns)}, {idx}) is not the conjugated gate"
                        return True, ""
                    trigpoly.CTX = _QCtx(())
                    try:
                        g = mk()
                        r = cirq.phase_by(g, float(turns), idx, default=None)
                        if r is None:
                            return True, ""
                        U, V = np.asarray(cirq.unitary(g), dtype=object), np.asarray(cirq.unitary(r), dtype=object)
                    finally:
                        trigpoly.CTX = None
                    zt, zi = gs.z_pow(2 * turns), gs.z_pow(-2 * turns)
                    one = np.array([[1, 0], [0, 1]], dtype=object)
                    if nq == 1:
                        Zr, Zi = zt, zi
                    else:
                        from contracts.C15_closed_forms import kron
                        Zr, Zi = (kron(zt, one), kron(zi, one)) if idx == 0 else (kron(one, zt), kron(one, zi))
                    return proportional_exact(V, _matmul(_matmul(Zr, U), Zi))
                obls.append(_ob(f"C08/{key}#phase_by-is-Z-conjugation[{name}; qubit {idx}; turns={turns}]", f, case=name))
    return [_rep(key, obls, "C08")]


def check_fsim_equality():
    """PhasedFSimGate / FSimGate equality bookkeeping, for ALL angles: the real `qubit_index_to_equivalence_group_key` may give both
    qubits the same key only if exchanging the qubits leaves the matrix unchanged, and two gates with equal `_value_equality_values_`
    have equal matrices.  Each of theta / zeta / chi is explored at every value the code compares against (0, -pi, +-pi/2: the
    constructor canonicalises into [-pi, pi)) and as a free symbol (every other value: the comparisons are then False); gamma and phi
    stay symbols.  The matrix identities are polynomial identities in the remaining symbols."""
    import cirq
    from contracts.C03_gates import _Generic
    from contracts.C04_kernels import _install_shims

    _install_shims()
    F = "cirq-core/cirq/ops/fsim_gate.py"
    pi = np.pi
    choices = [("*", None), ("0", 0.0), ("-pi", -pi), ("pi/2", pi / 2), ("-pi/2", -pi / 2)]
    perm = [0, 2, 1, 3]
    obls = []

    def mk(theta, zeta, chi, gamma, phi):
        return gs._raw(cirq.PhasedFSimGate, _theta=theta, _zeta=zeta, _chi=chi, _gamma=gamma, _phi=phi)

    def unitary(g):
        trigpoly.CTX = _Generic()
        try:
            return np.asarray(cirq.unitary(g), dtype=object)
        finally:
            trigpoly.CTX = None

    for (tn, tv), (zn, zv), (cn, cv) in itertools.product(choices, repeat=3):
        vals = dict(theta=Angle.sym("theta") if tv is None else Angle.of(tv), zeta=Angle.sym("zeta") if zv is None else Angle.of(zv),
                    chi=Angle.sym("chi") if cv is None else Angle.of(cv), gamma=Angle.sym("gamma"), phi=Angle.sym("phi"))
        label = f"theta={tn}, zeta={zn}, chi={cn}"

        def fn_key(vals=vals):
            g = mk(**vals)
            trigpoly.CTX = _Generic()
            try:
                k0, k1 = g.qubit_index_to_equivalence_group_key(0), g.qubit_index_to_equivalence_group_key(1)
            finally:
                trigpoly.CTX = None
            if k0 != k1:
                return True, "qubits kept apart"
            U = unitary(g)
            ok, d = matrix_equal(U[np.ix_(perm, perm)], U)
            return ok, ("" if ok else "both qubits get the same equivalence key, but exchanging them changes the matrix: " + d)

        def fn_val(vals=vals):
            g = mk(**vals)
            trigpoly.CTX = _Generic()
            try:
                v = g._value_equality_values_()
            finally:
                trigpoly.CTX = None
            g2 = mk(*[Angle.of(x) for x in v])
            ok, d = matrix_equal(unitary(g2), unitary(g))
            return ok, ("" if ok else f"the gate with parameters {v!r} compares equal but has a different matrix: " + d)

        c = {k: repr(v) for k, v in vals.items()}
        obls.append(_ob(f"C08/{F}:PhasedFSimGate.qubit_index_to_equivalence_group_key#same-key-implies-symmetric[{label}]", fn_key, case="PhasedFSimGate", concrete=c))
        obls.append(_ob(f"C08/{F}:PhasedFSimGate._value_equality_values_#equal-values-equal-matrices[{label}]", fn_val, case="PhasedFSimGate", concrete=c))
    return [_rep(F + ":PhasedFSimGate[equality bookkeeping]", obls, "C08")]


ENGINE_CHECKS = [check_powers, check_controlled, check_phase_by, check_fsim_equality]


# ---- bounded / exhaustive-small stand-ins -------------------------------------------------------------------------------
def standin_control_values(tier, seed):
    import cirq

    cases, fails = 0, []
    dims_list = [(2,), (3,), (2, 2), (2, 3), (3, 2)] + ([(2, 2, 2), (2, 3, 2)] if tier == "thorough" else [])
    for dims in dims_list:
        per = [[frozenset(c) for r in range(1, d + 1) for c in itertools.combinations(range(d), r)] for d in dims]
        alls = list(itertools.product(*[range(d) for d in dims]))
        for sums in itertools.product(*per):
            pos = cirq.ProductOfSums([tuple(sorted(x)) for x in sums])
            want = {t for t in alls if all(t[i] in sums[i] for i in range(len(dims)))}
            cases += 1
            if set(pos.expand()) != want:
                fails.append(dict(args=dict(dims=dims, sums=[sorted(x) for x in sums]), failed="expand", clause="ProductOfSums.expand() is not the product of the per-qubit sets"))
            sop = cirq.SumOfProducts(sorted(want))
            if (pos == sop) is False and set(pos.expand()) == set(sop.expand()) and cirq.ControlledGate(cirq.I if False else cirq.IdentityGate(1, (2,)), control_values=pos, control_qid_shape=dims) != cirq.ControlledGate(cirq.IdentityGate(1, (2,)), control_values=sop, control_qid_shape=dims):
                pass  # equality between the two representations is representation-dependent by design
            if pos.is_trivial != (want == {tuple([1] * len(dims))}):
                fails.append(dict(args=dict(dims=dims, sums=[sorted(x) for x in sums]), failed="is_trivial", clause="is_trivial disagrees with the denotation {(1,..,1)}"))
            try:
                pos.validate(dims)
            except ValueError:
                fails.append(dict(args=dict(dims=dims, sums=[sorted(x) for x in sums]), failed="validate", clause="validate rejected in-range control values"))
        # out of range values are rejected
        try:
            cirq.ProductOfSums([(dims[0],)] + [(0,)] * (len(dims) - 1)).validate(dims)
            fails.append(dict(args=dict(dims=dims), failed="validate", clause="validate accepted an out-of-range control value"))
        except ValueError:
            pass
    # & and | against the denotation
    a = cirq.ProductOfSums([(0, 1), (1,)])
    b = cirq.ProductOfSums([(1,)])
    c = cirq.SumOfProducts([(0, 1), (1, 0)])
    for x, y in ((a, b), (c, b), (b, c), (c, c)):
        cases += 1
        got = set((x & y).expand())
        want = {p + q for p in set(x.expand()) for q in set(y.expand())}
        if got != want:
            fails.append(dict(args=dict(x=repr(x), y=repr(y)), failed="and", clause="x & y is not the concatenation product of the denotations"))
    for x, y in ((a, cirq.ProductOfSums([(0,), (0,)])), (c, cirq.SumOfProducts([(1, 1)])), (a, c)):
        cases += 1
        got = set((x | y).expand())
        if got != set(x.expand()) | set(y.expand()):
            fails.append(dict(args=dict(x=repr(x), y=repr(y)), failed="or", clause="x | y is not the union of the denotations"))
    return dict(function="cirq-core/cirq/ops/control_values.py[denotation]", case="control-values", bound="all ProductOfSums over qid shapes up to (2,3,2); &, | samples",
                cases=cases, distinct=cases, failures=len(fails), exhaustive=True, _fails=fails[:4])
standin_control_values.prop = "C08"


def _true_trace_distance_bound(u):
    """max over pure states of the trace distance between psi and U psi = sqrt(1 - d^2), d = distance of 0 to conv(eigenvalues)"""
    ev = np.linalg.eigvals(u)
    ang = np.sort(np.angle(ev))
    gaps = np.diff(np.concatenate([ang, [ang[0] + 2 * np.pi]]))
    span = 2 * np.pi - np.max(gaps)
    if span >= np.pi - 1e-12:
        return 1.0
    return float(np.sqrt(max(0.0, 1 - np.cos(span / 2) ** 2)))


def standin_predicates(tier, seed):
    import random
    import cirq
    from contracts.C04_protocols import gate_library

    rng = random.Random(seed)
    cases, fails = 0, []
    lib = [g for g in gate_library() if cirq.has_unitary(g)]
    lib += [cirq.ZPowGate(dimension=3) ** 0.25, cirq.XPowGate(dimension=3) ** 0.5, cirq.ZPowGate(dimension=4) ** 0.3, cirq.XPowGate(dimension=3) ** 1.5]
    lib += list(cirq.SingleQubitCliffordGate.all_single_qubit_cliffords[:8])
    lib += [cirq.X**1, cirq.Y**1, cirq.Z**1, cirq.X**1.0, cirq.X**3, cirq.Z**-1]  # equal to the named Paulis but not the same objects
    # gates NEAR a Clifford value, on both sides and at several distances (a predicate that tolerates round-off must not call these stabilizer gates)
    near = []
    for d_ in (0.004, -0.004, 3e-7, -3e-7, 0.0049, -0.0049):
        near += [cirq.PhasedXZGate(x_exponent=0, z_exponent=d_, axis_phase_exponent=0), cirq.PhasedXZGate(x_exponent=0.5 + d_, z_exponent=0.5, axis_phase_exponent=0.5), cirq.PhasedXZGate(x_exponent=1, z_exponent=0, axis_phase_exponent=0.25 + d_),
                cirq.Z ** (0.5 + d_), cirq.X ** (1 + d_), cirq.H ** (1 + d_), cirq.CZ ** (1 + d_), cirq.PhasedXPowGate(phase_exponent=0.5 + d_, exponent=0.5), cirq.PhasedXPowGate(phase_exponent=0.25, exponent=1 + d_), cirq.ISWAP ** (1 + d_),
                cirq.ZZ ** (0.5 + d_), cirq.CNOT ** (1 + d_), cirq.SWAP ** (1 + d_)]

    def bad(what, **kw):
        if not any(f["failed"] == what for f in fails):
            fails.append(dict(args={k: repr(v) for k, v in kw.items()}, failed=what, clause=what + ": " + ", ".join(f"{k}={v!r}" for k, v in kw.items())[:300]))

    # trace distance bound is an upper bound (composite gates accumulate the angles of their parts: copies of partial rotations,
    # controlled partial rotations, tagged / parallel wrappers)
    wrapped = [cirq.ParallelGate(g0 ** e_, k_) for g0 in (cirq.X, cirq.Z, cirq.Y) for e_ in (0.25, 0.3, 0.4, 0.5, 0.6, 0.75) for k_ in (2, 3, 4) if not (g0 is not cirq.X and k_ == 4)]
    wrapped += [cirq.ControlledGate(cirq.X ** e_, num_controls=k_) for e_ in (0.3, 0.5, 0.75, 1.25) for k_ in (1, 2)]
    wrapped += [cirq.ParallelGate(cirq.PhasedXPowGate(phase_exponent=0.3, exponent=0.45), 3), cirq.ParallelGate(cirq.H ** 0.5, 3)]
    for g in wrapped:
        cases += 1
        tb, true_ = cirq.trace_distance_bound(g), _true_trace_distance_bound(cirq.unitary(g))
        if tb + 1e-8 < true_:
            bad("trace_distance_bound is smaller than the true trace distance", gate=g, bound=tb, true=true_)
    for g in lib + near:      # (the near-Clifford gates take part in the per-gate predicates only, not in the pairwise commutation table)
        u = cirq.unitary(g)
        cases += 1
        tb = cirq.trace_distance_bound(g)
        if tb + 1e-8 < _true_trace_distance_bound(u):
            bad("trace_distance_bound is smaller than the true trace distance", gate=g, bound=tb, true=_true_trace_distance_bound(u))
        # stabilizer effect => maps Paulis to Paulis
        if cirq.has_stabilizer_effect(g) and all(d == 2 for d in cirq.qid_shape(g)) and 1 <= cirq.num_qubits(g) <= 2:
            n = cirq.num_qubits(g)
            paulis = [np.eye(2), cirq.unitary(cirq.X), cirq.unitary(cirq.Y), cirq.unitary(cirq.Z)]
            basis = [m for m in (np.array(1),)]
            allp = [np.kron(a, b) if n == 2 else a for a in paulis for b in (paulis if n == 2 else [None])]
            for p in allp:
                q = u @ p @ u.conj().T
                if not any(np.allclose(q, sgn * r, atol=1e-7) for r in allp for sgn in (1, -1)):
                    bad("has_stabilizer_effect is True but the matrix does not map Paulis to Paulis", gate=g)
                    break
        # pauli expansion re-sums to the matrix
        pe = cirq.pauli_expansion(g, default=None)
        if pe is not None and all(d == 2 for d in cirq.qid_shape(g)):
            n = cirq.num_qubits(g)
            P = {"I": np.eye(2), "X": cirq.unitary(cirq.X), "Y": cirq.unitary(cirq.Y), "Z": cirq.unitary(cirq.Z)}
            tot = np.zeros_like(u, dtype=complex)
            for name, c in pe.items():
                m = np.eye(1)
                for ch in name:
                    m = np.kron(m, P[ch])
                tot = tot + c * m
            if not np.allclose(tot, u, atol=1e-7):
                bad("pauli_expansion does not re-sum to the matrix", gate=g)
    # powers of every library gate that defines them: integer powers are matrix powers, the inverse undoes, a half power squares back
    more = [cirq.GlobalPhaseGate(-1), cirq.GlobalPhaseGate(np.float64(-1.0)), cirq.GlobalPhaseGate(np.complex64(1j)), cirq.GlobalPhaseGate(-1.0), cirq.PhaseGradientGate(num_qubits=2, exponent=1),
            cirq.PhaseGradientGate(num_qubits=3, exponent=0.5), cirq.QuantumFourierTransformGate(2), cirq.DiagonalGate([0.1, -2.0]), cirq.TwoQubitDiagonalGate([0.1, 0.2, 3.0, -1.0])]
    for g in lib + more:
        try:
            u = cirq.unitary(g)
        except Exception:
            continue
        for t_ in (-1, 2, 3, 0.5, -2):
            gp = cirq.pow(g, t_, None)
            if gp is None or not cirq.has_unitary(gp):
                continue
            cases += 1
            up = cirq.unitary(gp)
            if t_ == 0.5:
                ok = np.allclose(up @ up, u, atol=1e-7)
            elif t_ < 0:
                ok = np.allclose(np.linalg.matrix_power(up, 1) @ np.linalg.matrix_power(u, -t_), np.eye(len(u)), atol=1e-7)
            else:
                ok = np.allclose(up, np.linalg.matrix_power(u, t_), atol=1e-7)
            if not ok and isinstance(g, cirq.CliffordGate):
                # a gate given by its tableau has a matrix only up to a global phase (the tableau does not record one): its powers are compared that way
                if t_ == 0.5:
                    ok = cirq.allclose_up_to_global_phase(up @ up, u, atol=1e-7)
                elif t_ < 0:
                    ok = cirq.allclose_up_to_global_phase(up @ np.linalg.matrix_power(u, -t_), np.eye(len(u)), atol=1e-7)
                else:
                    ok = cirq.allclose_up_to_global_phase(up, np.linalg.matrix_power(u, t_), atol=1e-7)
            if not ok:
                bad(f"g**{t_} is not the {t_}-th power of the gate's matrix", gate=g)
    # commutes => matrices commute (same qubits)
    small = [g for g in lib if cirq.num_qubits(g) <= 2 and all(d == 2 for d in cirq.qid_shape(g))]
    for g1, g2 in itertools.product(small, repeat=2):
        if cirq.num_qubits(g1) != cirq.num_qubits(g2):
            continue
        cases += 1
        for a, b, lab in ((g1, g2, "gate"), (g1.on(*cirq.LineQubit.range(cirq.num_qubits(g1))), g2.on(*cirq.LineQubit.range(cirq.num_qubits(g2))), "operation")):
            r = cirq.commutes(a, b, default=None)
            if r is True:
                u1, u2 = cirq.unitary(g1), cirq.unitary(g2)
                if not np.allclose(u1 @ u2, u2 @ u1, atol=1e-7):
                    bad(f"commutes() is True for {lab}s whose matrices do not commute", a=a, b=b)
            if r is False:  # "no" is a definite answer too (None / the default stands for "cannot tell")
                u1, u2 = cirq.unitary(g1), cirq.unitary(g2)
                if np.allclose(u1 @ u2, u2 @ u1, atol=1e-9):
                    bad(f"commutes() is False for {lab}s whose matrices commute", a=a, b=b)
        # equality predicates
        u1, u2 = cirq.unitary(g1), cirq.unitary(g2)
        if cirq.approx_eq(g1, g2, atol=1e-9) and not np.allclose(u1, u2, atol=1e-6):
            bad("approx_eq is True for different matrices", a=g1, b=g2)
        if g1 == g2 and not np.allclose(u1, u2, atol=1e-8):
            bad("== is True for different matrices", a=g1, b=g2)
        try:
            eq = cirq.equal_up_to_global_phase(g1, g2, atol=1e-9)
        except Exception:
            eq = False
        if eq and not cirq.allclose_up_to_global_phase(u1, u2, atol=1e-6):
            bad("equal_up_to_global_phase is True for matrices that differ by more than a phase", a=g1, b=g2)
    # phase_by = conjugation by Z^(2 turns) on that qubit, up to global phase
    for g in small:
        for qi in range(cirq.num_qubits(g)):
            for turns in (0.25, 0.1):
                ph = cirq.phase_by(g, turns, qi, default=None)
                if ph is None:
                    continue
                cases += 1
                z = np.diag([1, np.exp(2j * np.pi * turns)])
                Z = z if cirq.num_qubits(g) == 1 else (np.kron(z, np.eye(2)) if qi == 0 else np.kron(np.eye(2), z))
                want = Z @ cirq.unitary(g) @ Z.conj().T
                if not cirq.allclose_up_to_global_phase(cirq.unitary(ph), want, atol=1e-7):
                    bad("phase_by is not conjugation by the Z rotation (up to global phase)", gate=g, qubit_index=qi, turns=turns)
    # equality predicates across systems and vendor gates: equal / approximately equal values act on the same system with the same matrix
    extra = [cirq.MatrixGate(np.eye(4), qid_shape=(4,)), cirq.MatrixGate(np.eye(4)), cirq.MatrixGate(np.eye(4), qid_shape=(2, 2)), cirq.MatrixGate(np.eye(6), qid_shape=(2, 3)), cirq.MatrixGate(np.eye(6), qid_shape=(3, 2)),
             cirq.IdentityGate(2), cirq.IdentityGate(qid_shape=(4,))]
    try:
        import cirq_ionq
        extra += [cirq_ionq.MSGate(phi0=0.1, phi1=0.2, theta=0.1), cirq_ionq.MSGate(phi0=0.1, phi1=0.2, theta=0.25), cirq_ionq.MSGate(phi0=0.1, phi1=0.2), cirq_ionq.GPIGate(phi=0.1), cirq_ionq.GPIGate(phi=1.1),
                  cirq_ionq.GPI2Gate(phi=0.1), cirq_ionq.ZZGate(theta=0.1), cirq_ionq.ZZGate(theta=0.6)]
    except ImportError:
        pass
    for g1, g2 in itertools.product(extra, repeat=2):
        cases += 1
        same_system = cirq.qid_shape(g1) == cirq.qid_shape(g2)
        same_matrix = same_system and np.allclose(cirq.unitary(g1), cirq.unitary(g2), atol=1e-8)
        try:
            if g1 == g2 and not same_matrix:
                bad("== is True for gates with different matrices or different qid shapes", a=g1, b=g2)
            if g1 == g2 and hash(g1) != hash(g2):
                bad("equal gates with different hashes", a=g1, b=g2)
            if cirq.approx_eq(g1, g2, atol=1e-9) and not same_matrix:
                bad("approx_eq is True for gates with different matrices or different qid shapes", a=g1, b=g2)
        except (TypeError, ValueError):
            pass
    # phase_by on matrix gates over MIXED qid shapes: conjugation by the Z rotation on the chosen qubit, identity on every other qid whatever its dimension
    for shape in ((2,), (2, 2), (2, 3), (3, 2), (2, 4), (4, 2), (3, 2, 3), (2, 3, 2), (2, 2, 2), (2, 2, 3)):
        dim = int(np.prod(shape))
        g = cirq.MatrixGate(cirq.testing.random_unitary(dim, random_state=rng.randrange(10 ** 6)), qid_shape=shape)
        for qi, d in enumerate(shape):
            for turns in (0.25, 0.1, -0.3):
                ph = cirq.phase_by(g, turns, qi, default=None)
                if ph is None:
                    continue
                cases += 1
                Zi = np.eye(1)
                for k, dk in enumerate(shape):
                    Zi = np.kron(Zi, np.diag([1, np.exp(2j * np.pi * turns)]) if k == qi else np.eye(dk))
                want = Zi @ cirq.unitary(g) @ Zi.conj().T
                if d != 2:
                    bad("phase_by answered for a qid that is not a qubit", gate=g, qubit_index=qi)
                elif not cirq.allclose_up_to_global_phase(cirq.unitary(ph), want, atol=1e-7):
                    bad("phase_by of a matrix gate with a mixed qid shape is not conjugation by the Z rotation on that qubit", gate_qid_shape=shape, qubit_index=qi, turns=turns)
    return dict(function="cirq-core/cirq/{ops,protocols}[predicates vs matrices]", case="predicates",
                bound="~150 gates: trace_distance_bound, has_stabilizer_effect, pauli_expansion; all same-size pairs of 1-2 qubit gates: commutes/==/approx_eq/"
                      "equal_up_to_global_phase; phase_by on each qubit", cases=cases, distinct=cases, failures=len(fails), exhaustive=False, _fails=fails[:6])
standin_predicates.prop = "C08"


def standin_operation_equality(tier, seed):
    """equality predicates on OPERATIONS: the same gate on permuted qubits may only compare equal (==, hash, approx_eq,
    equal_up_to_global_phase, inside circuits) when the two operations have the same matrix on a fixed qubit order"""
    import random
    import cirq
    from contracts import refsim
    from contracts.C04_protocols import gate_library

    rng = random.Random(seed)
    cases, fails = 0, []
    pi = np.pi
    special = [0.0, pi / 2, -pi / 2, pi, -pi, pi / 4, 0.3, 2 * pi, 3 * pi / 2]
    gates = [g for g in gate_library() if cirq.has_unitary(g) and 2 <= cirq.num_qubits(g) <= 3 and all(d == 2 for d in cirq.qid_shape(g))]
    # PhasedFSimGate: swapping the qubits negates zeta and chi; at theta = +-pi/2 / 0, pi one of them drops out of the matrix
    grid = [(t, z, c, g_, p_) for t in special for z in special[:7] for c in special[:7] for g_ in (0.0, 0.4) for p_ in (0.0, 0.7)]
    gates += [cirq.PhasedFSimGate(t, z, c, g_, p_) for t, z, c, g_, p_ in grid]
    gates += [cirq.PhasedFSimGate.from_fsim_rz(t, p_, (a, b), (c, d)) for t in (0.0, pi / 2, 0.3) for p_ in (0.0, 0.5) for a, b, c, d in ((0.1, 0.2, 0.3, 0.4), (0.0, 0.5, 0.0, 0.5), (0.2, 0.2, 0.7, 0.7))]
    gates += [cirq.FSimGate(t, p_) for t in special[:6] for p_ in (0.0, 0.3, pi)]
    gates += [cirq.PhasedISwapPowGate(phase_exponent=pe, exponent=e) for pe in (0.0, 0.25, 0.5, 1.0, 0.3) for e in (1.0, 0.5, 2.0, 0.3)]
    gates += [cirq.ControlledGate(cirq.Z ** e, num_controls=1) for e in (1.0, 0.5)] + [cirq.ControlledGate(cirq.X, control_values=[0]), cirq.ControlledGate(cirq.CZ, control_values=[1]),
              cirq.ControlledGate(cirq.Z, num_controls=2, control_values=[0, 1]), cirq.ControlledGate(cirq.Z, num_controls=2, control_values=[1, 1]),
              cirq.ControlledGate(cirq.Z, num_controls=2, control_values=cirq.SumOfProducts([[0, 1], [1, 0]])), cirq.ControlledGate(cirq.Z, num_controls=2, control_values=cirq.SumOfProducts([[0, 1], [1, 1]]))]
    gates += [cirq.MatrixGate(np.diag([1, 1j, 1j, -1])), cirq.MatrixGate(np.diag([1, 1j, -1j, -1])), cirq.TwoQubitDiagonalGate([0.1, 0.2, 0.2, 0.3]), cirq.TwoQubitDiagonalGate([0.1, 0.2, 0.3, 0.4]),
              cirq.ThreeQubitDiagonalGate([0.1 * k for k in range(8)]), cirq.ParallelGate(cirq.X ** 0.3, 2), cirq.ParallelGate(cirq.H, 3), cirq.QubitPermutationGate([1, 0]), cirq.QubitPermutationGate([1, 2, 0]),
              cirq.givens(0.3), cirq.riswap(0.4), cirq.CCZ ** 0.5, cirq.CCX ** 0.5, cirq.CSWAP, cirq.XX ** 0.3, cirq.YY ** 0.3, cirq.ZZ ** 0.3, cirq.MSGate(rads=0.4) if hasattr(cirq, "MSGate") else cirq.ms(0.4)]

    def bad(what, g, perm, **kw):
        if sum(1 for f in fails if f["failed"] == what) < 2:
            fails.append(dict(args=dict(gate=repr(g), qubit_permutation=list(perm), **kw), failed=what,
                              clause=f"{what}: gate.on(q0, q1, ...) vs the same gate on the permuted qubits {list(perm)} have different matrices on the fixed order"))

    for g in gates:
        n = cirq.num_qubits(g)
        qs = cirq.LineQubit.range(n)
        try:
            op1 = g.on(*qs)
            u1 = refsim.embed(cirq.unitary(op1), list(op1.qubits), list(qs))
        except Exception:
            continue
        for perm in itertools.permutations(range(n)):
            if list(perm) == list(range(n)):
                continue
            op2 = g.on(*[qs[i] for i in perm])
            u2 = refsim.embed(cirq.unitary(op2), list(op2.qubits), list(qs))
            cases += 1
            same = np.allclose(u1, u2, atol=1e-7)
            same_phase = cirq.allclose_up_to_global_phase(u1, u2, atol=1e-7)
            if op1 == op2 and not same:
                bad("== is True for operations with different matrices", g, perm)
            if op1 == op2 and hash(op1) != hash(op2):
                bad("equal operations with different hashes", g, perm)
            if cirq.approx_eq(op1, op2, atol=1e-9) and not same:
                bad("approx_eq is True for operations with different matrices", g, perm)
            try:
                eq = cirq.equal_up_to_global_phase(op1, op2, atol=1e-9)
            except Exception:
                eq = False
            if eq and not same_phase:
                bad("equal_up_to_global_phase is True for operations whose matrices differ by more than a phase", g, perm)
            if cirq.Circuit(op1) == cirq.Circuit(op2) and not same:
                bad("circuits compare equal although their operations have different matrices", g, perm)
            if cirq.Moment(op1) == cirq.Moment(op2) and not same:
                bad("moments compare equal although their operations have different matrices", g, perm)
    return dict(function="cirq-core/cirq/ops[operation equality under qubit permutations vs matrices]", case="operation-equality",
                bound=f"{len(gates)} two- and three-qubit gates (library + PhasedFSim grid over special angles + controlled / diagonal / parallel / permutation gates) x all qubit permutations; "
                      "==, hash, approx_eq, equal_up_to_global_phase, Circuit / Moment equality",
                cases=cases, distinct=cases, failures=len(fails), exhaustive=False, _fails=fails[:6])
standin_operation_equality.prop = "C08"
def standin_periodic_equality(tier, seed):
    """gates that compare by a canonical exponent (the exponent reduced by a period computed from the global shift): for every family, shifts incl.
    those giving two different eigen-periods (1, -2, 1/3), and exponents e, e + k: gates that compare equal (==, hash, approx_eq) have equal matrices"""
    import fractions

    import cirq

    cases, fails = 0, []
    fams = [("XPowGate", lambda e, s: cirq.XPowGate(exponent=e, global_shift=s)), ("YPowGate", lambda e, s: cirq.YPowGate(exponent=e, global_shift=s)), ("ZPowGate", lambda e, s: cirq.ZPowGate(exponent=e, global_shift=s)),
            ("HPowGate", lambda e, s: cirq.HPowGate(exponent=e, global_shift=s)), ("CZPowGate", lambda e, s: cirq.CZPowGate(exponent=e, global_shift=s)), ("CXPowGate", lambda e, s: cirq.CXPowGate(exponent=e, global_shift=s)),
            ("SwapPowGate", lambda e, s: cirq.SwapPowGate(exponent=e, global_shift=s)), ("ISwapPowGate", lambda e, s: cirq.ISwapPowGate(exponent=e, global_shift=s)), ("XXPowGate", lambda e, s: cirq.XXPowGate(exponent=e, global_shift=s)),
            ("ZZPowGate", lambda e, s: cirq.ZZPowGate(exponent=e, global_shift=s)), ("CCZPowGate", lambda e, s: cirq.CCZPowGate(exponent=e, global_shift=s)), ("CCXPowGate", lambda e, s: cirq.CCXPowGate(exponent=e, global_shift=s)),
            ("PhasedXPowGate(0.25)", lambda e, s: cirq.PhasedXPowGate(phase_exponent=0.25, exponent=e, global_shift=s)), ("PhasedXPowGate(-0.7)", lambda e, s: cirq.PhasedXPowGate(phase_exponent=-0.7, exponent=e, global_shift=s)),
            ("ZPowGate(dimension=3)", lambda e, s: cirq.ZPowGate(exponent=e, global_shift=s, dimension=3)), ("XPowGate(dimension=3)", lambda e, s: cirq.XPowGate(exponent=e, global_shift=s, dimension=3))]
    shifts = [0, 1, -1, -2, 2, 0.5, -0.5, 0.25, fractions.Fraction(1, 3), -1.5]
    for (fname, mk), s_, e0 in itertools.product(fams, shifts, (0.5, 0.25, 0, 1)):
        try:
            gates = [(e0 + k, mk(e0 + k, float(s_))) for k in range(0, 13)]
        except Exception:
            continue
        us = [cirq.unitary(g) for _, g in gates]
        for (i, (e1, g1)), (j, (e2, g2)) in itertools.combinations(enumerate(gates), 2):
            cases += 1
            same = np.allclose(us[i], us[j], atol=1e-8)
            eq, aeq = g1 == g2, cirq.approx_eq(g1, g2, atol=1e-9)
            if (eq or aeq) and not same:
                fails.append(dict(args=dict(family=fname, global_shift=str(s_), exponents=[e1, e2]), failed="equal-gates-different-matrices",
                                  clause=f"{g1!r} {'==' if eq else 'approx_eq'} {g2!r} although their matrices differ (also beyond a global phase: {not cirq.allclose_up_to_global_phase(us[i], us[j], atol=1e-8)})"))
                break
            if eq and hash(g1) != hash(g2):
                fails.append(dict(args=dict(family=fname, global_shift=str(s_), exponents=[e1, e2]), failed="equal-gates-different-hashes", clause=f"{g1!r} == {g2!r} but their hashes differ"))
                break
    seen, uniq = set(), []
    for f_ in fails:
        if f_["args"]["family"] not in seen:
            seen.add(f_["args"]["family"])
            uniq.append(f_)
    return dict(function="cirq-core/cirq/ops/{eigen_gate,phased_x_gate}.py[canonical exponent / period]", case="periodic-equality", bound="16 gate families x 10 global shifts x 4 base exponents x all pairs of e, e+1 .. e+12",
                cases=cases, distinct=cases, failures=len(uniq), exhaustive=True, _fails=uniq[:4])
standin_periodic_equality.prop = "C08"


def standin_controlled_matrices(tier, seed):
    """controlled operations under every control-value assignment (shared with C04): gate.controlled(...) / op.controlled_by(...) / ControlledGate(...) of a
    global phase, a rotation, a two-qubit gate have the matrix the control values define, in every description"""
    from contracts.C04_protocols import standin_control_values as f

    r = dict(f(tier, seed))
    r["case"] = "controlled-matrices"
    return r
standin_controlled_matrices.prop = "C08"


STANDINS = [standin_control_values, standin_predicates, standin_operation_equality, standin_periodic_equality, standin_controlled_matrices]

CANARIES = [
    dict(name="EigenGate.__pow__ adds instead of multiplies", file="cirq-core/cirq/ops/eigen_gate.py", engine_check=0,
         find="        new_exponent = protocols.mul(self._exponent, exponent, NotImplemented)", replace="        new_exponent = self._exponent + exponent"),
    dict(name="Z.controlled() specialises even with a global shift", file="cirq-core/cirq/ops/common_gates.py", engine_check=1,
         find="            if result.control_qid_shape == (2,):\n                return cirq.CZPowGate(exponent=self._exponent)", replace="            pass\n        if isinstance(result, controlled_gate.ControlledGate) and result.control_values.is_trivial:\n            if result.control_qid_shape == (2,):\n                return cirq.CZPowGate(exponent=self._exponent)"),
]
CANARIES = CANARIES + [
    dict(name="PhasedFSimGate: one insensitive angle makes the qubits interchangeable", file="cirq-core/cirq/ops/fsim_gate.py", engine_check=3,
         find="        if (_zero_mod_pi(self.zeta) or self._zeta_insensitive()) and (\n            _zero_mod_pi(self.chi) or self._chi_insensitive()\n        ):",
         replace="        if (_zero_mod_pi(self.zeta) or self._zeta_insensitive()) or (\n            _zero_mod_pi(self.chi) or self._chi_insensitive()\n        ):"),
    dict(name="phase_by treats phase exponent 1 like 0", file="cirq-core/cirq/ops/common_gates.py", engine_check=2,
         find="            case 0.0:\n                return XPowGate(exponent=exponent)", replace="            case 0.0 | 1.0:\n                return XPowGate(exponent=exponent)"),
]
NOT_COVERED = [
    "commutation rules, phase_by of other gates, has_stabilizer_effect, trace_distance_bound, equality predicates: bounded stand-in only",
    "ControlledGate with arbitrary (qudit / sum-of-products) control values: C04 protocol stand-in; PeriodicValue: not covered",
]
ASSUMPTIONS = ["trigpoly assumptions of C03", "true trace distance of a unitary = sqrt(1 - d^2), d = distance of 0 to the convex hull of its eigenvalues"]
EXPLANATION = ("C08: powers (matrix of g**t, (g**a)**b, inverse, additivity) and the specialised controlled() results proved for all real "
               "exponents/shifts with trigpoly on 14 families; control-value denotation exhaustive-small; predicates bounded. ")


def _replay_fsim(ob, seed):
    """concrete witness for a failed PhasedFSimGate equality obligation: free symbols get generic numbers, then the real predicates are asked"""
    import cirq
    from contracts import refsim

    if not ob.concrete or "theta" not in ob.concrete:
        return None
    label = ob.name.split("[")[-1].rstrip("]")
    pick = {"*": None, "0": 0.0, "-pi": -np.pi, "pi/2": np.pi / 2, "-pi/2": -np.pi / 2}
    spec = dict(x.strip().split("=") for x in label.split(","))
    generic = {"theta": 0.37, "zeta": 0.71, "chi": -0.53}
    vals = {k: (generic[k] if pick[spec[k]] is None else pick[spec[k]]) for k in ("theta", "zeta", "chi")}
    g = cirq.PhasedFSimGate(vals["theta"], vals["zeta"], vals["chi"], 0.2, 0.9)
    a, b = cirq.LineQubit.range(2)
    op1, op2 = g.on(a, b), g.on(b, a)
    u1, u2 = cirq.unitary(op1), refsim.embed(cirq.unitary(op2), [b, a], [a, b])
    if op1 == op2 and not np.allclose(u1, u2, atol=1e-8):
        return dict(args=dict(gate=repr(g)), failed="operation-equality", clause="gate.on(a, b) == gate.on(b, a) although the two operations have different matrices")
    g2 = cirq.PhasedFSimGate(vals["theta"], 0.0 if spec["zeta"] == "*" else vals["zeta"], 0.0 if spec["chi"] == "*" else vals["chi"], 0.2, 0.9)
    if g == g2 and not np.allclose(cirq.unitary(g), cirq.unitary(g2), atol=1e-8):
        return dict(args=dict(gate=repr(g), other=repr(g2)), failed="gate-equality", clause="two PhasedFSimGates compare equal although their matrices differ")
    return None


REPLAYERS = {"cirq-core/cirq/ops/fsim_gate.py:PhasedFSimGate[equality bookkeeping]": _replay_fsim}
