"""C01 — bounded stand-ins: every simulation entry point against the ordered product of operation matrices (NOT counted as proved),
plus the ownership obligation behind sweep prefix reuse (deductive, shared with C10).

Reference: `refsim.ref_unitary` — explicit big-endian embedding of `cirq.unitary(op)` of each single operation, multiplied in circuit
order; the initial state is built here from its description.  Entry points: Circuit.unitary, Circuit.final_state_vector,
cirq.final_state_vector, cirq.final_density_matrix, Simulator / DensityMatrixSimulator .simulate, .simulate_moment_steps (every
intermediate step), .simulate_sweep (prefix reuse), with dtype, split_untangled_states, initial-state form (int, vector, tensor,
product state, density matrix) and qubit order (permutations, extra idle qubits, default order) drawn per case."""
import random

import numpy as np

from pyvc import ownflow
from contracts import refsim

FS = "cirq-core/cirq/sim/simulation_state.py"

# the same ownership specification as C10 (SimulationState.copy() is shallow: the qubit->axis map is shared between the copies that
# sweep points and moment steps start from, so no method may mutate it in place) — C01 names sweep prefix reuse and splitting explicitly
OWN = ownflow.OwnSpec("C01", FS, "SimulationState", "copy", fields={"_qubit_map": 1}, shallow_self_copy=True,
                      extra_classes=[("cirq-core/cirq/sim/simulation_product_state.py", "SimulationProductState"),
                                     ("cirq-core/cirq/sim/state_vector_simulation_state.py", "StateVectorSimulationState"),
                                     ("cirq-core/cirq/sim/density_matrix_simulation_state.py", "DensityMatrixSimulationState")])


def own_check():
    return [ownflow.check(OWN)]


ENGINE_CHECKS = [own_check]


def _rand_unitary(rng, d):
    m = np.array([[complex(rng.gauss(0, 1), rng.gauss(0, 1)) for _ in range(d)] for _ in range(d)])
    q, r = np.linalg.qr(m)
    return q * (np.diag(r) / np.abs(np.diag(r)))


def _qubits(rng, n, qudit):
    import cirq

    pool = [cirq.LineQubit(i) for i in (0, 1, 2, 5, 9, -3)] + [cirq.GridQubit(0, 1), cirq.GridQubit(1, 0), cirq.NamedQubit("a"), cirq.NamedQubit("b10"), cirq.NamedQubit("b9")]
    if qudit:
        pool = [cirq.LineQid(i, dimension=rng.choice([2, 3])) for i in (0, 1, 4, 7)] + [cirq.NamedQid("t", dimension=3), cirq.GridQid(0, 0, dimension=2)]
    return rng.sample(pool, n)


def _gen_ops(rng, qs, qudit, symbols=None):
    """2-9 unitary operations; with `symbols`, some exponents are sympy symbols (for sweeps)"""
    import cirq

    def e():
        if symbols and rng.random() < 0.45:
            return rng.choice(symbols)
        return rng.choice([0.5, 0.25, 1.0, 0.37, -0.61, 1.5, 2.0, 1 / 3])

    n = len(qs)
    ops = []
    for _ in range(rng.randrange(2, 10)):
        if qudit:
            k = rng.choice([1, 1, 2]) if n >= 2 else 1
            t = rng.sample(qs, k)
            shape = tuple(q.dimension for q in t)
            r = rng.random()
            if k == 1 and shape[0] == 3 and r < 0.3:
                ops.append(cirq.XPowGate(dimension=3, exponent=rng.choice([1, 2, 0.5])).on(*t))
            elif k == 1 and shape[0] == 3 and r < 0.5:
                ops.append(cirq.ZPowGate(dimension=3, exponent=rng.choice([1, 0.5, 0.37])).on(*t))
            elif k == 1 and shape[0] == 2 and r < 0.5:
                ops.append((cirq.X ** rng.choice([0.5, 1, 0.37])).on(*t))
            elif r < 0.6:
                ops.append(cirq.IdentityGate(qid_shape=shape).on(*t))
            else:
                ops.append(cirq.MatrixGate(_rand_unitary(rng, int(np.prod(shape))), qid_shape=shape).on(*t))
            continue
        r = rng.random()
        if n >= 3 and r < 0.12:
            t = rng.sample(qs, 3)
            ops.append(rng.choice([cirq.CCZ ** e(), cirq.CCX ** e(), cirq.CSWAP]).on(*t))
        elif n >= 2 and r < 0.55:
            t = rng.sample(qs, 2)
            g = rng.choice([cirq.CZ ** e(), cirq.CNOT ** e(), cirq.SWAP, cirq.SWAP, cirq.SWAP ** e(), cirq.ISWAP ** e(), cirq.FSimGate(0.3, 0.7), cirq.XX ** e(), cirq.YY ** e(), cirq.ZZ ** e(),
                            cirq.PhasedFSimGate(0.3, 0.1, 0.2, 0.4, 0.5), cirq.PhasedISwapPowGate(phase_exponent=0.2, exponent=e()), cirq.ControlledGate(cirq.Y ** e(), control_values=[0]),
                            cirq.IdentityGate(2)] + ([] if symbols else [cirq.MatrixGate(_rand_unitary(rng, 4)), cirq.DiagonalGate([0.1, 0.5, -0.3, 1.1]) if hasattr(cirq, "DiagonalGate") else cirq.CZ]))
            ops.append(g.on(*t))
        elif r < 0.6 and not symbols:
            t = rng.sample(qs, rng.randrange(1, min(n, 3) + 1))
            ps = cirq.PauliString({q: rng.choice([cirq.X, cirq.Y, cirq.Z]) for q in t}) * rng.choice([1, -1, 1j])
            ops.append(ps if rng.random() < 0.5 else cirq.PauliStringPhasor(cirq.PauliString({q: rng.choice([cirq.X, cirq.Y, cirq.Z]) for q in t}), exponent_neg=0.3, exponent_pos=-0.2))
        elif r < 0.65 and not symbols:
            ops.append(cirq.global_phase_operation(np.exp(1j * rng.choice([0.3, 1.0, np.pi / 2]))))
        elif r < 0.72 and n >= 2 and not symbols:
            a, b = rng.sample(qs, 2)
            sub = cirq.FrozenCircuit(cirq.H(a), cirq.CNOT(a, b), cirq.T(b))
            co = cirq.CircuitOperation(sub, repetitions=rng.choice([1, 2, 3]))
            if rng.random() < 0.5:
                co = co.with_qubit_mapping({a: b, b: a})
            ops.append(co)
        elif r < 0.78 and not symbols:
            # a one-qubit sub-circuit (its matrix comes from a fast path), also run backwards and with a global phase inside
            x = rng.choice(qs)
            sub = cirq.FrozenCircuit([cirq.T(x), cirq.H(x)] + ([cirq.global_phase_operation(1j)] if rng.random() < 0.3 else []) + ([cirq.X(x) ** 0.5] if rng.random() < 0.5 else []))
            ops.append(cirq.CircuitOperation(sub, repetitions=rng.choice([-3, -2, -1, 2, 1])))
        else:
            q = rng.choice(qs)
            g = rng.choice([cirq.X ** e(), cirq.Y ** e(), cirq.Z ** e(), cirq.H ** e(), cirq.S, cirq.T, cirq.rx(0.7), cirq.ry(-1.1), cirq.rz(2.2), cirq.PhasedXPowGate(phase_exponent=0.3, exponent=e()),
                            cirq.PhasedXZGate(x_exponent=0.3, z_exponent=0.6, axis_phase_exponent=-0.2), cirq.ZPowGate(exponent=e(), global_shift=0.3), cirq.I]
                           + ([] if symbols else [cirq.MatrixGate(_rand_unitary(rng, 2))]))
            ops.append(g.on(q))
    return ops


def _initial(rng, order, dims):
    """(description, value to pass, flat reference vector in `order`)"""
    import cirq

    D = int(np.prod(dims))
    kind = rng.choice(["none", "int", "int", "vector", "tensor", "product"])
    if kind == "none":
        v = np.zeros(D, dtype=complex)
        v[0] = 1
        return "default", None, v
    if kind == "int":
        k = rng.randrange(D)
        v = np.zeros(D, dtype=complex)
        v[k] = 1
        return f"int {k}", k, v
    if kind in ("vector", "tensor"):
        v = np.array([complex(rng.gauss(0, 1), rng.gauss(0, 1)) for _ in range(D)])
        v /= np.linalg.norm(v)
        return kind, (v.astype(np.complex64) if rng.random() < 0.3 else v).reshape(dims) if kind == "tensor" else v, v
    if all(d == 2 for d in dims):
        states = [rng.choice([cirq.KET_PLUS, cirq.KET_MINUS, cirq.KET_IMAG, cirq.KET_MINUS_IMAG, cirq.KET_ZERO, cirq.KET_ONE]) for _ in order]
        ps = cirq.ProductState({q: s for q, s in zip(order, states)})
        table = {"+": [1, 1], "-": [1, -1], "i": [1, 1j], "-i": [1, -1j], "0": [1, 0], "1": [0, 1]}
        names = {cirq.KET_PLUS: "+", cirq.KET_MINUS: "-", cirq.KET_IMAG: "i", cirq.KET_MINUS_IMAG: "-i", cirq.KET_ZERO: "0", cirq.KET_ONE: "1"}
        v = np.ones(1, dtype=complex)
        for s in states:
            w = np.array(table[names[s]], dtype=complex)
            v = np.kron(v, w / np.linalg.norm(w))
        return "product state " + "".join(names[s] for s in states), ps, v
    return _initial(rng, order, dims)


def standin_entry_points(tier, seed):
    import cirq

    rng = random.Random(seed)
    cases, fails, distinct = 0, [], set()

    def bad(what, circ, order, init, clause, **kw):
        fails.append(dict(args=dict(entry_point=what, circuit=repr(circ), qubit_order=repr(order), initial_state=init, **kw), failed=what.split("(")[0].split(" ")[0], clause=clause))

    for it in range(60 if tier == "quick" else 500):
        qudit = rng.random() < 0.2
        n = rng.choice([1, 2, 3, 3, 4])
        qs = _qubits(rng, n, qudit)
        ops = _gen_ops(rng, qs, qudit)
        circ = cirq.Circuit(ops) if rng.random() < 0.7 else cirq.Circuit(cirq.Moment([o]) for o in ops)
        used = sorted(circ.all_qubits())
        extra = [q for q in qs if q not in used]
        order = rng.sample(used, len(used))
        if extra and rng.random() < 0.5:
            order.insert(rng.randrange(len(order) + 1), extra[0])  # an idle qubit in the requested order
        dims = [q.dimension for q in order]
        D = int(np.prod(dims))
        U = refsim.ref_unitary(circ, order)
        desc, init, v0 = _initial(rng, order, dims)
        want = U @ v0
        distinct.add(repr(circ))
        kw = {} if init is None else {"initial_state": init}

        # 1. unitary of the circuit
        cases += 1
        got = circ.unitary(qubit_order=order, qubits_that_should_be_present=order)
        if not np.allclose(got, U, atol=1e-7):
            bad("Circuit.unitary", circ, order, desc, "circuit.unitary(qubit_order) is not the ordered product of the operation matrices")
        cases += 1
        U_def = refsim.ref_unitary(circ, used)
        if not np.allclose(cirq.unitary(circ), U_def, atol=1e-7):
            bad("cirq.unitary(circuit)", circ, used, desc, "cirq.unitary(circuit) in the default (sorted) order is not the ordered product")
        # 2. final_state_vector (method and function), both dtypes
        for dt, tol in ((np.complex128, 1e-7), (np.complex64, 2e-5)):
            cases += 1
            got = circ.final_state_vector(qubit_order=order, dtype=dt, **kw)
            if not np.allclose(got, want, atol=tol):
                bad(f"Circuit.final_state_vector(dtype={dt.__name__})", circ, order, desc, "differs from (product of matrices) @ initial state")
        cases += 1
        got = cirq.final_state_vector(circ, qubit_order=order, **kw)
        if not np.allclose(got, want, atol=2e-5):
            bad("cirq.final_state_vector", circ, order, desc, "differs from (product of matrices) @ initial state")
        # 3. simulators, options
        for split in (True, False):
            for dt, tol in ((np.complex64, 2e-5), (np.complex128, 1e-7)):
                cases += 1
                sim = cirq.Simulator(dtype=dt, split_untangled_states=split)
                r = sim.simulate(circ, qubit_order=order, **kw)
                if not np.allclose(r.final_state_vector, want, atol=tol):
                    bad(f"Simulator(dtype={dt.__name__}, split_untangled_states={split}).simulate", circ, order, desc, "final_state_vector differs from (product of matrices) @ initial state")
                if not np.allclose(r.state_vector(), want, atol=tol):
                    bad(f"Simulator(dtype={dt.__name__}, split_untangled_states={split}).simulate.state_vector()", circ, order, desc, "state_vector() differs")
            # moment by moment
            cases += 1
            sim = cirq.Simulator(dtype=np.complex128, split_untangled_states=split)
            acc = v0
            for k, step in enumerate(sim.simulate_moment_steps(circ, qubit_order=order, **kw)):
                acc = refsim.ref_unitary(cirq.Circuit(circ[k]), order) @ acc
                if not np.allclose(step.state_vector(copy=True), acc, atol=1e-7):
                    bad(f"Simulator(split_untangled_states={split}).simulate_moment_steps", circ, order, desc, f"state after moment {k} differs from the product of the first {k + 1} moments", moment=k)
                    break
            # density matrix
            cases += 1
            rho_want = np.outer(want, want.conj())
            dkw = dict(kw)
            if desc in ("vector", "tensor") and rng.random() < 0.5:
                dkw["initial_state"] = np.outer(v0, v0.conj())  # the same state given as a density matrix
            dsim = cirq.DensityMatrixSimulator(dtype=np.complex128, split_untangled_states=split)
            try:
                r = dsim.simulate(circ, qubit_order=order, **dkw)
            except Exception as ex:
                bad(f"DensityMatrixSimulator(split_untangled_states={split}).simulate", circ, order, desc, f"raised {type(ex).__name__}: {str(ex)[:200]} on a circuit of unitary operations")
                continue
            if not np.allclose(r.final_density_matrix, rho_want, atol=1e-7):
                bad(f"DensityMatrixSimulator(split_untangled_states={split}).simulate", circ, order, desc, "final_density_matrix differs from |psi><psi| with psi = (product of matrices) @ initial state")
        cases += 1
        got = cirq.final_density_matrix(circ, qubit_order=order, dtype=np.complex128, **kw)
        if not np.allclose(got, np.outer(want, want.conj()), atol=1e-6):
            bad("cirq.final_density_matrix", circ, order, desc, "differs from |psi><psi|")
        # an integer initial state outside the register: the same refusal whatever the options (no silent wrap-around)
        if it % 5 == 0:
            for bad_int in (D, D + 3, -1):
                outcomes = {}
                for split in (True, False):
                    for sname, mk in (("Simulator", cirq.Simulator), ("DensityMatrixSimulator", cirq.DensityMatrixSimulator)):
                        cases += 1
                        try:
                            mk(split_untangled_states=split).simulate(circ, qubit_order=order, initial_state=bad_int)
                            outcomes[(sname, split)] = "accepted"
                        except ValueError:
                            outcomes[(sname, split)] = "ValueError"
                        except Exception as ex:
                            outcomes[(sname, split)] = type(ex).__name__
                if "accepted" in outcomes.values():
                    bad("simulate(initial_state=<int outside the register>)", circ, order, f"int {bad_int}", f"a basis state outside the register of dimension {D} is accepted: {outcomes}")
        if len(fails) >= 4:
            break
    return dict(function="cirq-core/cirq/{circuits/circuit.py,sim/mux.py,sim/sparse_simulator.py,sim/density_matrix_simulator.py}[entry points vs ordered matrix product]", case="entry-points",
                bound="seeded unitary circuits (1-4 qubits / qutrits, 2-9 operations from ~45 gate shapes incl. matrix gates, Pauli strings, sub-circuits, global phases; line / grid / named qubits) x "
                      "initial-state forms (int, vector, tensor, product state, density matrix) x qubit orders (permuted, idle qubit) x dtype x split_untangled_states x one-shot / moment steps",
                cases=cases, distinct=len(distinct), failures=len(fails), exhaustive=False, _fails=fails[:4])
standin_entry_points.prop = "C01"


def standin_sweeps(tier, seed):
    """simulate_sweep (unparameterized-prefix reuse; every point starts from a copy of one simulated prefix) == ordered product per point"""
    import cirq
    import sympy

    rng = random.Random(seed + 7)
    cases, fails, distinct = 0, [], set()
    syms = [sympy.Symbol("a"), sympy.Symbol("b")]
    for it in range(60 if tier == "quick" else 400):
        n = rng.choice([2, 3, 3, 4])
        qs = _qubits(rng, n, False)
        # entangling asymmetric prefix, then parameterized operations, then SWAPs / more gates on the same qubits
        prefix = [cirq.H(qs[0]), cirq.CNOT(qs[0], qs[1]), cirq.T(qs[1]), cirq.X(qs[0]) ** 0.3] if rng.random() < 0.7 else _gen_ops(rng, qs, False)[:3]
        body = _gen_ops(rng, qs, False, symbols=syms)
        if rng.random() < 0.7:
            a, b = rng.sample(qs, 2)
            body.insert(rng.randrange(1, len(body) + 1), cirq.SWAP(a, b))
        circ = cirq.Circuit(prefix, body)
        if not cirq.is_parameterized(circ):
            continue
        order = rng.sample(sorted(circ.all_qubits()), len(circ.all_qubits()))
        npts = rng.choice([2, 3, 4])
        sweep = cirq.Zip(cirq.Points("a", [rng.choice([0.25, -0.5, 1.0, 0.37]) for _ in range(npts)]), cirq.Points("b", [rng.choice([0.5, 2.0, -0.25, 0.1]) for _ in range(npts)]))
        dims = [2] * len(order)
        desc, init, v0 = _initial(rng, order, dims)
        kw = {} if init is None else {"initial_state": init}
        distinct.add(repr(circ))
        wants = [refsim.ref_unitary(cirq.resolve_parameters(circ, pr), order) @ v0 for pr in cirq.to_resolvers(sweep)]
        for split in (True, False):
            for name, sim in (("Simulator", cirq.Simulator(dtype=np.complex128, split_untangled_states=split)),
                              ("DensityMatrixSimulator", cirq.DensityMatrixSimulator(dtype=np.complex128, split_untangled_states=split))):
                cases += 1
                rs = sim.simulate_sweep(circ, sweep, qubit_order=order, **kw)
                for k, (r, w) in enumerate(zip(rs, wants)):
                    ok = np.allclose(r.final_state_vector, w, atol=1e-7) if name == "Simulator" else np.allclose(r.final_density_matrix, np.outer(w, w.conj()), atol=1e-7)
                    if not ok:
                        fails.append(dict(args=dict(entry_point=f"{name}(split_untangled_states={split}).simulate_sweep", circuit=repr(circ), sweep=repr(sweep), point=k, qubit_order=repr(order), initial_state=desc),
                                          failed="simulate_sweep", clause=f"sweep point {k} differs from the ordered product of the resolved circuit's matrices applied to the initial state"))
                        break
        if len(fails) >= 4:
            break
    return dict(function="cirq-core/cirq/sim/simulator_base.py[simulate_sweep: prefix reuse]", case="sweeps",
                bound="seeded 2-4 qubit circuits: entangling asymmetric prefix + parameterized body with SWAPs, 2-4 point sweeps, x 2 simulators x split_untangled_states x initial-state forms",
                cases=cases, distinct=len(distinct), failures=len(fails), exhaustive=False, _fails=fails[:4])
standin_sweeps.prop = "C01"


def standin_wide_registers(tier, seed):
    """integer initial states on registers wider than a float mantissa (only possible with split_untangled_states=True: one state per qubit)"""
    import cirq

    rng = random.Random(seed + 11)
    cases, fails = 0, []
    for n in ([40, 64] if tier == "quick" else [30, 54, 60, 64, 70]):
        qs = cirq.LineQubit.range(n)
        for _ in range(3):
            k = rng.getrandbits(n) | (1 << (n - 1)) | 1
            flips = [q for q in qs if rng.random() < 0.3]
            circ = cirq.Circuit([cirq.X(q) for q in flips], [cirq.measure(q, key=f"m{q.x}") for q in qs])  # one measurement per qubit: nothing joins the states
            want = [(k >> (n - 1 - i)) & 1 for i in range(n)]
            for q in flips:
                want[q.x] ^= 1
            for name, sim in (("Simulator", cirq.Simulator()), ("DensityMatrixSimulator", cirq.DensityMatrixSimulator())):
                cases += 1
                try:
                    r = sim.simulate(circ, initial_state=k, qubit_order=qs)
                    got = [int(r.measurements[f"m{q.x}"][0]) for q in qs]
                except Exception as ex:  # refusing is not a wrong answer
                    continue
                if got != want:
                    wrong = [i for i in range(n) if got[i] != want[i]]
                    fails.append(dict(args=dict(entry_point=f"{name}().simulate", n_qubits=n, initial_state=k, flipped=[q.x for q in flips]), failed="wide-initial-state",
                                      clause=f"basis state {k} on {n} qubits: measured bits differ from the requested initial state at positions {wrong[:6]}"))
    return dict(function="cirq-core/cirq/sim/simulator_base.py:SimulatorBase._create_simulation_state[integer initial state]", case="wide-registers",
                bound="registers of 30-70 qubits, 3 random basis states each, X on random qubits, x 2 simulators (split_untangled_states=True)",
                cases=cases, distinct=cases, failures=len(fails), exhaustive=False, _fails=fails[:3])
standin_wide_registers.prop = "C01"

STANDINS = [standin_entry_points, standin_sweeps, standin_wide_registers]

CANARIES = [
    dict(name="swap updates the shared qubit map in place", file=FS, engine_check=0, native=False,
         find="        args._set_qubits(qubits)\n        return args\n\n    def rename", replace="        args._qubits = tuple(qubits)\n        args._qubit_map[q1], args._qubit_map[q2] = i2, i1\n        return args\n\n    def rename"),
]
REPLAYERS = {FS + ":SimulationState.copy[ownership]": lambda ob, seed: (standin_sweeps("thorough", seed)["_fails"] or [None])[0]}
NOT_COVERED = ["Clifford simulator vs matrices: C13; classical simulator: C01_classical; sampling entry points: C02"]
ASSUMPTIONS = ["cirq.unitary(op) of a single operation is the operation's matrix (C03/C04 decide that for the library gates)"]
EXPLANATION = "C01 entry points: ownership of the shared qubit map proved (ownflow); all state-vector / density-matrix entry points compared with the ordered matrix product on seeded circuits (bounded); "
