"""C20 — bounded stand-in (NOT counted as proved): scripted schedules for the collector."""
import itertools


def standin_collector_schedules(tier, seed):
    """all completion orders of <= 4 jobs x concurrency 1..3 x sample budgets x batch shapes of next_job(), on a scripted sampler"""
    import duet
    import cirq

    q = cirq.LineQubit(0)
    circuit = cirq.Circuit(cirq.measure(q, key="m"))
    cases, fails = 0, []
    shapes = [[1, 1, 1, 1], [2, 2], [4], [3, 1], [1, 3]]      # how next_job() hands out 4 jobs (single, batches, nested)
    reps = 10
    for shape in shapes:
        for concurrency in (1, 2, 3):
            for budget in (None, 5, 10, 20, 25, 40):
                for order in (itertools.permutations(range(4)) if tier == "thorough" else [(0, 1, 2, 3), (3, 2, 1, 0), (1, 0, 3, 2), (2, 3, 0, 1)]):
                    cases += 1
                    log = dict(started=[], delivered=[], running=0, max_running=0, remaining=budget)
                    pending = {}

                    class Sampler(cirq.Sampler):
                        async def run_async(self, program, *, repetitions):
                            idx = len(log["started"])
                            log["started"].append(idx)
                            log["running"] += 1
                            log["max_running"] = max(log["max_running"], log["running"])
                            if log["remaining"] is not None:
                                if log["remaining"] <= 0:
                                    log.setdefault("violation", f"job {idx} started after the sample budget was used up")
                                log["remaining"] -= repetitions
                            # completion order is steered by per-job delays (rank in `order`); safety checks never depend on timing
                            await duet.sleep(0.0004 * (1 + order.index(idx % 4)))
                            log["running"] -= 1
                            return cirq.ResultDict(params=cirq.ParamResolver({}), measurements={"m": __import__("numpy").zeros((reps, 1), dtype=int)})

                        def run_sweep(self, *a, **k):
                            raise NotImplementedError

                    log["delivered_to_future"] = set()
                    handed = [0]

                    class C(cirq.Collector):
                        def next_job(self_inner):
                            if not shape_iter:
                                return None
                            k = shape_iter.pop(0)
                            jobs = [cirq.CircuitSampleJob(circuit, repetitions=reps, tag=handed[0] + i) for i in range(k)]
                            handed[0] += k
                            return jobs if k > 1 else jobs[0]

                        def on_job_result(self_inner, job, result):
                            log["delivered"].append(job.tag)

                    shape_iter = list(shape)
                    sampler = Sampler()
                    try:
                        duet.run(C().collect_async, sampler, concurrency=concurrency, max_total_samples=budget)
                    except Exception as ex:
                        fails.append(dict(args=dict(shape=shape, concurrency=concurrency, budget=budget, order=order), failed="raised", clause=repr(ex)))
                        continue
                    ctx = dict(next_job_batches=shape, concurrency=concurrency, max_total_samples=budget, completion_order=list(order))
                    if "violation" in log:
                        fails.append(dict(args=ctx, failed="budget", clause=log["violation"]))
                    if log["max_running"] > concurrency:
                        fails.append(dict(args=ctx, failed="concurrency", clause=f"{log['max_running']} jobs in flight with concurrency={concurrency}"))
                    if sorted(log["delivered"]) != sorted(set(log["delivered"])) or len(log["delivered"]) != len(log["started"]):
                        fails.append(dict(args=ctx, failed="exactly-once", clause=f"started {len(log['started'])} jobs, delivered tags {log['delivered']}"))
                    want_started = 4 if budget is None else min(4, -(-budget // reps))
                    if len(log["started"]) != want_started:
                        fails.append(dict(args=ctx, failed="budget-count", clause=f"{len(log['started'])} jobs started, expected {want_started} (10 repetitions each)"))
                    if len(fails) >= 4:
                        break
                if len(fails) >= 4:
                    break
            if len(fails) >= 4:
                break
        if len(fails) >= 4:
            break
    return dict(function="cirq-core/cirq/work/collector.py:Collector.collect_async[scripted schedules]", case="schedules",
                bound="4 jobs of 10 repetitions x 5 batch shapes of next_job() x concurrency 1..3 x budgets {None,5,10,20,25,40} x 4 (quick) / all 24 (thorough) completion orders",
                cases=cases, distinct=cases, failures=len(fails), exhaustive=(tier == "thorough"), _fails=fails[:4])
standin_collector_schedules.prop = "C20"
STANDINS = [standin_collector_schedules]


def _replay_collector(ob, seed):
    r = standin_collector_schedules("quick", seed)
    return r["_fails"][0] if r["_fails"] else None


REPLAYERS = {"cirq-core/cirq/work/collector.py:Collector.collect_async": _replay_collector}
NOT_COVERED = [
    "liveness (keeps asking for work until none is left; every result eventually returned): not provable by per-segment contracts",
    "StreamManager._manage_stream / _manage_execution (stream restarts, cancellation -> remote cancel, id uniqueness across restarts): not under contract; ResponseDemux only on histories of length <= 3",
    "AsyncioExecutor threads, duet internals",
]
ASSUMPTIONS = ["cooperative scheduling: code between two awaits is atomic (duet / asyncio)",
               "duet.AsyncCollector.__anext__ yields each added result once; scope.spawn starts the coroutine (assume_contract)"]
EXPLANATION = ("C20: the collector's dispatch loop proved safe (concurrency, budget, next_job discipline, no await without a running job) for all "
               "queue contents and budgets; the retry decision table decided on its full domain; demux on all histories of length <= 3; schedules bounded. ")
