"""C20 — bounded stand-in (NOT counted as proved): scripted schedules for the collector."""
import itertools
import random


def standin_collector_schedules(tier, seed):
    """all completion orders of <= 4 jobs x concurrency 1..3 x sample budgets x batch shapes of next_job(), on a scripted sampler"""
    import duet
    import cirq

    q = cirq.LineQubit(0)
    circuit = cirq.Circuit(cirq.measure(q, key="m"))
    cases, fails = 0, []
    shapes = [[1, 1, 1, 1], [2, 2], [4], [3, 1], [1, 3]]      # how next_job() hands out 4 jobs (single, batches, nested)
    reps = 10
    for shape in shapes:
        for concurrency in (1, 2, 3):
            for budget in (None, 5, 10, 20, 25, 40):
                for order in (itertools.permutations(range(4)) if tier == "thorough" else [(0, 1, 2, 3), (3, 2, 1, 0), (1, 0, 3, 2), (2, 3, 0, 1)]):
                    cases += 1
                    log = dict(started=[], delivered=[], running=0, max_running=0, remaining=budget)
                    pending = {}

                    class Sampler(cirq.Sampler):
                        async def run_async(self, program, *, repetitions):
                            idx = len(log["started"])
                            log["started"].append(idx)
                            log["running"] += 1
                            log["max_running"] = max(log["max_running"], log["running"])
                            if log["remaining"] is not None:
                                if log["remaining"] <= 0:
                                    log.setdefault("violation", f"job {idx} started after the sample budget was used up")
                                log["remaining"] -= repetitions
                            # completion order is steered by per-job delays (rank in `order`); safety checks never depend on timing
                            await duet.sleep(0.0004 * (1 + order.index(idx % 4)))
                            log["running"] -= 1
                            return cirq.ResultDict(params=cirq.ParamResolver({}), measurements={"m": __import__("numpy").zeros((reps, 1), dtype=int)})

                        def run_sweep(self, *a, **k):
                            raise NotImplementedError

                    log["delivered_to_future"] = set()
                    handed = [0]

                    class C(cirq.Collector):
                        def next_job(self_inner):
                            if not shape_iter:
                                return None
                            k = shape_iter.pop(0)
                            jobs = [cirq.CircuitSampleJob(circuit, repetitions=reps, tag=handed[0] + i) for i in range(k)]
                            handed[0] += k
                            return jobs if k > 1 else jobs[0]

                        def on_job_result(self_inner, job, result):
                            log["delivered"].append(job.tag)

                    shape_iter = list(shape)
                    sampler = Sampler()
                    try:
                        duet.run(C().collect_async, sampler, concurrency=concurrency, max_total_samples=budget)
                    except Exception as ex:
                        fails.append(dict(args=dict(shape=shape, concurrency=concurrency, budget=budget, order=order), failed="raised", clause=repr(ex)))
                        continue
                    ctx = dict(next_job_batches=shape, concurrency=concurrency, max_total_samples=budget, completion_order=list(order))
                    if "violation" in log:
                        fails.append(dict(args=ctx, failed="budget", clause=log["violation"]))
                    if log["max_running"] > concurrency:
                        fails.append(dict(args=ctx, failed="concurrency", clause=f"{log['max_running']} jobs in flight with concurrency={concurrency}"))
                    if sorted(log["delivered"]) != sorted(set(log["delivered"])) or len(log["delivered"]) != len(log["started"]):
                        fails.append(dict(args=ctx, failed="exactly-once", clause=f"started {len(log['started'])} jobs, delivered tags {log['delivered']}"))
                    want_started = 4 if budget is None else min(4, -(-budget // reps))
                    if len(log["started"]) != want_started:
                        fails.append(dict(args=ctx, failed="budget-count", clause=f"{len(log['started'])} jobs started, expected {want_started} (10 repetitions each)"))
                    if len(fails) >= 4:
                        break
                if len(fails) >= 4:
                    break
            if len(fails) >= 4:
                break
        if len(fails) >= 4:
            break
    return dict(function="cirq-core/cirq/work/collector.py:Collector.collect_async[scripted schedules]", case="schedules",
                bound="4 jobs of 10 repetitions x 5 batch shapes of next_job() x concurrency 1..3 x budgets {None,5,10,20,25,40} x 4 (quick) / all 24 (thorough) completion orders",
                cases=cases, distinct=cases, failures=len(fails), exhaustive=(tier == "thorough"), _fails=fails[:4])
standin_collector_schedules.prop = "C20"
def standin_sampler_limiter(tier, seed):
    """ProcessorSampler(max_concurrent_jobs): jobs whose results arrive late, every completion order of <= 4 jobs x limits 1..3,
    run_async and run_batch_async: never more than the limit in flight on the backend, every caller gets its own result once"""
    import duet
    import numpy as np

    import cirq
    import cirq_google

    cases, fails = 0, []

    def run(n_jobs, limit, order, batch):
        state = dict(open=[], max_open=0)

        class Job:
            def __init__(self, tag):
                self.tag, self.done = tag, duet.AwaitableFuture()

            async def results_async(self):
                await self.done
                state["open"].remove(self)
                return [cirq.ResultDict(params=cirq.ParamResolver({}), measurements={"tag": np.array([[self.tag]])})]

        class Proc:
            async def run_sweep_async(self, program, params=None, repetitions=1, **kw):
                job = Job(max(q.x for q in program.all_qubits()))
                state["open"].append(job)
                state["max_open"] = max(state["max_open"], len(state["open"]))
                return job

        sampler = cirq_google.ProcessorSampler(processor=Proc(), max_concurrent_jobs=limit)
        got = {}
        circ = lambda t: cirq.Circuit(cirq.X(cirq.LineQubit(t)), cirq.measure(cirq.LineQubit(t), key="m"))

        async def caller(t):
            r = await sampler.run_async(circ(t), repetitions=1)
            got.setdefault(t, []).append(int(r.measurements["tag"][0][0]))

        async def batch_caller():
            rs = await sampler.run_batch_async([circ(t) for t in range(n_jobs)])
            for t, r in enumerate(rs):
                got.setdefault(t, []).append(int(r[0].measurements["tag"][0][0]))

        async def driver():
            finished, step = 0, 0
            while finished < n_jobs:
                for _ in range(3):
                    await duet.sleep(0.0005)
                if not state["open"]:
                    continue
                job = state["open"][order[step % len(order)] % len(state["open"])]
                step += 1
                finished += 1
                job.done.set_result(None)

        async def main():
            async with duet.timeout_scope(10):
                async with duet.new_scope() as scope:
                    if batch:
                        scope.spawn(batch_caller)
                    else:
                        for t in range(n_jobs):
                            scope.spawn(caller, t)
                    scope.spawn(driver)

        duet.run(main)
        if state["max_open"] > limit:
            return f"{state['max_open']} jobs were in flight on the backend although max_concurrent_jobs={limit}"
        if got != {t: [t] for t in range(n_jobs)}:
            return f"callers received {got} instead of their own result exactly once"
        return None

    for n_jobs in (2, 3, 4):
        for limit in (1, 2, 3):
            orders = list(itertools.permutations(range(n_jobs))) if tier == "thorough" else [tuple(range(n_jobs)), tuple(reversed(range(n_jobs)))]
            for order in orders:
                for batch in (False, True):
                    cases += 1
                    try:
                        why = run(n_jobs, limit, order, batch)
                    except Exception as ex:
                        why = f"raised {ex!r}"
                    if why:
                        fails.append(dict(args=dict(jobs=n_jobs, max_concurrent_jobs=limit, completion_order=order, batch=batch), failed="limiter", clause=why))
                    if len(fails) >= 3:
                        break
    return dict(function="cirq-google/cirq_google/engine/processor_sampler.py:ProcessorSampler[concurrency limiter, scripted schedules]", case="sampler-limiter",
                bound="2-4 jobs x limits 1-3 x completion orders (2 in quick, all in thorough) x run_async / run_batch_async on a scripted backend", cases=cases, distinct=cases,
                failures=len(fails), exhaustive=False, _fails=fails[:2])
standin_sampler_limiter.prop = "C20"


def standin_engine_stream_faults(tier, seed):
    """Engine.run_sweep over a stream that dies at every point of the submission (before the program exists, after the program, after
    the job), with caller-chosen and library-chosen program / job ids, against an in-memory server: the submitter gets the result, the
    job ran exactly once, one program exists"""
    from http import HTTPStatus

    import duet
    from google.protobuf.text_format import Merge

    import cirq
    import cirq_google as cg
    from cirq_google.api import v2
    from cirq_google.cloud import quantum
    from cirq_google.engine import EngineException, util
    from cirq_google.engine.engine import EngineContext
    from cirq_google.engine.stream_manager import StreamError

    q = cirq.GridQubit(1, 1)
    circuit = cirq.Circuit(cirq.X(q) ** 0.5, cirq.measure(q, key="q"))
    text = "sweep_results: [{ repetitions: 1, parameterized_results: [{ params: { assignments: { key: 'a' value: 7 } }, measurement_results: { key: 'q' qubit_measurement_results: [{ qubit: { id: '1_1' } results: '\\001' }] } }] }]"
    result_msg = quantum.QuantumResult(result=util.pack_any(Merge(text, v2.result_pb2.Result())))

    class Server:
        """duck-typed EngineClient over an in-memory server; `dies` says how far the streamed submission gets before the stream fails"""

        def __init__(self, dies):
            self.dies, self.programs, self.runs, self.log = dies, set(), {}, []

        def run_job_over_stream(self, *, project_id, program_id, job_id, **kw):
            self.log.append(f"stream({program_id},{job_id})")
            fut = duet.AwaitableFuture()
            if self.dies in ("after-program", "after-job", "never"):
                self.programs.add(program_id)
            if self.dies in ("after-job", "never"):
                self.runs[(program_id, job_id)] = self.runs.get((program_id, job_id), 0) + 1
            if self.dies == "never":
                fut.set_result(result_msg)
            else:
                fut.set_exception(StreamError(f"stream broke ({self.dies})"))
            return fut

        async def create_program_async(self, project_id, program_id, code, description=None, labels=None):
            self.log.append(f"create_program({program_id})")
            if program_id in self.programs:
                raise EngineException("program already exists", HTTPStatus.CONFLICT)
            self.programs.add(program_id)
            return program_id, quantum.QuantumProgram(name=f"projects/{project_id}/programs/{program_id}")

        def get_program(self, project_id, program_id, return_code=False):
            return quantum.QuantumProgram(name=f"projects/{project_id}/programs/{program_id}")

        async def get_program_async(self, project_id, program_id, return_code=False):
            return self.get_program(project_id, program_id, return_code)

        async def create_job_async(self, project_id, program_id, job_id, processor_id, **kw):
            self.log.append(f"create_job({program_id},{job_id})")
            if program_id not in self.programs:
                raise EngineException("program does not exist", HTTPStatus.NOT_FOUND)
            if (program_id, job_id) in self.runs:
                raise EngineException("job already exists", HTTPStatus.CONFLICT)
            self.runs[(program_id, job_id)] = 1
            return job_id, quantum.QuantumJob(name=f"projects/{project_id}/programs/{program_id}/jobs/{job_id}", execution_status={"state": "READY"})

        async def get_job_async(self, project_id, program_id, job_id, return_run_context=False):
            self.log.append(f"get_job({program_id},{job_id})")
            if (program_id, job_id) not in self.runs:
                raise EngineException("job not found", HTTPStatus.NOT_FOUND)
            return quantum.QuantumJob(name=f"projects/{project_id}/programs/{program_id}/jobs/{job_id}", execution_status={"state": "SUCCESS"})

        async def get_job_results_async(self, project_id, program_id, job_id):
            self.log.append(f"get_job_results({program_id},{job_id})")
            if (program_id, job_id) not in self.runs:
                raise EngineException("job not found", HTTPStatus.NOT_FOUND)
            return result_msg

    cases, fails = 0, []
    for dies, program_id, job_id in itertools.product(("never", "before-program", "after-program", "after-job"), (None, "my-prog"), (None, "my-job")):
        cases += 1
        server = Server(dies)
        engine = cg.Engine(project_id="proj", context=EngineContext(client=server, enable_streaming=True))
        args = dict(stream_dies=dies, program_id=program_id, job_id=job_id)
        try:
            job = engine.run_sweep(program=circuit, program_id=program_id, job_id=job_id, processor_id="p0", params=[cirq.ParamResolver({"a": 7})])
            results = job.results()
        except Exception as ex:
            fails.append(dict(args=dict(args, calls=server.log), failed="stream-fault", clause=f"the submitter got {ex!r} instead of the result"))
            continue
        executed = sum(server.runs.values())
        if len(results) != 1 or results[0].params.param_dict != {"a": 7} or executed != 1 or len(server.programs) != 1:
            fails.append(dict(args=dict(args, calls=server.log), failed="stream-fault", clause=f"results={len(results)}, job executions on the server={executed}, programs={len(server.programs)} (expected 1, 1, 1)"))
    return dict(function="cirq-google/cirq_google/engine/engine.py:Engine.run_sweep_async + engine_job.py:EngineJob._await_result_async", case="stream-faults",
                bound="4 points at which the stream dies x caller-chosen / library-chosen program id x caller-chosen / library-chosen job id (exhaustive), in-memory server",
                cases=cases, distinct=cases, failures=len(fails), exhaustive=True, _fails=fails[:3])
standin_engine_stream_faults.prop = "C20"


def standin_pauli_sum_collector(tier, seed):
    """PauliSumCollector under every completion order of its concurrent jobs: each result is credited to the Pauli term whose job it
    answers (the estimate on a basis state is exact, so any mix-up shows as a wrong energy)"""
    import duet

    import cirq

    a, b, c = cirq.LineQubit.range(3)
    circuit = cirq.Circuit(cirq.I(a), cirq.X(b), cirq.X(c))          # |0 1 1>: <Za> = 1, <Zb> = -1, <Zc> = -1
    observables = [(1 * cirq.Z(a) + 2 * cirq.Z(b), -1.0), (1 * cirq.Z(a) + 2 * cirq.Z(b) + 4 * cirq.Z(a) * cirq.Z(b) + 8, 3.0), (3 * cirq.Z(a) - 2 * cirq.Z(b) + 5 * cirq.Z(c) * cirq.Z(a), 0.0)]

    class Ordered(cirq.Sampler):
        """finishes its jobs in a scripted order: job number n (1-based, in submission order) waits delay[n] ticks"""

        def __init__(self, delays):
            self.sim, self.delays, self.calls, self.in_flight, self.max_in_flight, self.order = cirq.Simulator(seed=1), delays, 0, 0, 0, []

        def run_sweep(self, program, params, repetitions=1):
            return self.sim.run_sweep(program, params, repetitions)

        async def run_async(self, program, *, repetitions):
            self.calls += 1
            n = self.calls
            self.in_flight += 1
            self.max_in_flight = max(self.max_in_flight, self.in_flight)
            try:
                await duet.sleep(0.004 * self.delays[(n - 1) % len(self.delays)])
                res = self.sim.run(program, repetitions=repetitions)
            finally:
                self.in_flight -= 1
            self.order.append(n)
            return res

    cases, fails = 0, []
    perms = list(itertools.permutations(range(3)))
    for (obs, want), conc, per_term, per_job in itertools.product(observables, (1, 2, 3), (20,), (20, 10)):
        for delays in perms if tier != "quick" else perms[::2]:
            cases += 1
            sampler = Ordered([d + 1 for d in delays])
            col = cirq.PauliSumCollector(circuit, obs, samples_per_term=per_term, max_samples_per_job=per_job)
            try:
                duet.run(col.collect_async, sampler, concurrency=conc)
                e = col.estimated_energy()
            except Exception as ex:
                fails.append(dict(args=dict(observable=str(obs), concurrency=conc, delays=list(delays)), failed="pauli-sum-collector", clause=f"collect_async raised {ex!r}"))
                continue
            if sampler.max_in_flight > conc or abs(e - want) > 1e-9:
                fails.append(dict(args=dict(observable=str(obs), concurrency=conc, max_samples_per_job=per_job, completion_order=sampler.order, max_in_flight=sampler.max_in_flight), failed="pauli-sum-collector",
                                  clause=f"estimated energy {e} (exact value {want}) with the jobs completing in the order {sampler.order}; at most {sampler.max_in_flight} in flight for concurrency {conc}"))
        if len(fails) >= 3:
            break
    return dict(function="cirq-core/cirq/work/pauli_sum_collector.py:PauliSumCollector", case="pauli-sum-collector",
                bound="3 observables x concurrency 1-3 x 1-2 jobs per term x scripted completion orders (all 6 delay patterns in the thorough tier) on a basis state (exact expectation)",
                cases=cases, distinct=cases, failures=len(fails), exhaustive=False, _fails=fails[:3])
standin_pauli_sum_collector.prop = "C20"

def standin_engine_unary_faults(tier, seed):
    """the non-streaming Quantum Engine calls under server faults: 6 concurrent create-job calls, one of which gets an error reply after the
    server registered the job; every error class of the API layer (4xx and 5xx). Replies the client declares retryable (500, 503) are retried until
    success; every other error surfaces to ITS submitter with its code, the other submissions succeed, and no job is created more than
    (1 + number of retryable replies) times"""
    import collections
    from unittest import mock

    import duet
    from google.api_core import exceptions

    from cirq_google.cloud import quantum
    from cirq_google.engine import engine_client
    from cirq_google.engine.engine_client import EngineClient, EngineException

    F_ = "cirq-google/cirq_google/engine/engine_client.py:EngineClient._run_retry_async"
    retryable = set(engine_client.RETRYABLE_ERROR_CODES)
    if retryable != {500, 503}:
        return dict(function=F_, case="engine-unary-faults", bound="-", cases=1, distinct=1, failures=1, exhaustive=False,
                    _fails=[dict(args=dict(retryable=sorted(retryable)), failed="retryable-set", clause=f"the client's retryable reply codes are {sorted(retryable)}, documented: 500 and 503")])
    kinds = [exceptions.BadRequest, exceptions.Unauthorized, exceptions.Forbidden, exceptions.NotFound, exceptions.Conflict, exceptions.TooManyRequests, exceptions.ResourceExhausted,
             exceptions.Cancelled, exceptions.InternalServerError, exceptions.MethodNotImplemented, exceptions.BadGateway, exceptions.ServiceUnavailable, exceptions.GatewayTimeout,
             exceptions.DeadlineExceeded, exceptions.Unknown, exceptions.DataLoss, exceptions.Aborted, exceptions.FailedPrecondition]
    kinds = [k for k in kinds if k("x").code is not None]
    cases, fails = 0, []
    n = 6
    for kind in kinds:
        for slow, registered in ((3, True), (0, False)):
            cases += 1
            code = int(kind("x").code)
            creates, jobs = collections.Counter(), []

            class FakeServer:
                async def create_quantum_job(self, request):
                    parent = request.parent
                    creates[parent] += 1
                    if parent.endswith(f"prog{slow}") and creates[parent] == 1:
                        if registered:
                            jobs.append(parent)
                        raise kind("fault")
                    jobs.append(parent)
                    return quantum.QuantumJob(name=f"{parent}/jobs/job-{len(jobs)}")

            with mock.patch.object(quantum, "QuantumEngineServiceAsyncClient", return_value=FakeServer()):
                client = EngineClient(verbose=False, max_retry_delay_seconds=1)

                async def submit(i):
                    try:
                        _, job = await client.create_job_async("proj", f"prog{i}", None, processor_id="proc")
                        return ("ok", job.name)
                    except EngineException as ex:
                        return ("error", int(ex.code) if ex.code is not None else None)
                    except Exception as ex:
                        return ("raised", repr(ex))

                outcomes = duet.run(duet.pmap_async, submit, range(n))
            problem = None
            for i, outcome in enumerate(outcomes):
                parent = f"projects/proj/programs/prog{i}"
                if i == slow:
                    if code in retryable:
                        if outcome[0] != "ok" or creates[parent] != 2:
                            problem = f"a retryable reply ({code}) to {parent}: the caller got {outcome} after {creates[parent]} requests (expected one retry and success)"
                    elif outcome != ("error", code) or creates[parent] != 1:
                        problem = f"a non-retryable reply ({code} {kind.__name__}) to {parent}: the caller got {outcome} and the server saw {creates[parent]} create requests (expected the error with its code, one request)"
                elif outcome[0] != "ok" or not outcome[1].startswith(parent + "/") or creates[parent] != 1:
                    problem = problem or f"{parent} (no fault): the caller got {outcome} after {creates[parent]} requests"
            if problem:
                fails.append(dict(args=dict(error=kind.__name__, code=code, job_registered_before_the_reply=registered, faulty_submission=slow), failed="unary-fault", clause=problem))
    seen, uniq = set(), []
    for f_ in fails:
        if f_["args"]["error"] not in seen:
            seen.add(f_["args"]["error"])
            uniq.append(f_)
    return dict(function=F_, case="engine-unary-faults", bound=f"{len(kinds)} error classes of google.api_core x (reply lost after / before the job was registered) x 6 concurrent submissions, in-memory server",
                cases=cases, distinct=cases, failures=len(uniq), exhaustive=True, _fails=uniq[:4])
standin_engine_unary_faults.prop = "C20"

def standin_local_processor_jobs(tier, seed):
    """jobs submitted to the local simulated processor (both simulation modes; sequentially and concurrently; program ids chosen by the caller, several
    jobs under ONE program id, or generated): every job hands back the result of ITS OWN circuit, job ids and program ids are the ones given, a
    program lists no job of another program"""
    import duet

    import cirq

    F_ = "cirq-google/cirq_google/engine/simulated_local_processor.py:SimulatedLocalProcessor.run_sweep_async"
    try:
        from cirq_google.engine.local_simulation_type import LocalSimulationType
        from cirq_google.engine.simulated_local_processor import SimulatedLocalProcessor
    except ImportError:
        return dict(function=F_, case="local-processor-jobs", bound="cirq_google not importable", cases=0, distinct=0, failures=0, exhaustive=False, _fails=[])
    rng = random.Random(seed + 88)
    qs = cirq.LineQubit.range(4)

    def circuit_for(i):
        return cirq.Circuit([cirq.X(q_) for b_, q_ in zip(format(i % 16, "04b"), qs) if b_ == "1"], cirq.measure(*qs, key="m"))

    cases, fails = 0, []
    for sim_type, concurrent, ids in itertools.product((LocalSimulationType.ASYNCHRONOUS, LocalSimulationType.SYNCHRONOUS), (False, True), ("shared", "distinct", "generated")):
        cases += 1
        n = 12
        proc = SimulatedLocalProcessor(processor_id="p", sampler=cirq.Simulator(seed=3), simulation_type=sim_type)
        order = list(range(n))
        rng.shuffle(order)
        pid = {i: (f"user-{i % 3}" if ids == "shared" else f"user-{i}" if ids == "distinct" else None) for i in range(n)}

        async def submit(i):
            kw = dict(program_id=pid[i]) if pid[i] is not None else {}
            job = await proc.run_sweep_async(circuit_for(i), job_id=f"job-{i}", repetitions=3, **kw)
            res = await job.results_async()
            return i, job, res

        try:
            if concurrent:
                outs = duet.run(duet.pmap_async, submit, order)
            else:
                outs = [duet.run(submit, i) for i in order]
        except Exception as ex:
            fails.append(dict(args=dict(mode=str(sim_type), concurrent=concurrent, program_ids=ids), failed="local-jobs-raised", clause=f"{ex!r}"))
            continue
        problem = None
        for i, job, res in outs:
            want = [[int(b_) for b_ in format(i % 16, "04b")]] * 3
            got = res[0].measurements["m"].astype(int).tolist() if len(res) == 1 else None
            if got != want:
                problem = problem or f"job-{i} (program {pid[i]}) returned {got}, its own circuit gives {want}"
            if job.id() != f"job-{i}" or (pid[i] is not None and job.program().id() != pid[i]):
                problem = problem or f"job-{i} reports id {job.id()} / program {job.program().id()}"
        if ids != "generated" and not problem:
            for i in range(n):
                prog = proc.get_program(pid[i])
                listed = sorted(j_.id() for j_ in prog.list_jobs())
                mine = sorted(f"job-{k}" for k in range(n) if pid[k] == pid[i])
                if not set(listed) <= set(mine):       # (a later submission under the same id replaces the program object: the list may be shorter)
                    problem = problem or f"program {pid[i]} lists jobs {listed}; submitted under it: {mine}"
        if problem:
            fails.append(dict(args=dict(mode=str(sim_type), concurrent=concurrent, program_ids=ids, submission_order=order), failed="local-jobs", clause=problem))
    # one job is one run: asking a job for its results again (flat or batched view) hands back the same results and does not run the circuit again
    class Counting(cirq.Sampler):
        def __init__(self):
            self.calls, self.inner = 0, cirq.Simulator(seed=11)

        def run_sweep(self, program, params, repetitions=1):
            self.calls += 1
            return self.inner.run_sweep(program, params, repetitions)

    coin = cirq.Circuit(cirq.H.on_each(*qs), cirq.measure(*qs, key="m"))
    for sim_type in (LocalSimulationType.ASYNCHRONOUS, LocalSimulationType.SYNCHRONOUS):
        cases += 1
        sampler = Counting()
        proc = SimulatedLocalProcessor(processor_id="p", sampler=sampler, simulation_type=sim_type)
        try:
            job = proc.run_sweep(coin, repetitions=30)
            first = job.results()[0].measurements["m"].tolist()
            second = job.results()[0].measurements["m"].tolist()
        except Exception as ex:
            fails.append(dict(args=dict(mode=str(sim_type)), failed="local-jobs-raised", clause=f"{ex!r}"))
            continue
        if first != second or sampler.calls != 1:
            fails.append(dict(args=dict(mode=str(sim_type), sampler_calls=sampler.calls), failed="local-job-runs-once", clause=f"asking one job for its results twice ran the circuit {sampler.calls} times" + ("" if first == second else " and returned two different sets of samples")))
    return dict(function=F_, case="local-processor-jobs", bound="12 jobs with distinct deterministic circuits x 2 simulation modes x sequential / concurrent submission x program ids shared by 4 jobs / distinct / generated",
                cases=cases, distinct=cases, failures=len(fails), exhaustive=True, _fails=fails[:4])
standin_local_processor_jobs.prop = "C20"

STANDINS = [standin_collector_schedules, standin_sampler_limiter, standin_engine_stream_faults, standin_pauli_sum_collector, standin_engine_unary_faults, standin_local_processor_jobs]


def _replay_collector(ob, seed):
    r = standin_collector_schedules("quick", seed)
    return r["_fails"][0] if r["_fails"] else None


REPLAYERS = {"cirq-core/cirq/work/collector.py:Collector.collect_async": _replay_collector}
NOT_COVERED = [
    "liveness (keeps asking for work until none is left; every result eventually returned): not provable by per-segment contracts",
    "StreamManager._manage_stream / _manage_execution (stream restarts, cancellation -> remote cancel, id uniqueness across restarts): not under contract; ResponseDemux only on histories of length <= 3",
    "AsyncioExecutor threads, duet internals",
]
ASSUMPTIONS = ["cooperative scheduling: code between two awaits is atomic (duet / asyncio)",
               "duet.AsyncCollector.__anext__ yields each added result once; scope.spawn starts the coroutine (assume_contract)"]
EXPLANATION = ("C20: the collector's dispatch loop proved safe (concurrency, budget, next_job discipline, no await without a running job) for all "
               "queue contents and budgets; the retry decision table decided on its full domain; demux on all histories of length <= 3; schedules bounded. ")
