"""C02 — from 'the state returned digits' to 'the record the user sees', and classical feed-forward.

Probabilities and sampling are floats / randomness (outside deductive reach; see the bounded stand-in with a scripted
random source in C02_born.py).  Within reach: invert masks, the record written by SimulationState.measure, classical
conditions, classically controlled operations, and the ownership discipline of the classical data store."""
import z3

from pyvc import sym, ownflow
from pyvc.api import Contract, Case
from pyvc.interp import SRec
from pyvc.sym import SObj, SSeq, SList, SInt, wrap, obj_kind, fresh_int

FM = "cirq-core/cirq/ops/measurement_gate.py"
FS = "cirq-core/cirq/sim/simulation_state.py"
FC = "cirq-core/cirq/value/condition.py"
FO = "cirq-core/cirq/ops/classically_controlled_operation.py"
FD = "cirq-core/cirq/value/classical_data.py"

# ---- MeasurementGate.full_invert_mask -----------------------------------------------------------------------------


def _mgate(name):
    import cirq
    from pyvc import paths

    mask = SSeq.fresh(sym.BOOL, "invert_mask", tuple)
    shape = SSeq.fresh(sym.INT, "qid_shape", tuple)
    paths.current().assume(mask.n <= shape.n)  # enforced by MeasurementGate.__init__
    return SRec(cirq.MeasurementGate, {"_invert_mask": mask, "_qid_shape": shape})


Contract(
    FM + ":MeasurementGate.full_invert_mask", "C02",
    params={"self": _mgate},
    ensures=[
        "len(result) == len(self._qid_shape)",
        "all(result[i] == self._invert_mask[i] for i in range(len(self._invert_mask)))",
        "all(result[i] == False for i in range(len(self._invert_mask), len(self._qid_shape)))",
    ],
    inline=[FM + ":MeasurementGate.invert_mask"],
    models={("cirq.ops.raw_types", "Gate.num_qubits"): lambda interp, a, k: a[0]._qid_shape.length()},
    notes="Gate.num_qubits() is taken to be len(qid_shape) (protocol dispatch not modelled)",
    result="seq[bool]",
)

# ---- SimulationState.measure: the recorded digits -------------------------------------------------------------------
QidS = sym.sort("Qid")
DIM = z3.Function("qid_dimension", QidS, z3.IntSort())
SObj.ATTRS.setdefault("Qid", {})["dimension"] = lambda q: wrap(DIM(q.e))

_LOG = {}


def _sim_state(name):
    import cirq

    class _Store(sym.Sym):
        """classical data store seen through record_measurement only (its own contract is the ownership check below)"""

        def record_measurement(self, key, measurement, qubits):
            _LOG["key"], _LOG["measurement"], _LOG["qubits"] = key, measurement, qubits
            _LOG["calls"] = _LOG.get("calls", 0) + 1

    _LOG.clear()
    return SRec(cirq.SimulationState, {"_classical_data": _Store()})


def _logged(what):
    return _LOG[what]


_logged._pyvc_native_ok = True


def _m_perform(interp, args, kwargs):
    # the state returns one digit per measured qubit, each within the qubit's dimension
    from pyvc import paths

    qubits = args[1]
    s = SSeq.fresh(sym.INT, "bits", list)
    j = z3.Int(sym.fresh_name("j"))
    p = paths.current()
    p.assume(s.n == sym.seq_of(qubits).n)
    p.assume(z3.ForAll([j], z3.Implies(z3.And(0 <= j, j < s.n), z3.And(0 <= z3.Select(s.a, j), z3.Select(s.a, j) < DIM(z3.Select(sym.seq_of(qubits).a, j))))))
    p.quantified = True
    _LOG["bits"] = s
    return SList(s)


def _m_confuse(interp, args, kwargs):
    # contract of _confuse_result used at this call: same length, digits stay within the dimensions
    from pyvc import paths

    bits, qubits = args[1], args[2]
    s = SSeq.fresh(sym.INT, "confused", list)
    j = z3.Int(sym.fresh_name("j"))
    p = paths.current()
    p.assume(s.n == sym.seq_of(bits).n)
    p.assume(z3.ForAll([j], z3.Implies(z3.And(0 <= j, j < s.n), z3.And(0 <= z3.Select(s.a, j), z3.Select(s.a, j) < DIM(z3.Select(sym.seq_of(qubits).a, j))))))
    _LOG["confused"] = s
    return SList(s)


Contract(
    FS + ":SimulationState.measure", "C02",
    params={"self": _sim_state, "qubits": "seq[obj:Qid]", "key": ("const", "k"), "invert_mask": "seq[bool]",
            "confusion_map": ("const", {})},
    requires=["len(invert_mask) == len(qubits)"],
    ensures=[
        "logged('calls') == 1",                                   # exactly one record appended
        "logged('key') == MeasurementKey.parse_serialized('k')",   # under the parsed key
        "len(logged('measurement')) == len(qubits)",
        # digit i is the (confused) outcome, flipped iff the mask says so and the digit is a bit (qudit values >= 2 untouched)
        "all(logged('measurement')[i] == ((1 - logged('confused')[i]) if (invert_mask[i] and logged('confused')[i] < 2) else logged('confused')[i])"
        " for i in range(len(qubits)))",
        "logged('qubits') == qubits",
    ],
    env={"logged": _logged, "MeasurementKey": __import__("cirq").MeasurementKey},
    models={("cirq.sim.simulation_state", "SimulationState._perform_measurement"): _m_perform,
            ("cirq.sim.simulation_state", "SimulationState._confuse_result"): _m_confuse},
    notes="_perform_measurement (state + prng) and _confuse_result are assumed to return in-range digits (assume_contract)",
)

# ---- conditions ---------------------------------------------------------------------------------------------------
KeyS = sym.sort("Key")
HASKEY = z3.Function("store_has_key", KeyS, z3.BoolSort())
GETINT = z3.Function("store_get_int", KeyS, z3.IntSort(), z3.IntSort())


class _Reader(sym.Sym):
    """ClassicalDataStoreReader: keys() and get_int(key, index) as abstract functions of the store's content"""

    def keys(self):
        return sym.SSet(z3.Lambda([z3.Const("k!r", KeyS)], HASKEY(z3.Const("k!r", KeyS))), obj_kind("Key"))

    def get_int(self, key, index=-1):
        return wrap(GETINT(key.e, sym.as_int_term(index)))


def has_key(k):
    return wrap(HASKEY(k.e))


def get_int(k, i):
    return wrap(GETINT(k.e, sym.as_int_term(i)))


def bit_and(a, b):
    return wrap(sym.BAND(sym.as_int_term(a), sym.as_int_term(b)))


for _f in (has_key, get_int, bit_and):
    _f._pyvc_native_ok = True
CENV = dict(has_key=has_key, get_int=get_int, bit_and=bit_and)


def _keycond(name):
    import cirq

    return SRec(cirq.KeyCondition, {"key": sym.fresh_obj("Key", "key"), "index": fresh_int("index")})


def _bitmaskcond_mask(name):
    import cirq

    return SRec(cirq.BitMaskKeyCondition, {"key": sym.fresh_obj("Key", "key"), "index": fresh_int("index"), "target_value": fresh_int("target"),
                                           "equal_target": sym.fresh_bool("equal_target"), "bitmask": fresh_int("bitmask")})


def _bitmaskcond_nomask(name):
    import cirq

    return SRec(cirq.BitMaskKeyCondition, {"key": sym.fresh_obj("Key", "key"), "index": fresh_int("index"), "target_value": fresh_int("target"),
                                           "equal_target": sym.fresh_bool("equal_target"), "bitmask": None})


Contract(
    FC + ":KeyCondition.resolve", "C02",
    params={"self": _keycond, "classical_data": lambda n: _Reader()},
    ensures=["result == (get_int(self.key, self.index) != 0)"],
    raises={"ValueError": "not has_key(self.key)"},
    env=CENV, result="bool",
)

Contract(
    FC + ":BitMaskKeyCondition.resolve", "C02",
    cases=[
        Case("bitmask:int", {"self": _bitmaskcond_mask, "classical_data": lambda n: _Reader()},
             ensures=["result == ((bit_and(get_int(self.key, self.index), self.bitmask) == self.target_value) == self.equal_target)"]),
        Case("bitmask:None", {"self": _bitmaskcond_nomask, "classical_data": lambda n: _Reader()},
             ensures=["result == ((get_int(self.key, self.index) == self.target_value) == self.equal_target)"]),
    ],
    raises={"ValueError": "not has_key(self.key)"},
    env=CENV, result="bool",
)

# ---- ClassicallyControlledOperation._act_on_: sub-operation applied iff ALL conditions hold -------------------------
CondS = sym.sort("Cond")
RESOLVES = z3.Function("cond_resolves", CondS, z3.BoolSort())
SObj.ATTRS["Cond"] = {"resolve": lambda c: _ok(lambda store: wrap(RESOLVES(c.e)))}
_ACTED = {}


def _ok(f):
    f._pyvc_native_ok = True
    return f


def _cco(name):
    import cirq

    _ACTED.clear()
    _ACTED["n"] = 0
    return SRec(cirq.ClassicallyControlledOperation, {"_conditions": SSeq.fresh(obj_kind("Cond"), "conditions", tuple),
                                                      "_sub_operation": "SUBOP"})


def _m_act_on(interp, args, kwargs):
    _ACTED["n"] += 1
    _ACTED["what"] = args[0]
    return None


def acted():
    return _ACTED["n"]


def resolves(c):
    return wrap(RESOLVES(c.e))


acted._pyvc_native_ok = True
resolves._pyvc_native_ok = True


class _SimStateStub(sym.Sym):
    classical_data = "STORE"


Contract(
    FO + ":ClassicallyControlledOperation._act_on_", "C02",
    params={"self": _cco, "sim_state": lambda n: _SimStateStub()},
    ensures=["result == True",
             "(acted() == 1) == all(resolves(c) for c in self._conditions)",
             "acted() <= 1"],
    env=dict(acted=acted, resolves=resolves),
    models={("cirq.protocols.act_on_protocol", "act_on"): _m_act_on},
)

# ---- ownership of the classical data store: copy() must not share mutable containers -----------------------------------
OWN = ownflow.OwnSpec(
    "C02", FD, "ClassicalDataDictionaryStore", "copy",
    fields={"_records": 2, "_measured_qubits": 2, "_channel_records": 2, "_measurement_types": 1},
    ctor_kw={"_records": "_records", "_measured_qubits": "_measured_qubits", "_channel_records": "_channel_records",
             "_measurement_types": "_measurement_types"})


def own_check():
    return [ownflow.check(OWN)]


ENGINE_CHECKS = [own_check]


def _replay_own(ob, seed):
    """Concrete witness for a failed ownership obligation: mutate a copy, observe the original."""
    import cirq

    q = cirq.LineQubit(0)
    k = cirq.MeasurementKey("m")
    for first in ("measurement", "channel"):
        s = cirq.ClassicalDataDictionaryStore()
        if first == "measurement":
            s.record_measurement(k, (1,), (q,))
        else:
            s.record_channel_measurement(k, 1)
        before = (dict((a, list(b)) for a, b in s.records.items()), dict((a, list(b)) for a, b in s.channel_records.items()),
                  dict((a, list(b)) for a, b in s.measured_qubits.items()))
        t = s.copy()
        if first == "measurement":
            t.record_measurement(k, (0,), (q,))
        else:
            t.record_channel_measurement(k, 0)
        after = (dict(s.records), dict(s.channel_records), dict(s.measured_qubits))
        if before != after:
            return dict(args=dict(history=[f"s = ClassicalDataDictionaryStore(); s.record_{first}(...)", "t = s.copy()", f"t.record_{first}(...)"]),
                        failed="copy-not-independent", clause=f"mutating the copy changed the original: {before} -> {after}")
    return None


REPLAYERS = {FD + ":ClassicalDataDictionaryStore.copy[ownership]": _replay_own}

CANARIES = [
    dict(name="invert mask applied to qudit values too", file=FS, function=FS + ":SimulationState.measure",
         find="bit ^ (bit < 2 and mask)", replace="bit ^ mask"),
    dict(name="classical control uses any() instead of all()", file=FO, function=FO + ":ClassicallyControlledOperation._act_on_",
         find="if all(c.resolve(sim_state.classical_data) for c in self._conditions):", replace="if any(c.resolve(sim_state.classical_data) for c in self._conditions):"),
    dict(name="BitMaskKeyCondition ignores equal_target", file=FC, function=FC + ":BitMaskKeyCondition.resolve",
         find="        if self.equal_target:\n            return value == self.target_value\n        return value != self.target_value", replace="        return value == self.target_value"),
    dict(name="full_invert_mask pads with True", file=FM, function=FM + ":MeasurementGate.full_invert_mask",
         find="mask += (False,) * deficit", replace="mask += (True,) * deficit"),
]
NOT_COVERED = [
    "probabilities and sampling (Born rule numerics): bounded stand-in with a scripted random source only (C02_born.py)",
    "ClassicalDataDictionaryStore.record_measurement / get_int functional contracts: not under contract (ownership of copy() is)",
    "_confuse_result digit bookkeeping, StepResult.sample_measurement_ops column bookkeeping, CliffordTableau._measure: bounded only",
]
ASSUMPTIONS = [
    "SimulationState._perform_measurement and _confuse_result return one in-range digit per qubit (assume_contract)",
    "bitwise & between two symbolic ints is an uninterpreted function in the BitMaskKeyCondition obligation",
    "ownflow: mutable depth of the store's fields is declared in the sidecar (dict of lists = 2)",
]
EXPLANATION = ("C02: record plumbing and classical feed-forward proved (invert masks, recorded digits, conditions, all-conditions rule, "
               "store copy ownership); the Born-rule distribution itself is decided only by a bounded exact-enumeration stand-in. ")
