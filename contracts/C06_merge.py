"""C06 — merge bookkeeping of transformer_primitives (deductive) and bounded transformer equivalence (stand-in).

Deductive reach: the index bookkeeping that decides which earlier components an operation may be merged into.  A
component is abstracted to its moment id and its qubit / measurement-key / control-key sets; `_MergedCircuit` to the
summaries `last_q(q)`, `last_m(k)`, `last_c(k)` = greatest moment id of a component touching the qubit / measuring the
key / controlled by the key (the last element of the sorted index lists), and to the set of components per moment."""
import z3

from pyvc import sym
from pyvc.api import Contract, Case
from pyvc.interp import SRec
from pyvc.sym import SObj, SSet, SInt, Sym, wrap, obj_kind

F = "cirq-core/cirq/transformers/transformer_primitives.py"

CompS, QidS, KeyS = sym.sort("Comp"), sym.sort("Qid"), sym.sort("Key")
C_QUBITS = z3.Function("comp_qubits", CompS, z3.ArraySort(QidS, z3.BoolSort()))
C_MKEYS = z3.Function("comp_mkeys", CompS, z3.ArraySort(KeyS, z3.BoolSort()))
C_CKEYS = z3.Function("comp_ckeys", CompS, z3.ArraySort(KeyS, z3.BoolSort()))
C_MOMENT = z3.Function("comp_moment", CompS, z3.IntSort())
LAST_Q = z3.Function("last_q", QidS, z3.IntSort())
LAST_M = z3.Function("last_m", KeyS, z3.IntSort())
LAST_C = z3.Function("last_c", KeyS, z3.IntSort())
PRESENT = z3.Function("comp_present", CompS, z3.BoolSort())

SObj.ATTRS["Comp"] = {
    "qubits": lambda c: SSet(C_QUBITS(c.e), obj_kind("Qid")),
    "mkeys": lambda c: SSet(C_MKEYS(c.e), obj_kind("Key")),
    "ckeys": lambda c: SSet(C_CKEYS(c.e), obj_kind("Key")),
    "moment_id": lambda c: wrap(C_MOMENT(c.e)),
}


class _SortedTail(Sym):
    """An index list of which only the last (= greatest) element is observed."""

    def __init__(self, last):
        self.last = last

    def __getitem__(self, i):
        if i == -1:
            return wrap(self.last)
        raise sym.OutOfReach("index list read other than [-1]")


class _LastMap(Sym):
    """defaultdict(lambda: [-1]) of sorted index lists, abstracted to the last element per key."""

    def __init__(self, fn):
        self.fn = fn

    def __getitem__(self, k):
        return _SortedTail(self.fn(k.e))


class _CompIndex(Sym):
    """components_by_index: moment id -> the set of components present in that moment."""

    def __getitem__(self, i):
        x = z3.Const(sym.fresh_name("x"), CompS)
        from pyvc import paths
        paths.current().require(sym.as_int_term(i) >= 0, "safe.index")  # idx == -1 is excluded by the early return
        return SSet(z3.Lambda([x], z3.And(PRESENT(x), C_MOMENT(x) == sym.as_int_term(i))), obj_kind("Comp"))


def _merged(name):
    import cirq.transformers.transformer_primitives as tp

    return SRec(tp._MergedCircuit, {"qubit_indexes": _LastMap(LAST_Q), "mkey_indexes": _LastMap(LAST_M),
                                    "ckey_indexes": _LastMap(LAST_C), "components_by_index": _CompIndex()})


def last_q(q):
    return wrap(LAST_Q(q.e))


def last_m(k):
    return wrap(LAST_M(k.e))


def last_c(k):
    return wrap(LAST_C(k.e))


def moment_of(x):
    return wrap(C_MOMENT(x.e))


for _f in (last_q, last_m, last_c, moment_of):
    _f._pyvc_native_ok = True

ENV = dict(last_q=last_q, last_m=last_m, last_c=last_c, moment_of=moment_of)

Contract(
    F + ":_MergedCircuit.get_mergeable_components", "C06",
    params={"self": _merged, "c": "obj:Comp", "c_qs": "set[obj:Qid]"},
    requires=[
        # the summaries never point before the start: -1 means 'nothing yet'
        "forall('Qid', lambda q: last_q(q) >= -1)", "forall('Key', lambda k: last_m(k) >= -1 and last_c(k) >= -1)",
    ],
    ensures=[
        # every returned component sits in ONE moment L, and nothing that conflicts with c (on the qubits c_qs, or
        # through a shared measurement key, or measurement-vs-control key in either direction) lies after L:
        # merging c into a returned component can therefore not hop over a conflicting operation.
        "all(forall('Qid', lambda q: implies(q in c_qs, last_q(q) <= moment_of(x))) for x in result)",
        "all(forall('Key', lambda k: implies(k in c.ckeys, last_m(k) <= moment_of(x))) for x in result)",
        "all(forall('Key', lambda k: implies(k in c.mkeys, last_c(k) <= moment_of(x))) for x in result)",
        "all(forall('Key', lambda k: implies(k in c.mkeys, last_m(k) <= moment_of(x))) for x in result)",
        # and they really touch c on the chosen qubits
        "all(not c_qs.isdisjoint(x.qubits) for x in result)",
    ],
    env=ENV,
)


Contract(
    F + ":_MergedCircuit.can_move_to_latest_moment", "C06",
    params={"self": _merged, "c": "obj:Comp", "other_mkeys": "set[obj:Key]", "other_ckeys": "set[obj:Key]"},
    ensures=[
        # True exactly when nothing after c's moment, and nothing else in the latest moment, conflicts with c through a key
        "result == (c.mkeys.isdisjoint(other_mkeys) and c.mkeys.isdisjoint(other_ckeys) and c.ckeys.isdisjoint(other_mkeys)"
        " and forall('Key', lambda k: implies(k in c.mkeys, last_m(k) <= moment_of(c) and last_c(k) <= moment_of(c)))"
        " and forall('Key', lambda k: implies(k in c.ckeys, last_m(k) <= moment_of(c))))",
    ],
    env=ENV,
)

CANARIES = [
    dict(name="drop mkey/mkey term again", file=F, function=F + ":_MergedCircuit.get_mergeable_components",
         find="                (self.mkey_indexes[mkey][-1] for mkey in c.mkeys),\n", replace=""),
    dict(name="drop ckey-of-c vs mkey term", file=F, function=F + ":_MergedCircuit.get_mergeable_components",
         find="                (self.mkey_indexes[ckey][-1] for ckey in c.ckeys),\n", replace=""),
    dict(name="qubit index uses first instead of last element", file=F, function=F + ":_MergedCircuit.get_mergeable_components",
         find="(self.qubit_indexes[q][-1] for q in c_qs)", replace="(self.qubit_indexes[q][0] for q in c_qs)"),
    dict(name="can_move ignores control keys of later ops", file=F, function=F + ":_MergedCircuit.can_move_to_latest_moment",
         find="self.mkey_indexes[k][-1] <= c.moment_id and self.ckey_indexes[k][-1] <= c.moment_id", replace="self.mkey_indexes[k][-1] <= c.moment_id"),
]
NOT_COVERED = [
    "semantic equivalence of every transformer (eject_z, eject_phased_paulis, stratify, align, merge_*, optimize_for_target_gateset, ...): bounded stand-in only",
    "_merge_operations_impl loop as a whole, ComponentSet.merge, _insort_last/_remove_last list bookkeeping: not under contract",
    "defer_measurements, dynamical decoupling, gauge compiling, randomized measurements, routing: not exercised here (see C07 for routing)",
]
ASSUMPTIONS = [
    "components abstracted to (moment id, qubit set, measurement-key set, control-key set); index lists to their last element "
    "(the representation invariant 'lists sorted, last = greatest moment id' is assumed, not proved)",
]
EXPLANATION = ("C06: only the merge bookkeeping is proved (which earlier component an operation may merge into / whether a component "
               "may move forward); transformer equivalence is decided by a bounded stand-in with an independent exact reference semantics. ")
