"""C17 — bounded stand-in (NOT counted as proved): vendor payloads interpreted by the vendors' documented gate definitions.

IonQ (QIS and native gates; IonQ's qubit 0 is the first line qubit) and AQT operation lists are interpreted with matrices written
from the vendors' public documentation; the unitary must equal the submitted circuit's up to global phase, measurement keys must
map to the right targets, unsupported content must be rejected; results come back to the right key and qubit."""
import itertools
import json
import math
import random

import numpy as np

from contracts import refsim

F = "cirq-ionq/cirq_ionq/serializer.py"

I2 = np.eye(2)
X = np.array([[0, 1], [1, 0]], dtype=complex)
Y = np.array([[0, -1j], [1j, 0]])
Z = np.array([[1, 0], [0, -1]], dtype=complex)
H = (X + Z) / math.sqrt(2)


def _rot(P, angle):
    return math.cos(angle / 2) * np.eye(len(P)) - 1j * math.sin(angle / 2) * P


def _ionq_matrix(op):
    """IonQ documented gate semantics (docs.ionq.com: QIS gates and native gates)"""
    g = op["gate"]
    if g in ("x", "not"):
        return X
    if g == "y":
        return Y
    if g == "z":
        return Z
    if g == "h":
        return H
    if g == "s":
        return np.diag([1, 1j])
    if g == "si":
        return np.diag([1, -1j])
    if g == "t":
        return np.diag([1, np.exp(1j * math.pi / 4)])
    if g == "ti":
        return np.diag([1, np.exp(-1j * math.pi / 4)])
    if g == "v":
        return _rot(X, math.pi / 2)
    if g == "vi":
        return _rot(X, -math.pi / 2)
    if g in ("rx", "ry", "rz"):
        return _rot({"rx": X, "ry": Y, "rz": Z}[g], op["rotation"])
    if g in ("xx", "yy", "zz") and "rotation" in op:
        P = {"xx": np.kron(X, X), "yy": np.kron(Y, Y), "zz": np.kron(Z, Z)}[g]
        return _rot(P, op["rotation"])
    if g == "swap":
        return np.array([[1, 0, 0, 0], [0, 0, 1, 0], [0, 1, 0, 0], [0, 0, 0, 1]], dtype=complex)
    if g == "cnot":
        return np.array([[1, 0, 0, 0], [0, 1, 0, 0], [0, 0, 0, 1], [0, 0, 1, 0]], dtype=complex)
    if g == "gpi":
        p = op["phase"] * 2 * math.pi
        return np.array([[0, np.exp(-1j * p)], [np.exp(1j * p), 0]])
    if g == "gpi2":
        p = op["phase"] * 2 * math.pi
        return np.array([[1, -1j * np.exp(-1j * p)], [-1j * np.exp(1j * p), 1]]) / math.sqrt(2)
    if g == "ms":
        p0, p1 = (x * 2 * math.pi for x in op["phases"])
        th = op.get("angle", 0.25) * 2 * math.pi
        c, s = math.cos(th / 2), math.sin(th / 2)
        return np.array([[c, 0, 0, -1j * np.exp(-1j * (p0 + p1)) * s],
                         [0, c, -1j * np.exp(-1j * (p0 - p1)) * s, 0],
                         [0, -1j * np.exp(1j * (p0 - p1)) * s, c, 0],
                         [-1j * np.exp(1j * (p0 + p1)) * s, 0, 0, c]])
    if g == "zz":
        th = op["phase"] * 2 * math.pi
        return np.diag([np.exp(-1j * th / 2), np.exp(1j * th / 2), np.exp(1j * th / 2), np.exp(-1j * th / 2)])
    if g == "pauliexp":
        # exp(-i * time * sum_k c_k P_k); Pauli strings are little-endian over `targets`
        n = len(op["targets"])
        Hm = np.zeros((2 ** n, 2 ** n), dtype=complex)
        for term, coef in zip(op["terms"], op["coefficients"]):
            m = np.eye(1)
            for ch in reversed(term):  # little-endian: first character acts on the first target
                m = np.kron({"I": I2, "X": X, "Y": Y, "Z": Z}[ch], m) if False else np.kron(m, {"I": I2, "X": X, "Y": Y, "Z": Z}[ch])
            Hm += coef * m
        w, v = np.linalg.eigh(Hm)
        return (v * np.exp(-1j * op["time"] * w)) @ v.conj().T
    raise NotImplementedError(g)


def interpret_ionq(program_input):
    n = program_input["qubits"]

    class Q:
        def __init__(self, i):
            self.i, self.dimension = i, 2

        def __eq__(self, o):
            return self.i == o.i

        def __hash__(self):
            return hash(self.i)

    qs = [Q(i) for i in range(n)]
    U = np.eye(2 ** n, dtype=complex)
    for op in program_input["circuit"]:
        if op["gate"] == "cnot":
            targets = [op["control"], op["target"]]
        elif "targets" in op:
            targets = list(op["targets"])
        else:
            targets = [op["target"]]
        m = _ionq_matrix(op)
        if op["gate"] == "pauliexp":
            targets = list(reversed(targets))  # matrix above is built big-endian over reversed(term) == first char -> first target: undo
            targets = list(op["targets"])
            # build matrix with explicit per-target placement instead
            nloc = len(targets)
            Hm = np.zeros((2 ** nloc, 2 ** nloc), dtype=complex)
            for term, coef in zip(op["terms"], op["coefficients"]):
                mm = np.eye(1)
                for ch in term[::-1]:  # IonQ strings are little-endian: last character <-> first target
                    mm = np.kron(mm, {"I": I2, "X": X, "Y": Y, "Z": Z}[ch])
                Hm += coef * mm
            w, v = np.linalg.eigh(Hm)
            m = (v * np.exp(-1j * op["time"] * w)) @ v.conj().T
        U = refsim.embed(m, [qs[t] for t in targets], qs) @ U
    return U


def _aqt_matrix(entry):
    """AQT documented operations: Z(theta)= exp(-i pi theta Z/2) ~ Z**theta; R(theta, phi) = exp(-i pi theta/2 (cos(pi phi) X + sin(pi phi) Y));
    MS(theta) = exp(-i pi theta/2 XX)"""
    name = entry[0]
    if name == "Z":
        return _rot(Z, math.pi * entry[1]), entry[2]
    if name == "R":
        ax = math.cos(math.pi * entry[2]) * X + math.sin(math.pi * entry[2]) * Y
        return _rot(ax, math.pi * entry[1]), entry[3]
    if name == "MS":
        return _rot(np.kron(X, X), math.pi * entry[1]), entry[2]
    raise NotImplementedError(name)


def standin_ionq(tier, seed):
    import cirq
    import cirq_ionq

    rng = random.Random(seed)
    cases, fails = 0, []
    ser = cirq_ionq.Serializer()

    def qis_gate(qs):
        e = rng.choice([1, 0.5, -0.5, 0.25, -0.25, 0.37, 2, 1.5, 0.5 + 1e-9, 1 - 5e-7])
        a, b = rng.sample(qs, 2)
        return rng.choice([cirq.X(a) ** e, cirq.Y(a) ** e, cirq.Z(a) ** e, cirq.H(a), cirq.XX(a, b) ** e, cirq.YY(a, b) ** e, cirq.ZZ(a, b) ** e, cirq.SWAP(a, b),
                           cirq.CNOT(a, b), cirq.CNOT(b, a), cirq.rx(0.3)(b), cirq.ry(-1.2)(a), cirq.rz(2.2)(b), cirq.S(a), cirq.T(b) ** -1,
                           cirq.XPowGate(exponent=e, global_shift=-0.5)(a)])

    def native_gate(qs):
        a, b = rng.sample(qs, 2)
        p0, p1 = rng.choice([0.1, 0.35, 0, 0.5, 0.77]), rng.choice([0.35, 0.1, 0.25, 0.9])
        return rng.choice([cirq_ionq.GPIGate(phi=p0)(a), cirq_ionq.GPI2Gate(phi=p1)(b), cirq_ionq.MSGate(phi0=p0, phi1=p1)(a, b), cirq_ionq.MSGate(phi0=p0, phi1=p1, theta=0.1)(b, a),
                           cirq_ionq.ZZGate(theta=p0)(a, b)])

    for _ in range(120 if tier == "quick" else 2500):
        n = rng.choice([2, 3, 4])
        qs = cirq.LineQubit.range(n)
        native = rng.random() < 0.4
        ops = [(native_gate if native else qis_gate)(qs) for _ in range(rng.randrange(1, 6))]
        keyq = rng.sample(qs, rng.randrange(1, n + 1))
        meas = [cirq.measure(*keyq, key="k")]
        rest = [q for q in qs if q not in keyq]
        if rest and rng.random() < 0.5:
            meas.append(cirq.measure(*rng.sample(rest, len(rest)), key="second"))
        c = cirq.Circuit(ops, meas)
        try:
            sp = ser.serialize_single_circuit(c)
        except ValueError:
            continue
        cases += 1
        inp = sp.input
        try:
            U = interpret_ionq(inp)
        except NotImplementedError as ex:
            fails.append(dict(args=dict(circuit=repr(c)), failed="unknown-gate", clause=f"payload uses a gate the documented vocabulary does not contain: {ex}"))
            continue
        want = refsim.ref_unitary(cirq.Circuit(ops), list(qs)) if inp["qubits"] == n else None
        if want is None:
            all_q = cirq.LineQubit.range(inp["qubits"])
            want = refsim.ref_unitary(cirq.Circuit(ops), list(all_q))
        if not refsim.equal_up_to_global_phase(U, want, atol=1e-5):
            fails.append(dict(args=dict(circuit=repr(c), payload=json.dumps(inp)[:600]), failed="payload-unitary",
                              clause="the IonQ program, read with IonQ's documented gate definitions, is not the circuit's unitary (up to global phase)"))
        # measurement metadata: key -> targets
        md = sp.metadata
        meas_str = "".join(md[k] for k in sorted(md) if k.startswith("measurement"))
        got = {}
        for chunk in meas_str.split(chr(30)):
            if chunk:
                k, t = chunk.split(chr(31))
                got[k] = [int(x) for x in t.split(",")]
        want_md = {cirq.measurement_key_name(m): [q.x for q in m.qubits] for m in meas}
        if got != want_md:
            fails.append(dict(args=dict(circuit=repr(c), metadata=repr(md)), failed="measurement-metadata", clause=f"keys map to {got}, expected {want_md}"))
        if len(fails) >= 4:
            break
    # measurement options the job description has no place for (only key and targets travel with it): refused, not dropped
    qm = cirq.LineQubit.range(2)
    for label, m_ in (("invert mask", cirq.measure(qm[0], qm[1], key="k", invert_mask=(True, False))), ("partial invert mask", cirq.measure(qm[0], qm[1], key="k", invert_mask=(False, True))),
                      ("confusion map", cirq.measure(qm[0], key="k", confusion_map={(0,): np.array([[0.9, 0.1], [0.2, 0.8]])}))):
        cases += 1
        try:
            sp = ser.serialize_single_circuit(cirq.Circuit(cirq.X(qm[0]), m_))
            fails.append(dict(args=dict(measurement=repr(m_), payload=json.dumps(sp.input)[:200], metadata=repr(sp.metadata)), failed="measurement-option-dropped",
                              clause=f"a measurement with a {label} is serialized with key and targets only: the option is silently dropped (the results come back unaltered)"))
        except ValueError:
            pass
        except Exception as ex:
            fails.append(dict(args=dict(measurement=repr(m_)), failed="measurement-option-dropped", clause=f"a measurement with a {label} raised {type(ex).__name__} instead of being refused"))
    # circuits outside the vocabulary go through the vendor's own compilation first (IonQTargetGateset and the native gatesets): the payload of the
    # COMPILED circuit still means the submitted circuit; three-qubit gates and their powers on every order of the qubits included
    import itertools as _it

    q3 = cirq.LineQubit.range(3)
    wide = [g.on(*[q3[i] for i in perm]) for g in (cirq.CCX, cirq.CCX ** 0.5, cirq.CCX ** -0.25, cirq.CCZ, cirq.CCZ ** 0.3, cirq.CSWAP, cirq.ControlledGate(cirq.Y ** 0.4, num_controls=2)) for perm in ((0, 1, 2), (2, 0, 1), (1, 2, 0))]
    narrow = [cirq.ISWAP(q3[0], q3[2]) ** 0.3, cirq.FSimGate(0.4, 0.7)(q3[1], q3[0]), cirq.CZ(q3[2], q3[1]) ** 0.6, cirq.PhasedXZGate(x_exponent=0.3, z_exponent=0.2, axis_phase_exponent=0.7)(q3[1]), cirq.H(q3[2]) ** 0.5]
    gatesets = [("IonQTargetGateset", cirq_ionq.IonQTargetGateset())] + [(nm, getattr(cirq_ionq, nm)()) for nm in ("AriaNativeGateset", "ForteNativeGateset") if hasattr(cirq_ionq, nm)]
    for (gname, gs_), op in _it.product(gatesets, wide + narrow):
        if gname != "IonQTargetGateset" and op in wide and tier == "quick" and wide.index(op) % 3:
            continue
        src = cirq.Circuit(cirq.H(q3[0]), op, cirq.measure(*q3, key="k"))
        cases += 1
        try:
            compiled = cirq.optimize_for_target_gateset(src, gateset=gs_)
            sp = ser.serialize_single_circuit(compiled)
            U = interpret_ionq(sp.input)
        except Exception as ex:
            fails.append(dict(args=dict(circuit=repr(src), gateset=gname), failed="compiled-payload-raised", clause=f"compiling with {gname} and serializing raised {ex!r}"))
            continue
        want = refsim.ref_unitary(cirq.Circuit(cirq.H(q3[0]), op), list(q3))
        if sp.input["qubits"] != 3 or not refsim.equal_up_to_global_phase(U, want, atol=1e-5):
            fails.append(dict(args=dict(circuit=repr(src), gateset=gname, payload=json.dumps(sp.input)[:500]), failed="compiled-payload-unitary",
                              clause=f"the payload of the circuit compiled with {gname} is not the submitted circuit's unitary (up to global phase)"))
    # results: every outcome assigned to the right key and qubit (exhaustive small)
    for n in (2, 3):
        for targets in itertools.permutations(range(n), 2):
            for value in range(2 ** n):
                r = cirq_ionq.QPUResult({value: 3}, n, {"k": list(targets)})
                cases += 1
                bits = [(value >> (n - 1 - t)) & 1 for t in targets]
                want_int = int("".join(map(str, bits)), 2)
                if r.ordered_results("k") != [want_int] * 3 or r.to_cirq_result().measurements["k"].tolist() != [bits] * 3:
                    fails.append(dict(args=dict(num_qubits=n, targets=targets, value=value), failed="results", clause="QPUResult assigns the outcome to the wrong key bit"))
                pr = cirq_ionq.SimulatorResult({value: 1.0}, n, {"k": list(targets)}, repetitions=2)
                if pr.probabilities("k") != {want_int: 1.0}:
                    fails.append(dict(args=dict(num_qubits=n, targets=targets, value=value), failed="probabilities", clause="SimulatorResult.probabilities marginalises onto the wrong bits"))
    # sampling a simulator result into rows: one row is ONE outcome of the whole register, so keys over perfectly correlated qubits agree in every
    # row, whatever kind of seed is given (int, None, a RandomState)
    for seed_ in (3, None, np.random.RandomState(5)):
        for n_, probs, md in ((2, {0: 0.5, 3: 0.5}, {"a": [0], "b": [1]}), (3, {0: 0.25, 7: 0.75}, {"a": [2], "b": [0, 1]}), (3, {5: 0.5, 2: 0.5}, {"x": [0, 2], "y": [1]})):
            cases += 1
            r = cirq_ionq.SimulatorResult(probs, n_, md, repetitions=60)
            try:
                cr = r.to_cirq_result(seed=seed_)
            except Exception as ex:
                fails.append(dict(args=dict(probabilities=probs, measurement_dict=md, seed=repr(seed_)), failed="to_cirq_result-raised", clause=f"{ex!r}"))
                continue
            allowed = set()
            for v in probs:
                bits = [(v >> (n_ - 1 - t)) & 1 for t in range(n_)]
                allowed.add(tuple(tuple(bits[t] for t in ts) for ts in md.values()))
            for row in range(60):
                got_row = tuple(tuple(int(b) for b in cr.measurements[k][row]) for k in md)
                if got_row not in allowed:
                    fails.append(dict(args=dict(probabilities=probs, measurement_dict=md, seed=repr(seed_), row=row), failed="results-rows",
                                      clause=f"row {row} of SimulatorResult.to_cirq_result shows {dict(zip(md, got_row))}, which is not one outcome of the register (allowed: {sorted(allowed)})"))
                    break
    # the endianness conversion itself: bit j of the result is bit (n-1-j) of the value, every value of every width <= 7
    from cirq_ionq import job as _job

    for n in range(1, 8):
        for value in range(2 ** n):
            cases += 1
            got = _job._little_endian_to_big(value, n)
            want = sum(((value >> j) & 1) << (n - 1 - j) for j in range(n))
            if got != want:
                fails.append(dict(args=dict(value=value, bit_count=n), failed="endianness", clause=f"_little_endian_to_big({value}, {n}) = {got}, the bit reversal is {want}"))
                break
    return dict(function=F + ":Serializer.serialize_single_circuit + results.py", case="ionq",
                bound="seeded QIS / native circuits (2-4 qubits, <= 5 ops, exponents near the special-case thresholds) + 1-2 measurement keys; all results on <= 3 qubits",
                cases=cases, distinct=cases, failures=len(fails), exhaustive=False, _fails=fails[:4])
standin_ionq.prop = "C17"


class _FakeIonQ:
    """an IonQ API endpoint: stores posted jobs, runs the posted program with IonQ's documented gate meanings, and answers result requests
    with probability histograms keyed by the LITTLE-endian integer of the outcome (qubit 0 is the least significant bit)"""

    class Resp:
        def __init__(self, body):
            self.status_code, self.ok, self._b = 200, True, body

        def json(self):
            return self._b

    def __init__(self):
        self.jobs = {}

    def post(self, url, json=None, headers=None, **kw):
        jid = f"job{len(self.jobs)}"
        self.jobs[jid] = json
        return self.Resp({"id": jid, "status": "ready"})

    def get(self, url, params=None, headers=None, **kw):
        parts = url.split("/jobs/")[1].split("/")
        job = self.jobs[parts[0]]
        inp = job["input"]
        if len(parts) == 1:
            return self.Resp({"id": parts[0], "status": "completed", "backend": job["backend"], "target": job["backend"], "name": job.get("name", ""), "metadata": job["metadata"],
                              "stats": {"qubits": inp["qubits"]}, "qubits": inp["qubits"]})
        circuits = [c["circuit"] for c in inp["circuits"]] if "circuits" in inp else [inp["circuit"]]
        # a batch answers at .../results/probabilities/aggregated, a single circuit at .../results/probabilities
        wants_aggregated = url.rstrip("/").endswith("/aggregated")
        if wants_aggregated != ("circuits" in inp):
            r = self.Resp({"error": "Not Found", "message": "no such results for this kind of job"})
            r.status_code, r.ok = 404, False
            return r
        hists = {}
        for i, ops in enumerate(circuits):
            n = inp["qubits"]
            U = interpret_ionq({"qubits": n, "circuit": [o for o in ops if o["gate"] != "meas"]})
            psi = U[:, 0]
            h = {}
            for idx, amp in enumerate(psi):
                p = abs(amp) ** 2
                if p > 1e-12:
                    bits = [(idx >> (n - 1 - q)) & 1 for q in range(n)]  # interpret_ionq is big-endian over qubit 0..n-1
                    h[str(sum(b << q for q, b in enumerate(bits)))] = p
            hists[f"circuit-{i}"] = h
        return self.Resp(hists if "circuits" in inp else hists["circuit-0"])


def standin_ionq_jobs(tier, seed):
    """submission -> (fake) IonQ endpoint -> results, through the real Service / client / Job / result classes: every key of every circuit of
    single and batch jobs (circuits of different widths in one batch) carries the outcome distribution cirq's own semantics gives it"""
    import cirq
    import cirq_ionq
    import cirq_ionq.ionq_client as ic

    rng = random.Random(seed + 3)
    cases, fails = 0, []
    fake = _FakeIonQ()
    real_post, real_get = ic.requests.post, ic.requests.get
    ic.requests.post, ic.requests.get = fake.post, fake.get
    try:
        for it in range(60 if tier == "quick" else 400):
            target = rng.choice(["simulator", "qpu"])
            batch = rng.random() < 0.6
            circuits, expects = [], []
            for _ in range(rng.randrange(2, 4) if batch else 1):
                n = rng.choice([1, 2, 3, 4])
                qs = cirq.LineQubit.range(n)
                ops = [cirq.X(q) for q in qs if rng.random() < 0.5]
                if rng.random() < 0.6:
                    ops.append(cirq.H(rng.choice(qs)))
                if n >= 2 and rng.random() < 0.5:
                    a, b = rng.sample(qs, 2)
                    ops.append(cirq.CNOT(a, b))
                if not ops:
                    ops = [cirq.X(qs[0])]
                kq = rng.sample(qs, rng.randrange(1, n + 1))
                # key texts of every length around the 40-character chunks the measurement table travels in, with blanks anywhere
                key_pool = ["k", "other", "data register", "a" * 37 + " b", " lead", "trail ", "x" * 36, "y" * 37, "z" * 38, "w" * 39, "m " * 19 + "m", "q" * 35 + "  r", "p" * 33 + " s t"]
                k1, k2 = rng.sample(key_pool, 2)
                meas = [cirq.measure(*kq, key=k1)]
                rest = [q for q in qs if q not in kq]
                if rest and rng.random() < 0.5:
                    meas.append(cirq.measure(*rng.sample(rest, len(rest)), key=k2))
                c = cirq.Circuit(ops, meas)
                all_q = cirq.LineQubit.range(max(q.x for q in c.all_qubits()) + 1)
                psi = refsim.ref_unitary(cirq.Circuit(ops), list(all_q))[:, 0]
                exp = {}
                for m in meas:
                    d = {}
                    for idx, amp in enumerate(psi):
                        p = abs(amp) ** 2
                        if p > 1e-12:
                            bits = [(idx >> (len(all_q) - 1 - q.x)) & 1 for q in m.qubits]
                            d[int("".join(map(str, bits)), 2)] = d.get(int("".join(map(str, bits)), 2), 0) + p
                    exp[cirq.measurement_key_name(m)] = d
                circuits.append(c)
                expects.append(exp)
            service = cirq_ionq.Service(remote_host="http://fake.invalid", api_key="key", default_target=target)
            reps = 100
            try:
                if batch:
                    job = service.create_batch_job(circuits, repetitions=reps, target=target)
                else:
                    job = service.create_job(circuits[0], repetitions=reps, target=target)
                if rng.random() < 0.4:
                    # another job of the OTHER kind is created through the same service before the results are fetched
                    other = cirq.Circuit(cirq.X(cirq.LineQubit(0)), cirq.measure(cirq.LineQubit(0), key="o"))
                    (service.create_job(other, repetitions=1, target=target) if batch else service.create_batch_job([other, other], repetitions=1, target=target))
                if rng.random() < 0.3:
                    job = cirq_ionq.Service(remote_host="http://fake.invalid", api_key="key", default_target=target).get_job(job.job_id())   # looked up again later
                res = job.results(polling_seconds=0)
            except Exception as ex:
                fails.append(dict(args=dict(circuits=[repr(c) for c in circuits], target=target), failed="job-raised", clause=f"{type(ex).__name__}: {str(ex)[:200]}"))
                continue
            res = res if isinstance(res, list) else [res]
            cases += 1
            if len(res) != len(circuits):
                fails.append(dict(args=dict(circuits=[repr(c) for c in circuits], target=target), failed="result-count", clause=f"{len(res)} results for {len(circuits)} circuits"))
                continue
            for i, (r, exp, c) in enumerate(zip(res, expects, circuits)):
                for key, d in exp.items():
                    if target == "simulator":
                        got = {k: v for k, v in r.probabilities(key).items() if v > 1e-12}
                        ok = set(got) == set(d) and all(abs(got[k] - d[k]) < 1e-9 for k in d)
                    else:
                        got = dict(r.counts(key))
                        ok = set(got) == set(d) and all(abs(got[k] - reps * d[k]) <= 1 for k in d)
                        rows = r.to_cirq_result().measurements[key]
                        col = {}
                        for row in rows:
                            v = int("".join(str(int(b)) for b in row), 2)
                            col[v] = col.get(v, 0) + 1
                        ok = ok and col == got
                    if not ok:
                        fails.append(dict(args=dict(circuits=[repr(c_) for c_ in circuits], target=target, circuit_index=i, key=key), failed="job-results",
                                          clause=f"key {key!r} of circuit {i}: results give {got}, the circuit gives {({k: (v if target == 'simulator' else reps * v) for k, v in d.items()})}"))
                        break
            if len(fails) >= 3:
                break
    finally:
        ic.requests.post, ic.requests.get = real_post, real_get
    return dict(function="cirq-ionq/cirq_ionq/{service,ionq_client,job,results}.py[submit -> results]", case="ionq-jobs",
                bound="seeded single and batch jobs (1-3 circuits of 1-4 qubits with different widths, X/H/CNOT + 1-2 keys on permuted qubits) on simulator and qpu targets against a fake endpoint "
                      "that executes the posted program with the documented gate meanings and answers little-endian histograms",
                cases=cases, distinct=cases, failures=len(fails), exhaustive=False, _fails=fails[:3])
standin_ionq_jobs.prop = "C17"


def standin_ionq_measurement_table(tier, seed):
    """the key -> targets table packed into the 40-character metadata values measurement0..8 decodes (plain concatenation, then
    chr(30) / chr(31) splits, as the results side does) to exactly the circuit's keys and qubits; any key text, any table length"""
    import cirq
    import cirq_ionq

    rng = random.Random(seed + 41)
    ser = cirq_ionq.Serializer()
    pool = ["k", "second", "charlie result", "a b c", "col\tA", "line\nbreak", " leading", "trailing ", "double  space", "x" * 30, "key_with_a_rather_long_name", "m0", "ß-ünï", "a,b", "1", "", "measure me please"]
    cases, fails = 0, []
    for _ in range(150 if tier == "quick" else 3000):
        n = rng.choice([2, 3, 5, 8])
        qs = cirq.LineQubit.range(n)
        nk = rng.randrange(1, min(n, 6) + 1)
        keys = rng.sample([k for k in pool if k != ""] + [""] * 0, nk)
        free = list(qs)
        rng.shuffle(free)
        meas = []
        for i, k in enumerate(keys):
            take = free[i::nk][: rng.randrange(1, 3)] or [free[i]]
            meas.append(cirq.measure(*take, key=k))
        # no qubit measured twice
        seen = set()
        meas = [m for m in meas if not (set(m.qubits) & seen) and not seen.update(m.qubits)]
        c = cirq.Circuit(cirq.X(qs[0]), meas)
        # the caller's own metadata dictionary is reused from circuit to circuit (as a job loop would): what one circuit wrote must not
        # reach the next circuit's table, and the caller's entries travel along
        if not hasattr(standin_ionq_measurement_table, "_user_md") or rng.random() < 0.1:
            standin_ionq_measurement_table._user_md = {"experiment": "e1"}
        user_md = standin_ionq_measurement_table._user_md
        try:
            sp = ser.serialize_single_circuit(c, metadata=user_md) if rng.random() < 0.6 else ser.serialize_single_circuit(c)
        except ValueError:
            continue  # documented refusal (table too long / invalid key)
        cases += 1
        md = sp.metadata
        parts = sorted((k for k in md if k.startswith("measurement")), key=lambda k: int(k[len("measurement"):]))
        if any(len(md[k]) > 40 for k in parts):
            fails.append(dict(args=dict(circuit=repr(c), metadata=repr(md)), failed="measurement-metadata", clause="a metadata value is longer than 40 characters"))
            continue
        table = "".join(md[k] for k in parts)
        got = {}
        try:
            for chunk in table.split(chr(30)):
                if chunk:
                    k, t = chunk.split(chr(31))
                    got[k] = [int(x) for x in t.split(",")]
        except ValueError:
            fails.append(dict(args=dict(circuit=repr(c), metadata=repr(md)), failed="measurement-metadata", clause="the packed table cannot be decoded (key / targets entries are malformed)"))
            continue
        want = {cirq.measurement_key_name(m): [q.x for q in m.qubits] for m in meas}
        if got != want:
            fails.append(dict(args=dict(circuit=repr(c), metadata=repr(md)), failed="measurement-metadata", clause=f"the packed table decodes to {got}, the circuit measures {want}"))
        if len(fails) >= 3:
            break
    return dict(function="cirq-ionq/cirq_ionq/serializer.py:Serializer._serialize_measurements", case="ionq-measurement-table",
                bound="seeded circuits with 1-6 keys from a pool with spaces, tabs, newlines, unicode, commas and long names on 2-8 qubits (tables below and above 40 / 80 characters)",
                cases=cases, distinct=cases, failures=len(fails), exhaustive=False, _fails=fails[:3])
standin_ionq_measurement_table.prop = "C17"


def standin_aqt(tier, seed):
    import cirq
    import cirq_aqt

    rng = random.Random(seed)
    cases, fails = 0, []
    for _ in range(60 if tier == "quick" else 1200):
        n = rng.choice([2, 3])
        qs = cirq.LineQubit.range(n)
        ops = []
        for _k in range(rng.randrange(1, 6)):
            a, b = rng.sample(qs, 2)
            e = rng.choice([0.5, 1, -0.5, 0.25, 0.37, 1.5])
            ops.append(rng.choice([cirq.Z(a) ** e, cirq.PhasedXPowGate(phase_exponent=rng.choice([0, 0.5, 0.2, -0.5, -0.3, 1.0, 1.25, -1.0, 1.75]), exponent=e)(a), cirq.XX(a, b) ** e, cirq.XX(b, a) ** e]))
        c = cirq.Circuit(ops)
        sampler = cirq_aqt.AQTSampler(workspace="w", resource="r", access_token="t")
        try:
            js = sampler._generate_json(c, cirq.ParamResolver({}))
        except Exception as ex:
            fails.append(dict(args=dict(circuit=repr(c)), failed="aqt-raised", clause=f"{ex!r}"))
            continue
        cases += 1

        class Q:
            def __init__(self, i):
                self.i, self.dimension = i, 2

            def __eq__(self, o):
                return self.i == o.i

            def __hash__(self):
                return hash(self.i)
        lq = [Q(i) for i in range(n)]
        U = np.eye(2 ** n, dtype=complex)
        for entry in json.loads(js):
            m, idx = _aqt_matrix(entry)
            U = refsim.embed(m, [lq[i] for i in idx], lq) @ U
        want = refsim.ref_unitary(c, list(qs))
        if not refsim.equal_up_to_global_phase(U, want, atol=1e-6):
            fails.append(dict(args=dict(circuit=repr(c), payload=js[:400]), failed="aqt-payload-unitary", clause="AQT operation list is not the circuit's unitary (up to global phase)"))
        # the package's own reader of operation lists (what the local stand-in for the service runs) gives the same meaning
        from cirq_aqt.aqt_device import AQTSimulator

        sim_ = AQTSimulator(num_qubits=n, simulate_ideal=True)
        try:
            sim_.generate_circuit_from_list(js)
            back = cirq.Circuit(op for op in sim_.circuit.all_operations() if not cirq.is_measurement(op))
            if not refsim.equal_up_to_global_phase(refsim.ref_unitary(back, list(qs)), want, atol=1e-6):
                fails.append(dict(args=dict(circuit=repr(c), payload=js[:400], read_back=repr(back)[:600]), failed="aqt-payload-read-back", clause="AQTSimulator.generate_circuit_from_list reads the operation list as a circuit with a different unitary"))
        except Exception as ex:
            fails.append(dict(args=dict(circuit=repr(c), payload=js[:400]), failed="aqt-payload-read-back", clause=f"AQTSimulator.generate_circuit_from_list raised {ex!r}"))
        if len(fails) >= 3:
            break
    # samples come back as one column per line index: circuits that flip a chosen subset of (not necessarily contiguous) qubits
    from cirq_aqt.aqt_sampler import AQTSamplerLocalSimulator
    flip = cirq.PhasedXPowGate(phase_exponent=0, exponent=1.0)
    for _ in range(10 if tier == "quick" else 100):
        used = sorted(rng.sample(range(5), rng.randrange(1, 4)))
        flipped = [i for i in used if rng.random() < 0.6]
        ops = [flip.on(cirq.LineQubit(i)) if i in flipped else (cirq.Z ** 0.5).on(cirq.LineQubit(i)) for i in used]
        c = cirq.Circuit(ops)
        seen = {}
        class Spy(AQTSamplerLocalSimulator):
            def _send_json(self, *, json_str, id_str, repetitions=1, num_qubits=1):
                seen.update(num_qubits=num_qubits, payload=json_str)
                return super()._send_json(json_str=json_str, id_str=id_str, repetitions=repetitions, num_qubits=num_qubits)
        cases += 1
        try:
            res = Spy(simulate_ideal=True).run(c, repetitions=3)
        except Exception as ex:
            fails.append(dict(args=dict(circuit=repr(c)), failed="aqt-run-raised", clause=f"running a circuit on line qubits {used} raised {ex!r}"))
            continue
        addressed = {i for entry in json.loads(seen["payload"]) for i in entry[-1]}
        rows = np.asarray(res.measurements["m"]).astype(int)
        if max(addressed) >= seen["num_qubits"]:
            fails.append(dict(args=dict(circuit=repr(c), num_qubits=seen["num_qubits"], payload=seen["payload"]), failed="aqt-register-size", clause="the payload addresses a qubit index outside the announced register"))
        elif any(rows[r][i] != int(i in flipped) for r in range(rows.shape[0]) for i in used):
            fails.append(dict(args=dict(circuit=repr(c), samples=rows.tolist()), failed="aqt-sample-columns", clause="column i of the samples is not the measurement of LineQubit(i)"))
    # a qubit without a register position (negative line index) is refused, not sent as an index counted from the end
    for neg in (cirq.Circuit(flip.on(cirq.LineQubit(-1)), (cirq.Z ** 0.5).on(cirq.LineQubit(1))), cirq.Circuit((cirq.XX ** 0.5).on(cirq.LineQubit(0), cirq.LineQubit(-2))),
                cirq.Circuit(cirq.ZPowGate(dimension=3).on(cirq.LineQid(0, dimension=3))), cirq.Circuit(flip.on(cirq.LineQubit(0)), (cirq.ZPowGate(dimension=3) ** 0.5).on(cirq.LineQid(1, dimension=3)))):
        cases += 1
        try:
            res = AQTSamplerLocalSimulator(simulate_ideal=True).run(neg, repetitions=2)
            fails.append(dict(args=dict(circuit=repr(neg), samples=np.asarray(res.measurements["m"]).astype(int).tolist()), failed="aqt-negative-index", clause="a circuit on a qubit without a register position (negative index) or on a qudit was run (sent as a qubit operation at some position)"))
        except ValueError:
            pass
        except Exception as ex:
            fails.append(dict(args=dict(circuit=repr(neg)), failed="aqt-negative-index", clause=f"a circuit on a qubit without a register position or on a qudit raised {type(ex).__name__}: {ex} instead of being refused"))
    return dict(function="cirq-aqt/cirq_aqt/aqt_sampler.py:AQTSampler._generate_json", case="aqt", bound="seeded circuits over Z/R/MS (phase exponents in and outside [0, 1)), 2-3 qubits, <= 5 ops; negative line indices refused; basis-state circuits on arbitrary subsets of 5 line qubits through the local sampler",
                cases=cases, distinct=cases, failures=len(fails), exhaustive=False, _fails=fails[:3])
standin_aqt.prop = "C17"
STANDINS = [standin_ionq, standin_aqt, standin_ionq_measurement_table, standin_ionq_jobs]

NOT_COVERED = [
    "Serializer gate-by-gate payload semantics (_serialize_*_pow_gate thresholds), _near_mod_n, _serialize_measurements chunking, _little_endian_to_big: bounded only",
    "IonQ pauliexp gates, job/service plumbing, AQT result parsing, Pasqal: not exercised",
]
ASSUMPTIONS = ["IonQ / AQT gate definitions transcribed from the vendors' public documentation"]
EXPLANATION = ("C17: result bit extraction proved for any register width (1-3 targets); payload meaning decided by an independent interpreter of the "
               "IonQ JSON / AQT operation list on seeded circuits (bounded). ")
