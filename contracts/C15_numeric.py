"""C15 — bounded stand-ins (NOT counted as proved): numeric decomposition and synthesis routines on special and random inputs.

Inputs: identity, local gates, the CNOT / iSWAP / SWAP / sqrt-iSWAP classes, Weyl-chamber boundary points and +-1e-9
perturbations of them, all dressed with random single-qubit gates and a global phase, plus Haar-random unitaries.
Checked: the factors / operations multiply back to the input (exactly or up to global phase as documented, atol 1e-6), and the
promised form (canonical KAK coefficients, gate counts and gate kinds, special orthogonality, diagonal forms)."""
import itertools
import random
import warnings

import numpy as np

F = "cirq-core/cirq/linalg+transformers/analytical_decompositions"
PI = np.pi


def _xx(x, y, z):
    import cirq

    XX, YY, ZZ = (np.kron(cirq.unitary(g), cirq.unitary(g)) for g in (cirq.X, cirq.Y, cirq.Z))
    import scipy.linalg as sl

    return sl.expm(1j * (x * XX + y * YY + z * ZZ))


def special_two_qubit(rng, n_random=6):
    import cirq

    e = 1e-9
    coeffs = [(0, 0, 0), (PI / 4, 0, 0), (PI / 4, PI / 4, 0), (PI / 4, PI / 4, PI / 4), (PI / 4, PI / 4, -PI / 4), (PI / 8, 0, 0), (PI / 8, PI / 8, 0), (PI / 8, PI / 8, PI / 8),
              (PI / 8, PI / 8, -PI / 8), (PI / 4, PI / 8, PI / 8), (PI / 4, PI / 8, -PI / 8), (PI / 4, PI / 8, 0), (0.3, 0.2, 0.1), (0.3, 0.2, -0.1), (0.3, 0.3, 0.1), (0.3, 0.1, 0.1),
              (PI / 4 - e, 0, 0), (PI / 4 + e, 0, 0), (e, 0, 0), (PI / 4, PI / 4 - e, e), (PI / 8 + e, PI / 8, 0), (PI / 4, e, -e), (0.5, 0.7, 1.9), (-0.2, 2.0, 0.9), (PI / 2, 0, 0), (PI / 3, PI / 3, PI / 3),
              # at an intermediate distance from a special class (where a loose threshold would snap to the class and drop the rest)
              (PI / 4, PI / 4, 0.01), (PI / 4, PI / 4, -0.03), (PI / 4, PI / 4 - 0.004, 0.002), (PI / 8 + 1e-4, PI / 8, 0), (PI / 8, PI / 8 - 3e-5, 1e-5), (1e-4, 0, 0), (PI / 4 - 1e-4, 0, 0),
              (PI / 4, PI / 4, PI / 4 - 1e-3)]
    named = [np.eye(4), cirq.unitary(cirq.CNOT), cirq.unitary(cirq.CZ), cirq.unitary(cirq.ISWAP), cirq.unitary(cirq.SWAP), cirq.unitary(cirq.SQRT_ISWAP), cirq.unitary(cirq.SQRT_ISWAP_INV),
             cirq.unitary(cirq.CZ ** 0.5), cirq.unitary(cirq.CZ ** 1e-9), cirq.unitary(cirq.FSimGate(PI / 2, PI / 6)), cirq.unitary(cirq.FSimGate(PI / 4, PI)), cirq.unitary(cirq.XX ** 0.5),
             cirq.unitary(cirq.ZZ ** 0.25), cirq.unitary(cirq.CNOT) @ np.kron(cirq.unitary(cirq.H), np.eye(2)), np.kron(cirq.unitary(cirq.H), cirq.unitary(cirq.T)), np.diag([1, 1j, -1, -1j]),
             np.diag([1, 1, 1, -1]) * 1j, cirq.unitary(cirq.givens(0.3)), cirq.unitary(cirq.PhasedISwapPowGate(phase_exponent=0.25, exponent=1))]
    out = [("named", u) for u in named]
    for c in coeffs:
        out.append((f"interaction{tuple(round(v, 4) for v in c)}", _xx(*c)))
        a0, a1, b0, b1 = (cirq.testing.random_unitary(2, random_state=rng.randrange(10 ** 6)) for _ in range(4))
        out.append((f"dressed interaction{tuple(round(v, 4) for v in c)}", np.exp(0.37j) * np.kron(a0, a1) @ _xx(*c) @ np.kron(b0, b1)))
    for _ in range(n_random):
        out.append(("random", cirq.testing.random_unitary(4, random_state=rng.randrange(10 ** 6))))
    return out


def special_one_qubit(rng, n_random=8):
    import cirq

    us = [np.eye(2), cirq.unitary(cirq.X), cirq.unitary(cirq.Y), cirq.unitary(cirq.Z), cirq.unitary(cirq.H), cirq.unitary(cirq.S), cirq.unitary(cirq.T), -np.eye(2), 1j * cirq.unitary(cirq.X),
          cirq.unitary(cirq.X ** 0.5), cirq.unitary(cirq.Y ** -0.5), cirq.unitary(cirq.Z ** 1e-9), cirq.unitary(cirq.X ** (1 - 1e-9)), cirq.unitary(cirq.PhasedXPowGate(phase_exponent=0.3, exponent=1)),
          cirq.unitary(cirq.rx(1e-8)), cirq.unitary(cirq.H) * np.exp(1j), cirq.unitary(cirq.Z ** 0.5) @ cirq.unitary(cirq.X)]
    return us + [cirq.testing.random_unitary(2, random_state=rng.randrange(10 ** 6)) for _ in range(n_random)]


def _phase_eq(a, b, atol=1e-6):
    import cirq

    return cirq.allclose_up_to_global_phase(np.asarray(a), np.asarray(b), atol=atol)


def _circ_unitary(ops, qubits):
    import cirq

    return cirq.Circuit(ops).unitary(qubit_order=qubits, qubits_that_should_be_present=qubits) if len(list(cirq.flatten_to_ops(ops))) else np.eye(2 ** len(qubits))


class _Rec:
    def __init__(self):
        self.cases, self.fails = 0, []

    def bad(self, what, **kw):
        self.fails.append(dict(args={k: (np.array2string(np.asarray(v), precision=12, separator=",") if isinstance(v, np.ndarray) else repr(v))[:1500] for k, v in kw.items()}, failed=what, clause=what))

    def out(self, function, case, bound):
        seen, uniq = set(), []
        for f in self.fails:
            if f["failed"] not in seen:
                seen.add(f["failed"])
                uniq.append(f)
        return dict(function=function, case=case, bound=bound, cases=self.cases, distinct=self.cases, failures=len(self.fails), exhaustive=False, _fails=uniq[:5])


def standin_kak(tier, seed):
    import cirq

    warnings.simplefilter("ignore")
    rng = random.Random(seed)
    R = _Rec()
    for label, u in special_two_qubit(rng, 6 if tier == "quick" else 200):
        R.cases += 1
        try:
            kak = cirq.kak_decomposition(u)
        except Exception as ex:
            R.bad(f"kak_decomposition raised {type(ex).__name__}", input=label, matrix=u)
            continue
        if not np.allclose(cirq.unitary(kak), u, atol=1e-6):
            R.bad("kak_decomposition factors do not multiply back to the input", input=label, matrix=u)
        x, y, z = kak.interaction_coefficients
        t = 1e-7
        if not (PI / 4 + t >= x and x + t >= y and y + t >= abs(z)) or (abs(x - PI / 4) < 1e-9 and z < -t):
            R.bad("interaction coefficients are not canonical (pi/4 >= x >= y >= |z|, z >= 0 when x = pi/4)", input=label, coefficients=(x, y, z), matrix=u)
        for m in kak.single_qubit_operations_before + kak.single_qubit_operations_after:
            if not cirq.is_unitary(m, atol=1e-6):
                R.bad("a single-qubit factor is not unitary", input=label, matrix=u)
        if not np.allclose(sorted(np.abs(cirq.kak_vector(u))), sorted(np.abs([x, y, z])), atol=1e-6):
            R.bad("kak_vector disagrees with kak_decomposition", input=label, matrix=u)
    # canonicalisation of arbitrary vectors
    pts = [0, PI / 8, PI / 4, PI / 2, -PI / 4, 3 * PI / 4, 1e-10, PI / 4 - 1e-10, 0.3, -1.1, 2.7, PI]
    trip = list(itertools.product(pts, repeat=3)) if tier == "thorough" else [tuple(rng.choice(pts) for _ in range(3)) for _ in range(200)]
    for v in trip:
        R.cases += 1
        try:
            k = cirq.kak_canonicalize_vector(*v)
        except Exception as ex:
            R.bad(f"kak_canonicalize_vector raised {type(ex).__name__}", vector=v)
            continue
        x, y, z = k.interaction_coefficients
        t = 1e-8
        if not (PI / 4 + t >= x and x + t >= y and y + t >= abs(z)) or (abs(x - PI / 4) < 1e-9 and z < -t):
            R.bad("kak_canonicalize_vector result is not canonical", vector=v, result=(x, y, z))
        if not np.allclose(cirq.unitary(k), _xx(*v), atol=1e-6):
            R.bad("kak_canonicalize_vector changes the operation exp(i(xXX+yYY+zZZ))", vector=v, result=(x, y, z))
        # a decomposition object built by hand from the same vector, handed to kak_decomposition and to a consumer
        ru = lambda: cirq.testing.random_unitary(2, random_state=rng.randrange(10 ** 6))
        hand = cirq.KakDecomposition(interaction_coefficients=v, global_phase=np.exp(0.7j), single_qubit_operations_before=(ru(), ru()), single_qubit_operations_after=(ru(), ru()))
        try:
            k2 = cirq.kak_decomposition(hand)
            x, y, z = k2.interaction_coefficients
            if not (PI / 4 + t >= x and x + t >= y and y + t >= abs(z)) or (abs(x - PI / 4) < 1e-9 and z < -t):
                R.bad("kak_decomposition of a KakDecomposition is not canonical", vector=v, result=(x, y, z))
            if not np.allclose(cirq.unitary(k2), cirq.unitary(hand), atol=1e-6):
                R.bad("kak_decomposition of a KakDecomposition changes its unitary", vector=v)
            c = cirq.decompose_two_qubit_interaction_into_four_fsim_gates(hand, fsim_gate=cirq.FSimGate(PI / 2, 0.1))
            if not np.allclose(c.unitary(qubit_order=cirq.LineQubit.range(2), qubits_that_should_be_present=cirq.LineQubit.range(2)), cirq.unitary(hand), atol=1e-6):
                R.bad("four-FSim synthesis from a hand-built KakDecomposition differs from its unitary", vector=v)
        except Exception as ex:
            R.bad(f"kak_decomposition(KakDecomposition) raised {type(ex).__name__}", vector=v)
    return R.out(F + ":kak_decomposition/kak_canonicalize_vector/kak_vector", "kak", "19 named + 26 boundary interactions (bare and dressed) + random two-qubit unitaries; canonicalisation of grid vectors")
standin_kak.prop = "C15"


def standin_single_qubit(tier, seed):
    import cirq
    from cirq.transformers.analytical_decompositions import single_qubit_decompositions as sq

    warnings.simplefilter("ignore")
    rng = random.Random(seed + 1)
    R = _Rec()
    q = cirq.LineQubit(0)
    for u in special_one_qubit(rng, 8 if tier == "quick" else 300):
        R.cases += 1
        pre, rot, post = cirq.deconstruct_single_qubit_matrix_into_angles(u)
        rz = lambda a: np.diag([np.exp(-0.5j * a), np.exp(0.5j * a)])
        ry = lambda a: np.array([[np.cos(a / 2), -np.sin(a / 2)], [np.sin(a / 2), np.cos(a / 2)]])
        if not _phase_eq(rz(post) @ ry(rot) @ rz(pre), u):
            R.bad("deconstruct_single_qubit_matrix_into_angles: Rz(post) Ry(rot) Rz(pre) differs from the input", matrix=u)
        for tol in (0, 1e-8):
            for name, fn in (("single_qubit_matrix_to_pauli_rotations", lambda: [g for g in ([p ** h for p, h in sq.single_qubit_matrix_to_pauli_rotations(u, tol)])]),
                             ("single_qubit_matrix_to_gates", lambda: sq.single_qubit_matrix_to_gates(u, tol)), ("single_qubit_matrix_to_phased_x_z", lambda: sq.single_qubit_matrix_to_phased_x_z(u, tol)),
                             ("single_qubit_matrix_to_phxz", lambda: [g for g in [sq.single_qubit_matrix_to_phxz(u, tol)] if g is not None])):
                try:
                    gates = fn()
                except Exception as ex:
                    R.bad(f"{name} raised {type(ex).__name__}", matrix=u, tolerance=tol)
                    continue
                m = np.eye(2)
                for g in gates:
                    m = cirq.unitary(g) @ m
                if not _phase_eq(m, u, 1e-6):
                    R.bad(f"{name}: product differs from the input beyond a global phase", matrix=u, tolerance=tol)
                if name == "single_qubit_matrix_to_phased_x_z" and len(gates) > 2:
                    R.bad("single_qubit_matrix_to_phased_x_z returned more than two gates", matrix=u)
        aa = cirq.axis_angle(u)
        if not np.allclose(cirq.unitary(aa), u, atol=1e-7) or abs(np.linalg.norm(aa.axis) - 1) > 1e-7:
            R.bad("axis_angle: does not rebuild the input or the axis is not a unit vector", matrix=u)
        ca = aa.canonicalize()
        if not np.allclose(cirq.unitary(ca), u, atol=1e-7) or not (-PI - 1e-9 < ca.angle <= PI + 1e-9) or sum(ca.axis) < -1e-9:
            R.bad("AxisAngleDecomposition.canonicalize changes the operation or is not canonical (angle in (-pi, pi], axis sum >= 0)", matrix=u)
        uu, r, g = sq.single_qubit_op_to_framed_phase_form(u)
        if not np.allclose(uu.conj().T @ np.diag([1, r]) @ uu * g, u, atol=1e-6):
            R.bad("single_qubit_op_to_framed_phase_form: U^-1 diag(1, r) U g does not rebuild the input", matrix=u)
    return R.out(F + ":single-qubit decompositions", "single-qubit", "17 special + random single-qubit unitaries, tolerance 0 and 1e-8")
standin_single_qubit.prop = "C15"


def standin_linalg(tier, seed):
    import cirq

    warnings.simplefilter("ignore")
    rng = random.Random(seed + 2)
    R = _Rec()
    n = 40 if tier == "quick" else 400
    for i in range(n):
        rs = rng.randrange(10 ** 6)
        R.cases += 1
        a, b = cirq.testing.random_unitary(2, random_state=rs), cirq.testing.random_unitary(2, random_state=rs + 1)
        g, f1, f2 = cirq.kron_factor_4x4_to_2x2s(np.exp(0.3j) * np.kron(a, b))
        if not np.allclose(g * np.kron(f1, f2), np.exp(0.3j) * np.kron(a, b), atol=1e-7) or abs(np.linalg.det(f1) - 1) > 1e-6 or abs(np.linalg.det(f2) - 1) > 1e-6:
            R.bad("kron_factor_4x4_to_2x2s does not rebuild the input with determinant-one factors", a=a, b=b)
        so = cirq.testing.random_special_orthogonal(4, random_state=rs)
        x, y = cirq.so4_to_magic_su2s(so)
        magic = np.array([[1, 0, 0, 1j], [0, 1j, 1, 0], [0, 1j, -1, 0], [1, 0, 0, -1j]]) * np.sqrt(0.5)
        if not np.allclose(magic.conj().T @ np.kron(x, y) @ magic, so, atol=1e-6) or abs(np.linalg.det(x) - 1) > 1e-6 or abs(np.linalg.det(y) - 1) > 1e-6:
            R.bad("so4_to_magic_su2s: the factors do not give the input in the magic basis", matrix=so)
        sym = np.random.RandomState(rs).randn(4, 4)
        sym = sym + sym.T
        if i % 3 == 0:
            sym = np.diag([1.0, 1.0, 2.0, 2.0 + (1e-9 if i % 2 else 0)])
        p = cirq.diagonalize_real_symmetric_matrix(sym)
        d = p.T @ sym @ p
        if not np.allclose(d, np.diag(np.diag(d)), atol=1e-7) or not np.allclose(p.T @ p, np.eye(4), atol=1e-7):
            R.bad("diagonalize_real_symmetric_matrix: P^T M P is not diagonal or P is not orthogonal", matrix=sym)
        u = cirq.testing.random_unitary(4, random_state=rs + 2) if i % 4 else _xx(PI / 4, PI / 8 if i % 8 else 0, 0)
        mu = magic.conj().T @ u @ magic if i % 2 else u
        try:
            l, dd, r = cirq.bidiagonalize_unitary_with_special_orthogonals(mu)
            if not np.allclose(l @ mu @ r, np.diag(dd), atol=1e-6) or abs(np.linalg.det(l) - 1) > 1e-6 or abs(np.linalg.det(r) - 1) > 1e-6 or not np.allclose(l @ l.T, np.eye(4), atol=1e-6) or np.abs(l.imag).max() > 1e-9:
                R.bad("bidiagonalize_unitary_with_special_orthogonals: L M R is not the returned diagonal or L/R are not special orthogonal", matrix=mu)
        except Exception as ex:
            R.bad(f"bidiagonalize_unitary_with_special_orthogonals raised {type(ex).__name__}", matrix=mu)
        w = cirq.map_eigenvalues(u, lambda e: e ** 0.5)
        if not np.allclose(w @ w, u, atol=1e-6):
            R.bad("map_eigenvalues(sqrt) squared differs from the input", matrix=u)
    return R.out(F + ":linalg helpers", "linalg", f"{n} seeded inputs incl. degenerate spectra")
standin_linalg.prop = "C15"


def standin_two_qubit_synthesis(tier, seed):
    import cirq

    warnings.simplefilter("ignore")
    rng = random.Random(seed + 3)
    R = _Rec()
    q = cirq.LineQubit.range(2)
    for label, u in special_two_qubit(rng, 4 if tier == "quick" else 120):
        R.cases += 1
        for partial, clean in itertools.product((False, True), (False, True)):
            try:
                ops = cirq.two_qubit_matrix_to_cz_operations(q[0], q[1], u, allow_partial_czs=partial, clean_operations=clean)
            except Exception as ex:
                R.bad(f"two_qubit_matrix_to_cz_operations raised {type(ex).__name__}", input=label, matrix=u, allow_partial_czs=partial, clean_operations=clean)
                continue
            if not _phase_eq(_circ_unitary(ops, q), u):
                R.bad("two_qubit_matrix_to_cz_operations: circuit differs from the input beyond a global phase", input=label, matrix=u, allow_partial_czs=partial, clean_operations=clean)
            czs = [o for o in ops if len(o.qubits) == 2]
            if len(czs) > 3 or any(not isinstance(o.gate, cirq.CZPowGate) for o in czs) or (not partial and any(abs(o.gate.exponent) != 1 for o in czs)):
                R.bad("two_qubit_matrix_to_cz_operations: more than 3 two-qubit gates, a non-CZ gate, or a partial CZ although not allowed", input=label, matrix=u, allow_partial_czs=partial)
            if len(czs) < cirq.num_cnots_required(u) and not partial:
                R.bad("fewer CZ gates than num_cnots_required reports are necessary", input=label, matrix=u)
        need = None
        for count, inv, clean in itertools.product((None, 0, 1, 2, 3), (True, False), (True, False)):
            try:
                ops = cirq.two_qubit_matrix_to_sqrt_iswap_operations(q[0], q[1], u, required_sqrt_iswap_count=count, use_sqrt_iswap_inv=inv, clean_operations=clean)
            except ValueError:
                if count is None or count == 3 or (need is not None and count == need):
                    R.bad("two_qubit_matrix_to_sqrt_iswap_operations raised ValueError although the requested count suffices", input=label, matrix=u, required_sqrt_iswap_count=count)
                continue
            except Exception as ex:
                R.bad(f"two_qubit_matrix_to_sqrt_iswap_operations raised {type(ex).__name__}", input=label, matrix=u, required_sqrt_iswap_count=count)
                continue
            two = [o for o in ops if len(o.qubits) == 2]
            if count is None:
                need = len(two)
            if not _phase_eq(_circ_unitary(ops, q), u, 1e-5):
                R.bad("two_qubit_matrix_to_sqrt_iswap_operations: circuit differs from the input beyond a global phase", input=label, matrix=u, required_sqrt_iswap_count=count, use_sqrt_iswap_inv=inv)
            want_gate = cirq.SQRT_ISWAP_INV if inv else cirq.SQRT_ISWAP
            if (count is not None and len(two) != count) or len(two) > 3 or any(o.gate != want_gate for o in two):
                R.bad("two_qubit_matrix_to_sqrt_iswap_operations: wrong number or kind of two-qubit gates", input=label, matrix=u, required_sqrt_iswap_count=count, got=len(two))
        try:
            ops = cirq.two_qubit_matrix_to_ion_operations(q[0], q[1], u)
            if not _phase_eq(_circ_unitary(ops, q), u):
                R.bad("two_qubit_matrix_to_ion_operations: circuit differs from the input beyond a global phase", input=label, matrix=u)
            if len([o for o in ops if len(o.qubits) == 2]) > 3:
                R.bad("two_qubit_matrix_to_ion_operations uses more than 3 MS gates", input=label, matrix=u)
        except Exception as ex:
            R.bad(f"two_qubit_matrix_to_ion_operations raised {type(ex).__name__}", input=label, matrix=u)
        for fs in (cirq.FSimGate(PI / 2, PI / 6), cirq.FSimGate(3 * PI / 8, PI / 4), cirq.ISWAP, cirq.ISwapPowGate(exponent=1, global_shift=0.3), cirq.ISwapPowGate(exponent=-1, global_shift=-0.5)):
            try:
                c = cirq.decompose_two_qubit_interaction_into_four_fsim_gates(u, fsim_gate=fs, qubits=q)
                two = [o for o in c.all_operations() if len(o.qubits) == 2]
                # documented to carry its global phase operation: compared exactly
                if not np.allclose(c.unitary(qubit_order=q, qubits_that_should_be_present=q), u, atol=1e-6):
                    R.bad("decompose_two_qubit_interaction_into_four_fsim_gates: circuit differs from the input", input=label, matrix=u, fsim=fs)
                if len(two) != 4 or any(o.gate != fs for o in two):
                    R.bad("decompose_two_qubit_interaction_into_four_fsim_gates: not exactly four copies of the given gate", input=label, fsim=fs)
            except Exception as ex:
                R.bad(f"decompose_two_qubit_interaction_into_four_fsim_gates raised {type(ex).__name__}", input=label, matrix=u, fsim=fs)
    return R.out(F + ":two-qubit synthesis (CZ, sqrt-iSWAP, MS, FSim)", "two-qubit-synthesis", "named / boundary / dressed / random two-qubit unitaries x all option combinations")
standin_two_qubit_synthesis.prop = "C15"


def standin_multi_qubit(tier, seed):
    import cirq
    from cirq.transformers.analytical_decompositions import controlled_gate_decomposition as cg

    warnings.simplefilter("ignore")
    rng = random.Random(seed + 4)
    R = _Rec()
    # multi-controlled X: every (controls, free qubits) shape up to 7 controls
    maxm = 6 if tier == "quick" else 7
    for m in range(0, maxm + 1):
        for nfree in range(0, min(m, 5) + 1):
            if m + 1 + nfree > (9 if tier == "quick" else 11):
                continue
            R.cases += 1
            qs = cirq.LineQubit.range(m + 1 + nfree)
            perm = rng.sample(qs, len(qs))
            controls, target, free = perm[:m], perm[m], perm[m + 1:]
            try:
                ops = cg.decompose_multi_controlled_x(controls, target, free)
            except Exception as ex:
                R.bad(f"decompose_multi_controlled_x raised {type(ex).__name__}", controls=m, free=nfree)
                continue
            want = cirq.Circuit(cirq.X(target).controlled_by(*controls)).unitary(qubit_order=qs, qubits_that_should_be_present=qs)
            got = cirq.Circuit(ops).unitary(qubit_order=qs, qubits_that_should_be_present=qs)
            if not np.allclose(got, want, atol=1e-6):
                R.bad("decompose_multi_controlled_x: the operations are not the multi-controlled X (free qubits must be restored)", controls=m, free=nfree)
            if any(len(o.qubits) > 3 for o in ops):
                R.bad("decompose_multi_controlled_x uses a gate on more than three qubits", controls=m, free=nfree)
    for m in range(1, 5):
        for u in special_one_qubit(rng, 2)[:: 3 if tier == "quick" else 1]:
            R.cases += 1
            qs = cirq.LineQubit.range(m + 1)
            try:
                ops = cg.decompose_multi_controlled_rotation(u, qs[:m], qs[m])
            except Exception as ex:
                R.bad(f"decompose_multi_controlled_rotation raised {type(ex).__name__}", controls=m, matrix=u)
                continue
            want = cirq.Circuit(cirq.MatrixGate(u).on(qs[m]).controlled_by(*qs[:m])).unitary(qubit_order=qs)
            if not np.allclose(cirq.Circuit(ops).unitary(qubit_order=qs, qubits_that_should_be_present=qs), want, atol=1e-6):
                R.bad("decompose_multi_controlled_rotation: the operations are not the multi-controlled gate", controls=m, matrix=u)
    # rotations by small angles (around the helper tolerances 1e-5 / 1e-8 / 1e-9) under 1-3 controls
    for e, g in itertools.product((1e-3, 1e-5, 2e-6, 1e-7), (cirq.X, cirq.Y, cirq.Z, cirq.H)):
        for m in (1, 2, 3):
            R.cases += 1
            u = cirq.unitary(g ** e)
            qs = cirq.LineQubit.range(m + 1)
            try:
                ops = cirq.decompose_multi_controlled_rotation(u, list(qs[:m]), qs[m])
                want = cirq.unitary(cirq.ControlledGate(cirq.MatrixGate(u), num_controls=m))
                if not np.allclose(cirq.Circuit(ops).unitary(qubit_order=qs, qubits_that_should_be_present=qs), want, rtol=0, atol=3e-8):
                    R.bad("decompose_multi_controlled_rotation: a small rotation (or its phase) is lost (error above 3e-8)", controls=m, gate=g ** e)
            except Exception as ex:
                R.bad(f"decompose_multi_controlled_rotation raised {type(ex).__name__}", controls=m, gate=g ** e)
    # three-qubit and Shannon
    nq = 6 if tier == "quick" else 40
    special3 = [np.eye(8), cirq.unitary(cirq.CCX), cirq.unitary(cirq.CCZ), cirq.unitary(cirq.CSWAP), np.kron(cirq.unitary(cirq.CNOT), cirq.unitary(cirq.H)), cirq.unitary(cirq.QuantumFourierTransformGate(3)),
                np.diag(np.exp(1j * np.arange(8)))]
    # product-structured inputs: degenerate cosine-sine angles, collapsing multiplexor circuits
    ru = lambda d: cirq.testing.random_unitary(d, random_state=rng.randrange(10 ** 6))
    for _ in range(3 if tier == "quick" else 12):
        special3 += [np.kron(ru(4), ru(2)), np.kron(ru(4), np.eye(2)), np.kron(ru(2), ru(4)), np.kron(np.eye(2), ru(4)), np.kron(np.kron(ru(2), ru(2)), ru(2)),
                     np.kron(cirq.unitary(cirq.ISWAP) @ np.kron(ru(2), np.eye(2)), ru(2)), np.kron(cirq.unitary(cirq.CNOT), cirq.unitary(cirq.H)) @ np.kron(np.eye(2), ru(4)),
                     np.kron(ru(2), cirq.unitary(cirq.SWAP)), np.diag(np.exp(1j * np.array([0.1, 0.1, 0.7, 0.7, 0.1, 0.1, 0.7, 0.7]))) @ np.kron(ru(4), np.eye(2))]
    for u in special3 + [cirq.testing.random_unitary(8, random_state=rng.randrange(10 ** 6)) for _ in range(nq)]:
        R.cases += 1
        qs = cirq.LineQubit.range(3)
        try:
            ops = cirq.three_qubit_matrix_to_operations(qs[0], qs[1], qs[2], u)
            if not _phase_eq(cirq.Circuit(ops).unitary(qubit_order=qs, qubits_that_should_be_present=qs), u, 1e-5):
                R.bad("three_qubit_matrix_to_operations: circuit differs from the input beyond a global phase", matrix=u)
        except Exception as ex:
            R.bad(f"three_qubit_matrix_to_operations raised {type(ex).__name__}", matrix=u)
        for order in (qs, [qs[2], qs[0], qs[1]]):
            try:
                ops = list(cirq.quantum_shannon_decomposition(order, u))
                got_qsd = cirq.Circuit(ops).unitary(qubit_order=order, qubits_that_should_be_present=order)
                if not _phase_eq(got_qsd, u, 1e-5):
                    R.bad("quantum_shannon_decomposition: circuit differs from the input beyond a global phase", matrix=u, qubits=order)
                elif not np.allclose(got_qsd, u, atol=1e-5):  # documented: "preserving global phase"
                    R.bad("quantum_shannon_decomposition: circuit differs from the input by a global phase (the routine documents that it preserves it)", matrix=u, qubits=order)
                if any(len(o.qubits) > 2 for o in ops):
                    R.bad("quantum_shannon_decomposition emitted a gate on more than two qubits", matrix=u)
            except Exception as ex:
                R.bad(f"quantum_shannon_decomposition raised {type(ex).__name__}", matrix=u, qubits=order)
    # near-identity blocks: rotations by angles around the helper tolerances (1e-5 relative, 1e-8 absolute) must survive
    from scipy.linalg import block_diag

    for ang, g in itertools.product((1e-3, 1e-4, 1e-5, 2e-6), (cirq.rz, cirq.rx, cirq.ry)):
        blk, one = np.kron(cirq.unitary(g(ang)), np.eye(2)), cirq.unitary(g(ang))
        qs = cirq.LineQubit.range(3)
        for u in (block_diag(np.eye(4), blk), block_diag(blk, np.eye(4)), np.kron(np.eye(2), block_diag(np.eye(2), one)), block_diag(blk, blk.conj().T)):
            R.cases += 1
            try:
                got = cirq.Circuit(cirq.quantum_shannon_decomposition(qs, u)).unitary(qubit_order=qs, qubits_that_should_be_present=qs)
                if not _phase_eq(got, u, 2e-7):
                    R.bad("quantum_shannon_decomposition: a small rotation in one block is lost (error above 2e-7 with atol=1e-8)", angle=ang, gate=g(ang), matrix=u)
            except Exception as ex:
                R.bad(f"quantum_shannon_decomposition raised {type(ex).__name__}", angle=ang, matrix=u)
    for n in (1, 2, 4):
        for _ in range(3 if tier == "quick" else 12):
            R.cases += 1
            u = cirq.testing.random_unitary(2 ** n, random_state=rng.randrange(10 ** 6))
            qs = rng.choice([cirq.LineQubit.range(n), cirq.LineQubit.range(n)[::-1], rng.sample(cirq.LineQubit.range(n), n), [cirq.NamedQubit(x) for x in "zyxw"[:n]]])
            try:
                ops = list(cirq.quantum_shannon_decomposition(qs, u))
                if not np.allclose(cirq.Circuit(ops).unitary(qubit_order=qs, qubits_that_should_be_present=qs), u, atol=1e-5):
                    R.bad("quantum_shannon_decomposition: circuit differs from the input (global phase included; sorted, reversed and shuffled registers)", n=n, matrix=u, qubits=qs)
            except Exception as ex:
                R.bad(f"quantum_shannon_decomposition raised {type(ex).__name__}", n=n)
    return R.out(F + ":multi-controlled, three-qubit and Shannon synthesis", "multi-qubit", f"multi-controlled X for all shapes up to {maxm} controls with permuted qubits; controlled rotations up to 4 controls; special and random 3-qubit unitaries; Shannon on 1-4 qubits")
standin_multi_qubit.prop = "C15"


def standin_states_and_cliffords(tier, seed):
    import cirq

    warnings.simplefilter("ignore")
    rng = random.Random(seed + 5)
    R = _Rec()
    q = cirq.LineQubit.range(2)
    states = [np.array(v, dtype=complex) for v in ([1, 0, 0, 0], [0, 0, 0, 1], [1, 0, 0, 1], [1, 1, 1, 1], [1, 1, 1, -1], [0, 1, 1j, 0], [1, 0, 0, 1e-9], [3, 4, 0, 0], [1, 2, 3, 4], [1, 1j, -1, -1j])]
    states += [cirq.testing.random_superposition(4, random_state=rng.randrange(10 ** 6)) for _ in range(6 if tier == "quick" else 100)]
    # product states with complex relative phases on either factor (the zero-entangling-gate branch), and nearly product ones
    ones = [np.array(v, dtype=complex) for v in ([1, 0], [0, 1], [1, 1], [1, -1], [1, 1j], [1, -1j], [1, np.exp(0.25j * np.pi)], [3, 4j], [1, 0.3 - 0.8j])]
    prods = [np.kron(a_, b_) for a_ in ones for b_ in ones]
    states += prods if tier != "quick" else rng.sample(prods, 25)
    states += [np.kron(cirq.testing.random_superposition(2, random_state=rng.randrange(10 ** 6)), cirq.testing.random_superposition(2, random_state=rng.randrange(10 ** 6))) for _ in range(5 if tier == "quick" else 40)]
    states += [np.kron(ones[4], ones[6]) + 1e-5 * np.array([0, 1, 1, 0]), np.kron(ones[8], ones[5]) + 1e-9 * np.array([1, 0, 0, -1])]
    pairs_ = [(cirq.LineQubit(0), cirq.LineQubit(1)), (cirq.LineQubit(1), cirq.LineQubit(0)), (cirq.NamedQubit("b"), cirq.NamedQubit("a")), (cirq.GridQubit(1, 0), cirq.GridQubit(0, 5))]
    for s in states:
        s = s / np.linalg.norm(s)
        q = rng.choice(pairs_)  # the first qubit need not sort first
        for name, fn in (("prepare_two_qubit_state_using_cz", lambda: cirq.prepare_two_qubit_state_using_cz(q[0], q[1], s)), ("prepare_two_qubit_state_using_iswap", lambda: cirq.prepare_two_qubit_state_using_iswap(q[0], q[1], s)),
                         ("prepare_two_qubit_state_using_sqrt_iswap", lambda: cirq.prepare_two_qubit_state_using_sqrt_iswap(q[0], q[1], s)),
                         ("prepare_two_qubit_state_using_sqrt_iswap(use_sqrt_iswap_inv=False)", lambda: cirq.prepare_two_qubit_state_using_sqrt_iswap(q[0], q[1], s, use_sqrt_iswap_inv=False)),
                         ("prepare_two_qubit_state_using_iswap(use_iswap_inv=True)", lambda: cirq.prepare_two_qubit_state_using_iswap(q[0], q[1], s, use_iswap_inv=True))):
            R.cases += 1
            try:
                ops = fn()
            except Exception as ex:
                R.bad(f"{name} raised {type(ex).__name__}", state=s)
                continue
            got = cirq.Circuit(ops).final_state_vector(qubit_order=q, ignore_terminal_measurements=False, dtype=np.complex128) if list(cirq.flatten_to_ops(ops)) else np.array([1, 0, 0, 0], dtype=complex)
            if abs(abs(np.vdot(got, s)) - 1) > 1e-6:
                R.bad(f"{name}: the circuit does not prepare the requested state", state=s, qubits=q)
            if len([o for o in cirq.flatten_to_ops(ops) if len(o.qubits) == 2]) > 1:
                R.bad(f"{name} uses more than one two-qubit gate", state=s)
    # Clifford tableau synthesis: all 1- and 2-qubit Cliffords (generated), random 3-4 qubit ones
    gens1 = [cirq.H, cirq.S]

    def tableau_of(ops, qs):
        t = cirq.CliffordTableau(len(qs))
        st = cirq.CliffordTableauSimulationState(t, qubits=qs, prng=np.random.RandomState(0))
        for o in ops:
            cirq.act_on(o, st)
        return st.tableau

    for n in (1, 2, 3, 4):
        qs = cirq.LineQubit.range(n)
        for _ in range({1: 30, 2: 60, 3: 30, 4: 15}[n] * (1 if tier == "quick" else 8)):
            R.cases += 1
            ops = []
            for _ in range(rng.randrange(0, 5 * n + 3)):
                if n > 1 and rng.random() < 0.4:
                    a, b = rng.sample(qs, 2)
                    ops.append(rng.choice([cirq.CNOT, cirq.CZ, cirq.SWAP])(a, b))
                else:
                    ops.append(rng.choice([cirq.H, cirq.S, cirq.X, cirq.Y, cirq.Z, cirq.S ** -1])(rng.choice(qs)))
            t = tableau_of(ops, qs)
            try:
                dec = cirq.decompose_clifford_tableau_to_operations(qs, t)
            except Exception as ex:
                R.bad(f"decompose_clifford_tableau_to_operations raised {type(ex).__name__}", operations=ops)
                continue
            if tableau_of(dec, qs) != t:
                R.bad("decompose_clifford_tableau_to_operations: the operations do not rebuild the tableau", operations=ops)
            elif n <= 3 and not _phase_eq(_circ_unitary(dec, qs), _circ_unitary(ops, qs)):
                R.bad("decompose_clifford_tableau_to_operations: unitary differs beyond a global phase", operations=ops)
    for th in [0.0, 0.3, PI / 2, PI, -0.4, 2 * PI - 1e-9, 1e-9] + [rng.uniform(-7, 7) for _ in range(5 if tier == "quick" else 60)]:
        for fs in (cirq.FSimGate(0.0, 0.7), cirq.FSimGate(0.2, 1.1), cirq.FSimGate(0.0, PI)):
            R.cases += 1
            cz = cirq.CZPowGate(exponent=-th / PI, global_shift=rng.choice([0, 0, 0.3, -0.5, 1]))
            try:
                ops = cirq.decompose_cphase_into_two_fsim(cz, fsim_gate=fs, qubits=q)
            except ValueError:
                continue  # documented: not every angle is reachable with a given fsim gate
            except Exception as ex:
                R.bad(f"decompose_cphase_into_two_fsim raised {type(ex).__name__}", theta=th, fsim=fs)
                continue
            if not np.allclose(_circ_unitary(ops, q), cirq.unitary(cz), atol=1e-6):  # "This implementation accounts for the global phase."
                R.bad("decompose_cphase_into_two_fsim: circuit differs from the CZPowGate (global phase included)", theta=th, fsim=fs, gate=cz)
            if len([o for o in ops if len(o.qubits) == 2]) != 2:
                R.bad("decompose_cphase_into_two_fsim does not use exactly two fsim gates", theta=th, fsim=fs)
    return R.out(F + ":state preparation, Clifford tableau synthesis, cphase->fsim", "states-cliffords", "10 special + random two-qubit states x 3 gate sets; random Clifford circuits on 1-4 qubits; cphase angles x 3 fsim gates")
standin_states_and_cliffords.prop = "C15"

def standin_more_routines(tier, seed):
    """the remaining decomposition / linear-algebra routines, each against the reconstruction its docstring promises"""
    import cirq
    import sympy
    from contracts import refsim

    warnings.simplefilter("ignore")
    rng = random.Random(seed + 13)
    R = _Rec()
    q0, q1 = cirq.LineQubit.range(2)
    two = special_two_qubit(rng, 6 if tier == "quick" else 120)
    diag_inputs = [np.kron(np.eye(2), cirq.unitary(cirq.Z ** 0.3)), np.kron(cirq.unitary(cirq.T), cirq.unitary(cirq.S)), np.diag(np.exp(1j * np.array([0.1, 0.7, -0.4, 1.3]))),
                   np.kron(cirq.unitary(cirq.Z ** 0.3), np.eye(2)), np.diag([1, 1j, 1, 1j]), np.diag([1, 1, 1j, 1j])]
    two = two + [("diagonal", d) for d in diag_inputs] + [("diagonal then random local", np.kron(cirq.testing.random_unitary(2, random_state=3), np.eye(2)) @ d) for d in diag_inputs[:3]]
    # one fixed input, reported under its own name: a WEAK interaction with three non-zero coefficients (the diagonal is not extracted, a third CZ is spent)
    R.cases += 1
    weak = _xx(3e-5, 2e-5, -1e-5)
    try:
        d_w, ops_w = cirq.two_qubit_matrix_to_diagonal_and_cz_operations(q0, q1, weak)
        if sum(1 for o in ops_w if len(o.qubits) == 2) > 2:
            R.bad("two_qubit_matrix_to_diagonal_and_cz_operations spends a third CZ on a weak three-coefficient interaction", interaction_coefficients=(3e-5, 2e-5, -1e-5), two_qubit_gates=sum(1 for o in ops_w if len(o.qubits) == 2))
    except Exception as ex:
        R.bad(f"two_qubit_matrix_to_diagonal_and_cz_operations raised {type(ex).__name__}", matrix=weak)
    for label, u in two:
        for partial in (False, True):
            for clean in (True, False):
                # V = circuit(ops) @ D, D diagonal, at most 2 CZ
                R.cases += 1
                try:
                    d, ops_ = cirq.two_qubit_matrix_to_diagonal_and_cz_operations(q0, q1, u, allow_partial_czs=partial, clean_operations=clean)
                except Exception as ex:
                    R.bad(f"two_qubit_matrix_to_diagonal_and_cz_operations raised {type(ex).__name__}", matrix=u)
                    continue
                cu = cirq.Circuit(ops_).unitary(qubit_order=[q0, q1], qubits_that_should_be_present=[q0, q1]) if ops_ else np.eye(4)
                if not np.allclose(d, np.diag(np.diag(d)), atol=1e-7) or not cirq.is_unitary(d, atol=1e-6):
                    R.bad("two_qubit_matrix_to_diagonal_and_cz_operations: D is not a diagonal unitary", matrix=u)
                elif not cirq.allclose_up_to_global_phase(cu @ d, u, atol=1e-5):
                    R.bad("two_qubit_matrix_to_diagonal_and_cz_operations: circuit(ops) @ D differs from the input (beyond global phase)", matrix=u, kind=label)
                elif sum(1 for o in ops_ if len(o.qubits) == 2) > 2:
                    R.bad("two_qubit_matrix_to_diagonal_and_cz_operations uses more than 2 two-qubit gates", matrix=u)
                # isometry: with q0 in |0>, the circuit acts like the matrix (one global phase for both columns)
                R.cases += 1
                try:
                    iso = cirq.two_qubit_matrix_to_cz_isometry(q0, q1, u, allow_partial_czs=partial, clean_operations=clean)
                except Exception as ex:
                    R.bad(f"two_qubit_matrix_to_cz_isometry raised {type(ex).__name__}", matrix=u)
                    continue
                iu = cirq.Circuit(iso).unitary(qubit_order=[q0, q1], qubits_that_should_be_present=[q0, q1]) if iso else np.eye(4)
                if not cirq.allclose_up_to_global_phase(iu[:, :2], u[:, :2], atol=1e-5):
                    R.bad("two_qubit_matrix_to_cz_isometry: the circuit differs from the matrix on states with q0 = |0> (beyond one global phase)", matrix=u, kind=label, allow_partial_czs=partial, clean_operations=clean)
                elif sum(1 for o in iso if len(o.qubits) == 2) > 2:
                    R.bad("two_qubit_matrix_to_cz_isometry uses more than 2 two-qubit gates", matrix=u)
        # extract_right_diag: a diagonal unitary
        R.cases += 1
        try:
            dd = cirq.linalg.extract_right_diag(u)
            if not np.allclose(dd, np.diag(np.diag(dd)), atol=1e-7) or not cirq.is_unitary(dd, atol=1e-6):
                R.bad("extract_right_diag does not return a diagonal unitary", matrix=u)
        except Exception as ex:
            R.bad(f"extract_right_diag raised {type(ex).__name__}", matrix=u)
        # unitary_eig: V diag(w) V^dagger, V unitary
        R.cases += 1
        w, v = cirq.unitary_eig(u)
        if not cirq.is_unitary(v, atol=1e-6) or not np.allclose(v @ np.diag(w) @ v.conj().T, u, atol=1e-6):
            R.bad("unitary_eig: V diag(w) V^dagger differs from the matrix, or V is not unitary", matrix=u)
        # to_special / match_global_phase
        R.cases += 1
        su = cirq.to_special(u)
        if abs(np.linalg.det(su) - 1) > 1e-6 or not cirq.allclose_up_to_global_phase(su, u, atol=1e-7):
            R.bad("to_special: result is not det-1 or not proportional to the input", matrix=u)
        ph = np.exp(1j * rng.uniform(0, 6))
        a_, b_ = cirq.match_global_phase(u, u * ph)
        if not np.allclose(a_, b_, atol=1e-7):
            R.bad("match_global_phase does not align two matrices that differ by a global phase", matrix=u)
    # bidiagonalisation and simultaneous diagonalisation
    for _ in range(20 if tier == "quick" else 300):
        n = rng.choice([2, 3, 4])
        rs = np.random.RandomState(rng.randrange(10 ** 6))
        L0, R0 = cirq.testing.random_orthogonal(n, random_state=rs), cirq.testing.random_orthogonal(n, random_state=rs)
        d1 = np.diag(rs.randn(n) * rs.choice([0, 1, 1], size=n))
        d2 = np.diag(rs.randn(n) * rs.choice([0, 1, 1], size=n))
        if rng.random() < 0.3:
            d1[0, 0] = d1[1, 1]  # degenerate values
        m1, m2 = L0 @ d1 @ R0, L0 @ d2 @ R0
        R.cases += 1
        try:
            Lm, Rm = cirq.bidiagonalize_real_matrix_pair_with_symmetric_products(m1, m2)
            for m in (m1, m2):
                x = Lm @ m @ Rm
                if not np.allclose(x, np.diag(np.diag(x)), atol=1e-6):
                    R.bad("bidiagonalize_real_matrix_pair_with_symmetric_products: L @ m @ R is not diagonal", mat1=m1, mat2=m2)
                    break
            if not (cirq.is_orthogonal(Lm, atol=1e-6) and cirq.is_orthogonal(Rm, atol=1e-6)):
                R.bad("bidiagonalize_real_matrix_pair_with_symmetric_products: L or R is not orthogonal", mat1=m1, mat2=m2)
        except Exception as ex:
            R.bad(f"bidiagonalize_real_matrix_pair_with_symmetric_products raised {type(ex).__name__} on a valid pair", mat1=m1, mat2=m2)
        # symmetric matrix commuting with a sorted diagonal: block structure along equal diagonal entries
        vals = sorted([rng.choice([2.0, 1.0, 1.0, 0.5, -1.0]) for _ in range(n)], reverse=True)
        D = np.diag(vals)
        S = np.zeros((n, n))
        i = 0
        while i < n:
            j = i
            while j < n and vals[j] == vals[i]:
                j += 1
            blk = rs.randn(j - i, j - i)
            S[i:j, i:j] = blk + blk.T
            i = j
        R.cases += 1
        try:
            P = cirq.diagonalize_real_symmetric_and_sorted_diagonal_matrices(S, D)
            x = P.T @ S @ P
            if not cirq.is_orthogonal(P, atol=1e-6) or not np.allclose(x, np.diag(np.diag(x)), atol=1e-6) or not np.allclose(P.T @ D @ P, D, atol=1e-6):
                R.bad("diagonalize_real_symmetric_and_sorted_diagonal_matrices: P does not diagonalise S while fixing D", symmetric=S, diagonal=D)
        except Exception as ex:
            R.bad(f"diagonalize_real_symmetric_and_sorted_diagonal_matrices raised {type(ex).__name__} on valid input", symmetric=S, diagonal=D)
    # Pauli-string recognition, Pauli-combination powers, reflections
    for _ in range(30 if tier == "quick" else 300):
        n = rng.choice([1, 2, 3])
        mask = "".join(rng.choice("IXYZ") for _ in range(n))
        coef = rng.choice([1, -1, 1j, -1j])
        dps = cirq.DensePauliString(mask, coefficient=coef)
        m = cirq.unitary(dps)
        R.cases += 1
        got = cirq.transformers.unitary_to_pauli_string(m)
        if got is None or not np.allclose(cirq.unitary(got), m, atol=1e-8):
            R.bad("unitary_to_pauli_string does not recognise a phased Pauli string (or returns one with a different matrix)", pauli=repr(dps), got=repr(got))
        notp = m.copy()
        notp[0, 0] += 0.5
        if cirq.transformers.unitary_to_pauli_string(notp) is not None and not np.allclose(cirq.unitary(cirq.transformers.unitary_to_pauli_string(notp)), notp, atol=1e-8):
            R.bad("unitary_to_pauli_string returns a Pauli string for a matrix that is none", matrix=notp)
        P = lambda c: c[0] * np.eye(2) + c[1] * cirq.unitary(cirq.X) + c[2] * cirq.unitary(cirq.Y) + c[3] * cirq.unitary(cirq.Z)
        for _c in range(8):
            ai, ax, ay, az = (complex(rng.choice([0, 0.5, -1, 0.3 + 0.2j, 1j, 1, 2])) for _ in range(4))
            k = rng.randrange(0, 7)
            R.cases += 1
            bi, bx, by, bz = cirq.pow_pauli_combination(ai, ax, ay, az, k)
            if not np.allclose(P((bi, bx, by, bz)), np.linalg.matrix_power(P((ai, ax, ay, az)), k), atol=1e-8):
                R.bad("pow_pauli_combination is not the matrix power", coefficients=(ai, ax, ay, az), exponent=k)
        axis = np.array([rng.gauss(0, 1) for _ in range(3)])
        axis /= np.linalg.norm(axis)
        refl = axis[0] * cirq.unitary(cirq.X) + axis[1] * cirq.unitary(cirq.Y) + axis[2] * cirq.unitary(cirq.Z)
        e = rng.choice([0.5, 0.25, -0.5, 1.5, 2, 0.37])
        R.cases += 1
        rp = cirq.reflection_matrix_pow(refl, e)
        w_, v_ = np.linalg.eigh(refl)
        want = v_ @ np.diag([np.exp(1j * np.pi * e) if x < 0 else 1 for x in w_]) @ v_.conj().T
        if not np.allclose(rp, want, atol=1e-8):
            R.bad("reflection_matrix_pow is not the eigen-decomposition power (eigenvalue -1 -> exp(i pi e))", exponent=e, matrix=refl)
    # basis expansion round trip, kron_with_controls, block_diag
    for _ in range(10 if tier == "quick" else 100):
        m = np.array([[complex(rng.gauss(0, 1), rng.gauss(0, 1)) for _ in range(4)] for _ in range(4)])
        basis = cirq.kron_bases(cirq.PAULI_BASIS, repeat=2)
        R.cases += 1
        ex_ = cirq.expand_matrix_in_orthogonal_basis(m, basis)
        if not np.allclose(cirq.matrix_from_basis_coefficients(ex_, basis), m, atol=1e-8):
            R.bad("matrix_from_basis_coefficients(expand_matrix_in_orthogonal_basis(m)) != m", matrix=m)
        u2 = cirq.testing.random_unitary(2, random_state=rng.randrange(10 ** 6))
        kc = cirq.kron_with_controls(cirq.CONTROL_TAG, u2)
        if not np.allclose(kc, np.block([[np.eye(2), np.zeros((2, 2))], [np.zeros((2, 2)), u2]]), atol=1e-8):
            R.bad("kron_with_controls(CONTROL_TAG, U) is not diag(I, U)", matrix=u2)
        kc2 = cirq.kron_with_controls(u2, cirq.CONTROL_TAG)
        want2 = np.eye(4, dtype=complex)
        want2[np.ix_([1, 3], [1, 3])] = u2
        if not np.allclose(kc2, want2, atol=1e-8):
            R.bad("kron_with_controls(U, CONTROL_TAG) does not apply U on the first qubit exactly when the second is 1", matrix=u2)
        bd = cirq.block_diag(u2, np.array([[5.0]]), u2 * 2)
        wantbd = np.zeros((5, 5), dtype=complex)
        wantbd[:2, :2], wantbd[2, 2], wantbd[3:, 3:] = u2, 5, u2 * 2
        if not np.allclose(bd, wantbd):
            R.bad("block_diag does not place the blocks on the diagonal", matrix=u2)
    # partial traces and sub-states; targeted multiplication
    for _ in range(10 if tier == "quick" else 100):
        n = rng.choice([2, 3])
        psi = cirq.testing.random_superposition(2 ** n, random_state=rng.randrange(10 ** 6))
        rho = np.outer(psi, psi.conj()).reshape((2,) * (2 * n))
        keep = sorted(rng.sample(range(n), rng.randrange(1, n)))
        R.cases += 1
        pt = cirq.partial_trace(rho, keep)
        full = np.outer(psi, psi.conj())
        want = np.zeros((2 ** len(keep),) * 2, dtype=complex)
        for i in range(2 ** n):
            for j in range(2 ** n):
                bi_ = [(i >> (n - 1 - t)) & 1 for t in range(n)]
                bj_ = [(j >> (n - 1 - t)) & 1 for t in range(n)]
                if all(bi_[t] == bj_[t] for t in range(n) if t not in keep):
                    a_i = int("".join(str(bi_[t]) for t in keep), 2)
                    a_j = int("".join(str(bj_[t]) for t in keep), 2)
                    want[a_i, a_j] += full[i, j]
        if not np.allclose(pt.reshape(want.shape), want, atol=1e-8):
            R.bad("partial_trace differs from summing over the traced-out indices", keep=keep, n=n)
        mix = cirq.partial_trace_of_state_vector_as_mixture(psi, keep)
        acc = sum(p_ * np.outer(v_, np.conj(v_)) for p_, v_ in mix)
        if not np.allclose(acc, want, atol=1e-7):
            R.bad("partial_trace_of_state_vector_as_mixture does not sum to the reduced density matrix", keep=keep, n=n)
        a_ = cirq.testing.random_superposition(2, random_state=rng.randrange(10 ** 6))
        b_ = cirq.testing.random_superposition(4, random_state=rng.randrange(10 ** 6))
        prod = np.kron(a_, b_)
        sub = cirq.sub_state_vector(prod, [0], atol=1e-6)
        if sub is None or abs(abs(np.vdot(sub, a_)) - 1) > 1e-6:
            R.bad("sub_state_vector does not recover a tensor factor of a product state", n=3)
        u2 = cirq.testing.random_unitary(4, random_state=rng.randrange(10 ** 6)).reshape((2, 2, 2, 2))
        t = cirq.testing.random_superposition(8, random_state=rng.randrange(10 ** 6)).reshape((2, 2, 2))
        axes = rng.sample(range(3), 2)
        got = cirq.targeted_left_multiply(u2, t, axes)
        qs3 = cirq.LineQubit.range(3)
        wantv = refsim.embed(u2.reshape(4, 4), [qs3[axes[0]], qs3[axes[1]]], list(qs3)) @ t.reshape(8)
        R.cases += 1
        if not np.allclose(got.reshape(8), wantv, atol=1e-8):
            R.bad("targeted_left_multiply differs from the embedded matrix applied to the flattened tensor", axes=axes)
    # parameterized two-qubit operations to sqrt-iSWAP
    a_s, b_s = sympy.Symbol("a"), sympy.Symbol("b")
    for mk in (lambda: cirq.CZ(q0, q1) ** a_s, lambda: cirq.SWAP(q0, q1) ** a_s, lambda: cirq.ISWAP(q0, q1) ** a_s, lambda: cirq.FSimGate(a_s, b_s).on(q0, q1), lambda: cirq.CZ(q1, q0) ** a_s,
               lambda: cirq.ISWAP(q1, q0) ** a_s, lambda: cirq.FSimGate(a_s, 0.3).on(q1, q0)):
        for inv in (False, True):
            op = mk()
            dec = cirq.parameterized_2q_op_to_sqrt_iswap_operations(op, use_sqrt_iswap_inv=inv)
            if dec is None or dec is NotImplemented:
                continue
            dec = list(cirq.flatten_to_ops(dec))  # the result may be a generator: materialise it once
            for a_val in [1.0, 0.0, 2.0, 0.5, -1.0] + [rng.choice([0.25, -0.7, 1.3, 1.5, 0.1]) for _ in range(2 if tier == "quick" else 8)]:
                vals = {"a": a_val, "b": rng.choice([0.0, 0.4, np.pi / 2, -1.1])}
                R.cases += 1
                try:
                    got = cirq.resolve_parameters(cirq.Circuit(dec), vals).unitary(qubit_order=[q0, q1], qubits_that_should_be_present=[q0, q1])
                except Exception as ex:
                    R.bad(f"parameterized_2q_op_to_sqrt_iswap_operations: resolving the decomposition raised {type(ex).__name__}", operation=op, values=vals, use_sqrt_iswap_inv=inv, error=str(ex)[:150])
                    continue
                want = cirq.Circuit(cirq.resolve_parameters(op, vals)).unitary(qubit_order=[q0, q1], qubits_that_should_be_present=[q0, q1])
                if not cirq.allclose_up_to_global_phase(got, want, atol=1e-6):
                    R.bad("parameterized_2q_op_to_sqrt_iswap_operations: resolved decomposition differs from the resolved operation (beyond global phase)", operation=op, values=vals, use_sqrt_iswap_inv=inv)
                if any(len(o.qubits) == 2 and o.gate not in (cirq.SQRT_ISWAP, cirq.SQRT_ISWAP_INV) for o in cirq.Circuit(dec).all_operations()):
                    R.bad("parameterized_2q_op_to_sqrt_iswap_operations uses a two-qubit gate other than sqrt-iSWAP", operation=op)
    return R.out("cirq-core/cirq/linalg+transformers/analytical_decompositions:diagonal+CZ factorisation, isometry, eigen / (bi)diagonalisation, Pauli recognition and powers, basis expansion, partial traces, parameterized sqrt-iSWAP",
                 "more-routines", "named / boundary / diagonal / random two-qubit unitaries x options; seeded real matrix pairs with degenerate values; Pauli strings on 1-3 qubits; random tensors")
standin_more_routines.prop = "C15"
STANDINS = [standin_kak, standin_single_qubit, standin_linalg, standin_two_qubit_synthesis, standin_multi_qubit, standin_states_and_cliffords, standin_more_routines]
NOT_COVERED = ["two_qubit_gate_tabulation (heuristic, statistical guarantees)", "gate-count optimality beyond the documented upper bounds"]
EXPLANATION = "all numeric decomposition and synthesis routines: bounded stand-ins on special (measure-zero), near-tolerance and random inputs. "
